#!/usr/bin/env python3
"""Shared machinery of the graphite verification runner (see DESIGN.md section 2.5).

 * content-hashed builds of /repo's current working tree (library objects + harness)
 * TLC invocation (BFS / simulate / trace validation) with parsing of its statistics
 * evidence files, known findings, VIOLATION / KNOWN-FINDING reporting
"""
import hashlib, json, os, re, shutil, subprocess, sys, time, glob, random

VERIF = os.path.dirname(os.path.abspath(__file__))
REPO = os.environ.get("VERIF_REPO", "/repo")
BUILD = os.path.join(VERIF, "build")
SPEC = os.path.join(VERIF, "spec")
HARNESS = os.path.join(VERIF, "harness")
EVID = os.environ.get("VERIF_EVID", os.path.join(VERIF, "evidence"))        # redirected by own mutation probes (tools/mut.py)
REPLAYS = os.environ.get("VERIF_REPLAYS", os.path.join(VERIF, "replays"))
GUARD = "GRAPHITE2_VERIF"
NCPU = os.cpu_count() or 4


class Broken(Exception):
    """Infrastructure failure: the check could not be carried out (never a violation)."""


def log(*a):
    print(*a, file=sys.stderr, flush=True)


def sh(cmd, timeout=None, cwd=None, env=None, check=False, input=None):
    e = dict(os.environ)
    if env:
        e.update(env)
    t0 = time.time()
    try:
        p = subprocess.run(cmd, shell=isinstance(cmd, str), cwd=cwd, env=e, timeout=timeout,
                           stdout=subprocess.PIPE, stderr=subprocess.STDOUT, input=input)
        out = p.stdout.decode("utf-8", "replace")
        rc = p.returncode
    except subprocess.TimeoutExpired as ex:
        out = (ex.stdout or b"").decode("utf-8", "replace") + "\n[TIMEOUT]"
        rc = 124
    if check and rc != 0:
        raise Broken("command failed (%d): %s\n%s" % (rc, cmd if isinstance(cmd, str) else " ".join(cmd), out[-4000:]))
    return rc, out, time.time() - t0


def sh_watch(cmd, timeout, cwd=None, env=None, stall=240):
    """Like sh() for a long-running tool, but a process that stops consuming CPU for `stall` seconds (TLC 1.8 can
    deadlock in its periodic work: main thread blocked in StateQueue.suspendAll) is killed and reported as rc 125."""
    import tempfile
    e = dict(os.environ)
    if env:
        e.update(env)
    t0 = time.time()
    with tempfile.TemporaryFile() as fo:
        p = subprocess.Popen(cmd, cwd=cwd, env=e, stdout=fo, stderr=subprocess.STDOUT)

        def cpu():
            try:
                f = open("/proc/%d/stat" % p.pid).read().rsplit(")", 1)[1].split()
                return int(f[11]) + int(f[12])
            except Exception:
                return None
        last, last_t, rc = cpu(), time.time(), None
        while True:
            try:
                rc = p.wait(timeout=5)
                break
            except subprocess.TimeoutExpired:
                pass
            now = time.time()
            c = cpu()
            if c is not None and c != last:
                last, last_t = c, now
            if now - t0 > timeout:
                p.kill(); p.wait(); rc = 124
                break
            if now - last_t > stall:
                p.kill(); p.wait(); rc = 125
                break
        fo.seek(0)
        out = fo.read().decode("utf-8", "replace")
    if rc == 124:
        out += "\n[TIMEOUT]"
    if rc == 125:
        out += "\n[STALLED: no CPU time consumed for %d s]" % stall
    return rc, out, time.time() - t0


# ----------------------------------------------------------------------------------------------
# builds
# ----------------------------------------------------------------------------------------------

CONFIGS = {
    # name: (compiler, flags, vm)
    "san":  ("clang++-14", "-O1 -g -fno-omit-frame-pointer -fsanitize=address,undefined -fno-sanitize-recover=undefined", "call"),
    "sand": ("clang++-14", "-O1 -g -fno-omit-frame-pointer -fsanitize=address,undefined -fno-sanitize-recover=undefined", "direct"),
    "tsan": ("clang++-14", "-O1 -g -fsanitize=thread", "call"),
    "relc": ("g++", "-O2", "call"),
    "reld": ("g++", "-O2", "direct"),
    "fast": ("clang++-14", "-O2", "call"),
    # the library as built with tracing support (GRAPHITE2_NTRACING not defined: gr_start_logging works)
    "sant": ("clang++-14", "-O1 -g -fno-omit-frame-pointer -fsanitize=address,undefined -fno-sanitize-recover=undefined", "call"),
}
COMMON = "-std=c++14 -fno-rtti -fno-exceptions -DGRAPHITE2_STATIC -DGRAPHITE2_NTRACING -D%s -I{repo}/include -I{repo}/src" % GUARD


def common_for(cfg):
    c = COMMON.format(repo=REPO)
    if cfg == "sant":
        c = c.replace("-DGRAPHITE2_NTRACING", "-DGRV_TRACING")
    return c


def _tree_hash(paths, extra=""):
    h = hashlib.sha256()
    h.update(extra.encode())
    for root in paths:
        if os.path.isfile(root):
            files = [root]
        else:
            files = sorted(glob.glob(os.path.join(root, "**", "*"), recursive=True))
        for f in files:
            if os.path.isfile(f) and re.search(r"\.(cpp|h|hpp|c)$", f):
                h.update(f.encode())
                with open(f, "rb") as fh:
                    h.update(fh.read())
    return h.hexdigest()[:16]


class _BuildLock:
    """Serialises builds of concurrently running checks (they share /verif/build)."""
    def __enter__(self):
        import fcntl
        os.makedirs(BUILD, exist_ok=True)
        self.fh = open(os.path.join(BUILD, ".lock"), "w")
        fcntl.flock(self.fh, fcntl.LOCK_EX)
        return self

    def __exit__(self, *a):
        import fcntl
        fcntl.flock(self.fh, fcntl.LOCK_UN)
        self.fh.close()


def _drop_stale(pattern, keep, age=3 * 3600):
    """Remove builds of other source states, but never ones a concurrently running check may still be using."""
    now = time.time()
    for old in glob.glob(pattern):
        if old == keep:
            continue
        try:
            if now - os.path.getmtime(old) > age:
                shutil.rmtree(old, ignore_errors=True) if os.path.isdir(old) else os.remove(old)
        except OSError:
            pass


def lib_sources(vm, tracing=False):
    srcs = sorted(glob.glob(os.path.join(REPO, "src", "*.cpp")))
    out = []
    for s in srcs:
        b = os.path.basename(s)
        if b in ("json.cpp",) and not tracing:
            continue
        if b.endswith("_machine.cpp") and b != vm + "_machine.cpp":
            continue
        out.append(s)
    return out


def build_lib(cfg):
    with _BuildLock():
        return _build_lib(cfg)


def _build_lib(cfg):
    """Compile /repo/src (current working tree) with hooks on; returns (dir, [objects])."""
    cc, flags, vm = CONFIGS[cfg]
    common = common_for(cfg)
    key = _tree_hash([os.path.join(REPO, "src"), os.path.join(REPO, "include")], cfg + flags + common)
    d = os.path.join(BUILD, "lib", cfg + "-" + key)
    srcs = lib_sources(vm, tracing=(cfg == "sant"))
    objs = [os.path.join(d, os.path.basename(s)[:-4] + ".o") for s in srcs]
    if os.path.exists(os.path.join(d, ".done")):
        return d, objs
    # drop stale builds of the same cfg
    _drop_stale(os.path.join(BUILD, "lib", cfg + "-*"), d)
    shutil.rmtree(d, ignore_errors=True)
    os.makedirs(d, exist_ok=True)
    jobs = []
    for s, o in zip(srcs, objs):
        jobs.append("%s %s %s -c %s -o %s" % (cc, flags, common, s, o))
    script = "\n".join(jobs)
    rc, out, dt = sh("xargs -P%d -I{} sh -c '{}'" % NCPU, input=script.encode(), timeout=900)
    if rc != 0 or not all(os.path.exists(o) for o in objs):
        raise Broken("library build failed for cfg %s:\n%s" % (cfg, out[-6000:]))
    open(os.path.join(d, ".done"), "w").write("ok")
    log("[build] lib %s in %.1fs" % (cfg, dt))
    return d, objs


def build_harness(cfg, name="grv", sources=None, extra_flags=""):
    with _BuildLock():
        return _build_harness(cfg, name, sources, extra_flags)


def _build_harness(cfg, name="grv", sources=None, extra_flags=""):
    """Link a harness program against the library objects of cfg; returns path of the binary."""
    cc, flags, vm = CONFIGS[cfg]
    libdir, objs = _build_lib(cfg)
    if sources is None:
        sources = sorted(glob.glob(os.path.join(HARNESS, "*.cpp")))
    common = common_for(cfg)
    hkey = _tree_hash([HARNESS], cfg + os.path.basename(libdir) + extra_flags + name + " ".join(sources))
    d = os.path.join(BUILD, "bin")
    os.makedirs(d, exist_ok=True)
    exe = os.path.join(d, "%s-%s-%s" % (name, cfg, hkey))
    if os.path.exists(exe):
        return exe
    _drop_stale(os.path.join(d, "%s-%s-*" % (name, cfg)), exe)
    hcommon = common.replace("-fno-exceptions", "")
    od = os.path.join(BUILD, "hobj", "%s-%s-%s" % (name, cfg, hkey))
    _drop_stale(os.path.join(BUILD, "hobj", "%s-%s-*" % (name, cfg)), od)
    shutil.rmtree(od, ignore_errors=True)
    os.makedirs(od, exist_ok=True)
    hobjs = [os.path.join(od, os.path.basename(s)[:-4] + ".o") for s in sources]
    script = "\n".join("%s %s %s -fexceptions -I%s %s -c %s -o %s" % (cc, flags, hcommon, HARNESS, extra_flags, s, o)
                       for s, o in zip(sources, hobjs))
    t0 = time.time()
    rc, out, dt = sh("xargs -P%d -I{} sh -c '{}'" % NCPU, input=script.encode(), timeout=900)
    if rc != 0 or not all(os.path.exists(o) for o in hobjs):
        raise Broken("harness compile failed (%s):\n%s" % (cfg, out[-6000:]))
    cmd = "%s %s %s %s -o %s -lpthread" % (cc, flags, " ".join(hobjs), " ".join(objs), exe + ".tmp")
    rc, out, dt = sh(cmd, timeout=900)
    dt = time.time() - t0
    shutil.rmtree(od, ignore_errors=True)
    if rc != 0:
        raise Broken("harness link failed (%s):\n%s" % (cfg, out[-6000:]))
    os.replace(exe + ".tmp", exe)
    log("[build] harness %s/%s in %.1fs" % (name, cfg, dt))
    return exe


SAN_ENV = {
    "ASAN_OPTIONS": "detect_leaks=1:abort_on_error=0:halt_on_error=1:allocator_may_return_null=1:exitcode=77:detect_stack_use_after_return=0",
    "UBSAN_OPTIONS": "halt_on_error=1:print_stacktrace=1:exitcode=78",
    "LSAN_OPTIONS": "exitcode=79",
    "TSAN_OPTIONS": "halt_on_error=0:exitcode=76:report_signal_unsafe=0",
}


# ----------------------------------------------------------------------------------------------
# TLC
# ----------------------------------------------------------------------------------------------

class TlcResult:
    def __init__(self):
        self.rc = None
        self.out = ""
        self.states = 0          # distinct states
        self.generated = 0       # states generated (= transitions explored + initial)
        self.depth = 0
        self.violation = None    # name of violated invariant/property or None
        self.emitted = []        # JSON objects the spec wrote to its output file
        self.coverage = {}       # action -> (taken, generated)
        self.wall = 0.0
        self.traces = 0          # behaviours generated (simulation)
        self.cached = False      # the output of an identical generation run was reused (build/tlccache)

    @property
    def transitions(self):
        return max(self.generated - 1, 0)


def _tlc_cache_key(module, cfg, cmd, env):
    h = hashlib.sha256()
    for f in sorted(glob.glob(os.path.join(SPEC, "*.tla"))):
        h.update(os.path.basename(f).encode()); h.update(open(f, "rb").read())
    h.update(open(os.path.join(SPEC, cfg), "rb").read())
    args = [a for i, a in enumerate(cmd) if a != cfg and not (i > 0 and cmd[i - 1] in ("-metadir", "-config"))]
    h.update(repr(args).encode())
    h.update(repr(sorted((k, v) for k, v in env.items() if k != "OUT")).encode())
    return h.hexdigest()[:32]


def _tlc_cache_get(key, out_file):
    d = os.path.join(BUILD, "tlccache", key)
    try:
        if not os.path.exists(os.path.join(d, ".done")) or time.time() - os.path.getmtime(os.path.join(d, ".done")) > 3 * 3600:
            return None
        meta = json.load(open(os.path.join(d, "meta.json")))
        shutil.copyfile(os.path.join(d, "out"), out_file)
        return meta["rc"], open(os.path.join(d, "stdout")).read(), meta["wall"]
    except Exception:
        return None


def _tlc_cache_put(key, out_file, rc, out, dt):
    try:
        if os.path.getsize(out_file) > 400 * 1024 * 1024:
            return
        root = os.path.join(BUILD, "tlccache")
        os.makedirs(root, exist_ok=True)
        for old in glob.glob(os.path.join(root, "*")):          # entries are short-lived
            try:
                if time.time() - os.path.getmtime(old) > 3 * 3600:
                    shutil.rmtree(old, ignore_errors=True)
            except OSError:
                pass
        tmp = os.path.join(root, ".%s.%d" % (key, os.getpid()))
        shutil.rmtree(tmp, ignore_errors=True)
        os.makedirs(tmp)
        shutil.copyfile(out_file, os.path.join(tmp, "out"))
        open(os.path.join(tmp, "stdout"), "w").write(out)
        json.dump({"rc": rc, "wall": dt}, open(os.path.join(tmp, "meta.json"), "w"))
        open(os.path.join(tmp, ".done"), "w").write("ok")
        d = os.path.join(root, key)
        if os.path.exists(d):
            shutil.rmtree(tmp, ignore_errors=True)
        else:
            os.rename(tmp, d)
    except Exception:
        pass


def tlc(module, cfg, workers=None, simulate=None, depth=None, seed=None, env=None, timeout=600,
        out_file=None, heap="8g", deadlock=False, coverage=True, extra=None, dfs=False, parse=True):
    """Run TLC on spec/<module>.tla with spec/<cfg>. Returns TlcResult. Raises Broken on tool failure."""
    os.makedirs(os.path.join(BUILD, "tlc"), exist_ok=True)
    meta = os.path.join(BUILD, "tlc", "meta-%s-%d-%d" % (os.path.basename(cfg), os.getpid(), random.randrange(1 << 30)))
    jopts = "-Xmx%s -Xss256m -XX:+UseParallelGC" % heap
    if dfs:
        jopts += " -Dtlc2.tool.queue.IStateQueue=StateDeque"
    cmd = ["java"] + jopts.split() + ["-cp", "/opt/veriftools/tla/tla2tools.jar:/opt/veriftools/tla/CommunityModules-deps.jar",
                                       "tlc2.TLC", "-metadir", meta, "-config", cfg, "-noGenerateSpecTE", "-checkpoint", "0"]
    if workers is None:
        workers = NCPU
    cmd += ["-workers", str(workers)]
    if simulate:
        cmd += ["-simulate", "num=%d" % simulate]
        if depth:
            cmd += ["-depth", str(depth)]
    if seed is not None:
        cmd += ["-seed", str(seed)]
    if not deadlock:
        cmd += ["-deadlock"]
    if coverage and not simulate:
        cmd += ["-coverage", "1"]
    if extra:
        cmd += extra
    cmd += [module]
    e = {}
    if env:
        e.update({k: str(v) for k, v in env.items()})
    if out_file:
        e["OUT"] = out_file
        if os.path.exists(out_file):
            os.remove(out_file)
    r = TlcResult()
    # Generation runs (TLC writes the behaviours it explores to out_file) depend on the specification, the configuration
    # and the arguments only - not on /repo - and several checks ask for the very same run (the GdlRef families feed
    # C02..C06): their output is kept under build/tlccache, keyed by the content of every module, of the configuration and
    # by the arguments, and reused while it is fresh.  Trace validation runs (env TRACE) are never cached.
    ckey = _tlc_cache_key(module, cfg, cmd, e) if (out_file and not (env and "TRACE" in env) and os.environ.get("VERIF_NO_TLC_CACHE") != "1") else None
    hit = _tlc_cache_get(ckey, out_file) if ckey else None
    if hit:
        rc, out, dt = hit
        r.cached = True
    else:
        rc, out, dt = sh_watch(cmd, timeout=timeout, cwd=SPEC, env=e)
        if rc == 125:          # a stalled TLC is a tool failure: one more attempt before giving up
            shutil.rmtree(meta, ignore_errors=True)
            if out_file and os.path.exists(out_file):
                os.remove(out_file)
            log("[tlc] %s/%s stalled, retrying" % (module, cfg))
            rc, out, dt = sh_watch(cmd, timeout=timeout, cwd=SPEC, env=e)
        shutil.rmtree(meta, ignore_errors=True)
        if ckey and rc == 0 and "is violated" not in out and out_file and os.path.exists(out_file):
            _tlc_cache_put(ckey, out_file, rc, out, dt)
    r.rc, r.out, r.wall = rc, out, dt
    m = None
    for m in re.finditer(r"(\d+) states generated, (\d+) distinct states found", out):
        pass
    if m:
        r.generated, r.states = int(m.group(1)), int(m.group(2))
    m = re.search(r"The depth of the complete state graph search is (\d+)", out)
    if m:
        r.depth = int(m.group(1))
    m = re.search(r"Invariant (\S+) is violated", out)
    if m:
        r.violation = m.group(1)
    m3 = re.search(r"Postcondition (\S+) .*is false", out)
    if m3 and not r.violation:
        r.violation = "Postcondition " + m3.group(1)
    m2 = re.search(r"(Temporal properties were violated|Action property \S+ is violated|Deadlock reached|The postcondition \S+ is violated|Assumption .* is false)", out)
    if m2 and not r.violation:
        r.violation = m2.group(1)
    if simulate:
        m = re.search(r"(\d+) states checked, (\d+) traces generated", out)
        if m:
            r.generated = int(m.group(1))
            r.states = r.states or int(m.group(1))
            r.traces = int(m.group(2))
    for m in re.finditer(r"^<(\w+) line \d+, col \d+ to line \d+, col \d+ of module (\w+)>: (\d+):(\d+)", out, re.M):
        a = m.group(1)
        t, g = int(m.group(3)), int(m.group(4))
        if a in r.coverage:
            t += r.coverage[a][0]
            g += r.coverage[a][1]
        r.coverage[a] = (t, g)
    if out_file and os.path.exists(out_file) and not parse:
        # fast path: only unquote the lines (each is a JSON string holding a JSON document)
        n = 0
        with open(out_file) as fh, open(out_file + ".tmp", "w") as fo:
            for line in fh:
                line = line.strip()
                if not line:
                    continue
                if line.startswith('"'):
                    line = json.loads(line)
                fo.write(line + "\n")
                n += 1
        os.replace(out_file + ".tmp", out_file)
        r.emitted_count = n
    elif out_file and os.path.exists(out_file):
        with open(out_file) as fh:
            for line in fh:
                line = line.strip()
                if not line:
                    continue
                try:
                    v = json.loads(line)
                    if isinstance(v, str):
                        v = json.loads(v)
                    r.emitted.append(v)
                except Exception:
                    raise Broken("bad line in TLC output file %s: %r" % (out_file, line[:200]))
        with open(out_file, "w") as fh:      # rewrite as clean NDJSON for the harness
            for v in r.emitted:
                fh.write(json.dumps(v, separators=(",", ":")) + "\n")
    ok_exit = rc in (0, 10, 12, 13)  # 0 ok, 12 safety violation, 13 liveness violation
    if rc == 124:
        raise Broken("TLC timed out after %ss on %s/%s" % (timeout, module, cfg))
    if not ok_exit and r.violation is None:
        k = out.find("Semantic errors")
        if k < 0:
            k = out.find("***Parse Error***")
        if k < 0:
            k2 = out.find("Reason:")
            k1 = out.find("Error:")
            msg = (out[k1:k1 + 600] + "\n...\n" + out[k2:k2 + 600]) if k2 >= 0 else (out[k1:k1 + 900] if k1 >= 0 else out[-1500:])
        else:
            msg = out[k:k + 1500]
        raise Broken("TLC failed rc=%s on %s/%s:\n%s" % (rc, module, cfg, msg))
    if r.states == 0 and not simulate and r.violation is None:
        raise Broken("TLC reported no states on %s/%s:\n%s" % (module, cfg, out[-3000:]))
    return r


def tlc_error_trace(out):
    """Extract the textual error trace of a TLC run (for replay artefacts)."""
    i = out.find("Error:")
    return out[i:i + 6000] if i >= 0 else ""


# ----------------------------------------------------------------------------------------------
# evidence / findings / reporting
# ----------------------------------------------------------------------------------------------

def known_findings():
    p = os.path.join(VERIF, "known_findings.json")
    if not os.path.exists(p):
        return []
    return json.load(open(p))


class Check:
    """Accumulates what a check run covered and how it ends."""

    def __init__(self, pid, tier, seed):
        self.pid, self.tier, self.seed = pid, tier, seed
        self.t0 = time.time()
        self.states = 0
        self.transitions = 0
        self.traces = 0
        self.samples = []
        self.extra = {}
        self.assumptions = []
        self.violations = []      # (what, replay_path)
        self.known_seen = []
        self.tlc_runs = []
        self.exhaustive = False
        self.findings = [f for f in known_findings() if f.get("property") == pid]

    def add_tlc(self, name, r, need_actions=()):
        self.states += r.states
        self.transitions += r.transitions
        self.tlc_runs.append({"run": name, "distinct_states": r.states, "states_generated": r.generated,
                              "depth": r.depth, "wall_s": round(r.wall, 1), "emitted": len(r.emitted), "reused_output_of_identical_run": bool(getattr(r, "cached", False)),
                              "coverage": {k: list(v) for k, v in sorted(r.coverage.items())}})
        for a in need_actions:
            if a not in r.coverage or r.coverage[a][0] == 0:
                raise Broken("vacuity: action %s never taken in TLC run %s" % (a, name))

    def sample(self, s, cap=6):
        if len(self.samples) < cap:
            self.samples.append(s)

    def violation(self, what, replay_obj):
        """Record a violation unless it matches an open known finding. `replay_obj` is JSON-serialisable."""
        ident = replay_obj.get("identity") if isinstance(replay_obj, dict) else None
        for f in self.findings:
            if f.get("status") == "open" and ident is not None and f.get("identity") == ident:
                if f["what"] not in [k["what"] for k in self.known_seen]:
                    self.known_seen.append(f)
                return False
        d = os.path.join(REPLAYS, self.pid)
        os.makedirs(d, exist_ok=True)
        h = hashlib.sha1(json.dumps(replay_obj, sort_keys=True, default=str).encode()).hexdigest()[:12]
        path = os.path.join(d, h + ".json")
        with open(path, "w") as fh:
            json.dump({"property": self.pid, "what": what, "case": replay_obj}, fh, indent=1, default=str)
        if len(self.violations) < 50:
            self.violations.append((what, os.path.relpath(path, VERIF)))
        return True

    def finish(self):
        wall = time.time() - self.t0
        cov = {
            "states": int(self.states), "transitions": int(self.transitions),
            "traces_validated_against_impl": int(self.traces),
            "samples": self.samples if self.samples else ["(none)"],
            "tlc_runs": self.tlc_runs, "exhaustive": bool(self.exhaustive),
            "known_findings_seen": [k["what"] for k in self.known_seen],
        }
        cov.update(self.extra)
        ev = {"property_id": self.pid, "tier": self.tier, "seed": int(self.seed), "level": "model_checking",
              "coverage": cov, "assumptions": self.assumptions, "wall_s": round(wall, 2),
              "violations": len(self.violations)}
        os.makedirs(EVID, exist_ok=True)
        with open(os.path.join(EVID, self.pid + ".json"), "w") as fh:
            json.dump(ev, fh, indent=1, default=str)
        for k in self.known_seen:
            print("KNOWN-FINDING: property=%s %s" % (self.pid, k["what"]))
        if self.violations:
            for what, path in self.violations[:10]:
                log("violation: " + what)
            print("VIOLATION property=%s replay=%s" % (self.pid, self.violations[0][1]))
            sys.stdout.flush()
            return 1
        print("OK property=%s tier=%s states=%d transitions=%d impl_traces=%d wall=%.1fs" % (
            self.pid, self.tier, self.states, self.transitions, self.traces, wall))
        return 0


def tmpdir(tag):
    d = os.path.join(BUILD, "tmp", "%s.%d" % (tag, os.getpid()))
    shutil.rmtree(d, ignore_errors=True)
    os.makedirs(d, exist_ok=True)
    return d


# ----------------------------------------------------------------------------------------------
# harness runs
# ----------------------------------------------------------------------------------------------

class HarnessResult:
    def __init__(self):
        self.fails = []       # parsed {"fail":..,"why":..,"case":..}
        self.summary = None   # parsed summary line or None (crash)
        self.fault = None     # text of the GRV-FAULT line / sanitizer report
        self.rc = None
        self.out = ""
        self.wall = 0.0


def run_harness(exe, args, timeout=1200, env=None, stdin=None):
    e = dict(SAN_ENV)
    if env:
        e.update(env)
    rc, out, dt = sh([exe] + [str(a) for a in args], env=e, timeout=timeout, input=stdin)
    h = HarnessResult()
    h.rc, h.out, h.wall = rc, out, dt
    for line in out.splitlines():
        if line.startswith('{"fail"'):
            try:
                h.fails.append(json.loads(line))
            except Exception:
                pass
        elif line.startswith('{"summary"'):
            try:
                h.summary = json.loads(line)
            except Exception:
                pass
    m = re.search(r"GRV-FAULT kind=(\S+) case=(.*)", out)
    if m or rc in (70, 76, 77, 78, 79) or (rc != 0 and "ERROR: " in out and "Sanitizer" in out):
        i = out.find("ERROR: ")
        rep = out[i:i + 1500] if i >= 0 else out[-1500:]
        h.fault = {"kind": m.group(1) if m else "sanitizer", "case": m.group(2) if m else "(unknown)", "report": rep, "rc": rc}
    elif rc == 124:
        h.fault = {"kind": "timeout", "case": "(harness timed out)", "report": out[-800:], "rc": rc}
    elif rc != 0 and h.summary is None:
        raise Broken("harness failed rc=%s: %s %s\n%s" % (rc, exe, args, out[-3000:]))
    return h


def absorb(ck, h, pid=None, identity_of=None):
    """Turn harness failures/faults into violations of check ck (only those tagged with ck.pid unless pid given)."""
    for f in h.fails:
        if f.get("fail") not in (pid or ck.pid, "*"):
            continue
        obj = {"why": f.get("why"), "case": f.get("case")}
        if identity_of:
            ident = identity_of(f)
            if ident is not None:
                obj["identity"] = ident
        ck.violation(f.get("why", "?"), obj)
    if h.fault:
        obj = {"why": "fault: " + h.fault["kind"], "case": h.fault["case"], "report": h.fault["report"]}
        if identity_of:
            ident = identity_of({"fault": h.fault})
            if ident is not None:
                obj["identity"] = ident
        ck.violation("fault (%s) while executing %s" % (h.fault["kind"], h.fault["case"][:200]), obj)


def hook_neutrality(jobs_path, tag="hn"):
    """Compile /repo/src twice with g++ -O1 - with and without -D GRAPHITE2_VERIF - link the public-API dumper
    tools/plain/dump.cpp against each and compare the outputs on the given jobs.  Returns (identical, n_lines)."""
    outs = []
    for with_hooks in (True, False):
        d = os.path.join(BUILD, "plain", "%s-%s-%d" % (tag, "hooks" if with_hooks else "nohooks", os.getpid()))
        shutil.rmtree(d, ignore_errors=True)
        os.makedirs(d)
        flags = "-std=c++14 -O1 -fno-rtti -fno-exceptions -DGRAPHITE2_STATIC -DGRAPHITE2_NTRACING %s -I%s/include -I%s/src" % ("-D" + GUARD if with_hooks else "", REPO, REPO)
        srcs = lib_sources("call")
        script = "\n".join("g++ %s -c %s -o %s" % (flags, s_, os.path.join(d, os.path.basename(s_)[:-4] + ".o")) for s_ in srcs)
        rc, out, _ = sh("xargs -P%d -I{} sh -c '{}'" % NCPU, input=script.encode(), timeout=900)
        if rc != 0:
            raise Broken("plain library build failed:\n" + out[-3000:])
        exe = os.path.join(d, "dump")
        rc, out, _ = sh("g++ -std=c++14 -O1 -DGRAPHITE2_STATIC -I%s/include -I%s %s %s/*.o -o %s" % (REPO, HARNESS, os.path.join(VERIF, "tools/plain/dump.cpp"), d, exe), timeout=900)
        if rc != 0:
            raise Broken("dumper link failed:\n" + out[-3000:])
        rc, out, _ = sh([exe, jobs_path], timeout=3000)
        shutil.rmtree(d, ignore_errors=True)
        if rc < 0 or rc in (134, 136, 139):
            # the library itself died on one of the jobs: that is a verdict on the library, not a tool failure
            return None, {"signal_or_rc": rc, "after_lines": out.count("\n"), "hooks": with_hooks, "last_output": out[-300:]}
        if rc != 0:
            raise Broken("dumper failed rc=%s: %s" % (rc, out[-1000:]))
        outs.append(out)
    return outs[0] == outs[1], outs[0].count("\n")
