#!/bin/bash
# usage: tools/wt_mutant.sh <seeded id> <Cxx> [tier]  - run ANOTHER property's check against a seeded change, in a scratch worktree
cd /verif
id=$1; prop=$2; tier=${3:-quick}
p=seeded/$id/patch_rebased.diff; [ -f $p ] || p=seeded/$id/patch.diff
wt=/tmp/swx_${id}_$prop
git -C /repo worktree remove --force $wt >/dev/null 2>&1; rm -rf $wt
git -C /repo worktree add --detach $wt HEAD >/dev/null 2>&1
git -C $wt apply /verif/$p || { echo "patch does not apply"; exit 2; }
VERIF_REPO=$wt VERIF_EVID=$wt/_evid VERIF_REPLAYS=$wt/_replays ./vcheck $prop --tier $tier 2>&1 | grep -E "^VIOLATION|^OK |BROKEN|^violation" | tail -3 | cut -c1-220
git -C /repo worktree remove --force $wt >/dev/null 2>&1; rm -rf $wt
