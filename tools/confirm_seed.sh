#!/bin/sh
# usage: tools/confirm_seed.sh <worktree> <Cxx_k>   - confirm a sub-agent's seeded change in its scratch worktree
# (compiles, same 87 tests pass, demo fails with patch and passes without), then copy it to /verif/seeded/<Cxx_k>/
WT="$1"; ID="$2"; D="$WT/seeded/$ID"
cd "$WT" || exit 2
git checkout -q -- . 
git apply "$D/patch.diff" || { echo "CONFIRM $ID: patch does not apply"; exit 1; }
cmake -G Ninja -S "$WT" -B "$WT/_build" -DCMAKE_BUILD_TYPE=RelWithDebInfo >/dev/null 2>&1
cmake --build "$WT/_build" >/dev/null 2>&1 || { echo "CONFIRM $ID: does not compile"; git checkout -q -- .; exit 1; }
NPASS=$(ctest --test-dir "$WT/_build" -j8 --timeout 900 2>&1 | grep -c "Passed")
DEMO=$(ls "$D"/demo.sh 2>/dev/null)
if [ -z "$DEMO" ]; then echo "CONFIRM $ID: no demo.sh (see README)"; fi
if [ -n "$DEMO" ]; then (cd "$WT" && timeout 900 bash "$DEMO" >/tmp/confirm_$ID.with 2>&1); RCW=$?; else RCW=-1; fi
git checkout -q -- .
cmake --build "$WT/_build" >/dev/null 2>&1
if [ -n "$DEMO" ]; then (cd "$WT" && timeout 900 bash "$DEMO" >/tmp/confirm_$ID.without 2>&1); RCO=$?; else RCO=-1; fi
echo "CONFIRM $ID: tests_passed=$NPASS demo_with_patch_rc=$RCW demo_without_patch_rc=$RCO"
if [ "$NPASS" = "87" ] && [ "$RCW" != "0" ] && [ "$RCO" = "0" ]; then
  mkdir -p /verif/seeded/$ID && cp -r "$D"/* /verif/seeded/$ID/ && echo "  kept -> /verif/seeded/$ID"
fi
rm -f /tmp/confirm_$ID.with /tmp/confirm_$ID.without
