#!/bin/bash
# Applies every seeded change to a scratch worktree of /repo and runs the property's quick check against it
# (VERIF_REPO; evidence and replays redirected into the worktree).  usage: tools/seeded_sweep.sh [ids...]
cd /verif
ids="$@"; [ -z "$ids" ] && ids=$(ls seeded | sort)
for id in $ids; do
  p=seeded/$id/patch_rebased.diff; [ -f $p ] || p=seeded/$id/patch.diff
  prop=${id%%_*}
  wt=/tmp/sw_$id
  git -C /repo worktree remove --force $wt >/dev/null 2>&1; rm -rf $wt
  git -C /repo worktree add --detach $wt HEAD >/dev/null 2>&1
  if ! git -C $wt apply /verif/$p 2>/dev/null; then echo "SEEDED $id: patch does not apply"; git -C /repo worktree remove --force $wt >/dev/null 2>&1; rm -rf $wt; continue; fi
  out=$(VERIF_REPO=$wt VERIF_EVID=$wt/_evid VERIF_REPLAYS=$wt/_replays ./vcheck $prop --tier quick 2>&1 | grep -E "^VIOLATION|^OK |BROKEN" | tail -1 | cut -c1-150)
  echo "SEEDED $id: $out"
  git -C /repo worktree remove --force $wt >/dev/null 2>&1; rm -rf $wt
done
echo SWEEPDONE
