// Hook neutrality: a dumper that uses the public API only, linked once against the library compiled with
// -DGRAPHITE2_VERIF (sinks never installed) and once without the define; the outputs must be identical.
// usage: dump <jobs.ndjson>     job: {"font": path, "cps": [...], "dir": n, "ppm": n}
#include <graphite2/Font.h>
#include <graphite2/Segment.h>
#include <cstdio>
#include <string>
#include <vector>
#include "json.hpp"

int main(int argc, char **argv) {
    if (argc < 2) return 2;
    FILE *f = fopen(argv[1], "r"); if (!f) return 2;
    std::string line, lastfont; gr_face *face = 0;
    while (vj::readline(f, line)) {
        if (line.empty()) continue;
        vj::P v = vj::parse(line);
        const std::string font = (*v)["font"].s;
        if (font != lastfont) { if (face) gr_face_destroy(face); face = gr_make_file_face(font.c_str(), 0); lastfont = font; }
        if (!face) { printf("noface\n"); continue; }
        std::vector<gr_uint32> cps; for (auto &x : (*v)["cps"].a) cps.push_back(gr_uint32(x->num()));
        const double ppm = v->has("ppm") ? (*v)["ppm"].dbl() : 0;
        gr_font *fo = ppm > 0 ? gr_make_font(float(ppm), face) : 0;
        gr_segment *s = gr_make_seg(fo, face, 0, 0, gr_utf32, cps.data(), cps.size(), int(v->get("dir", 0)));
        if (!s) { printf("null\n"); if (fo) gr_font_destroy(fo); continue; }
        printf("%u %.3f:", gr_seg_n_slots(s), gr_seg_advance_X(s));
        for (const gr_slot *p = gr_seg_first_slot(s); p; p = gr_slot_next_in_segment(p))
            printf(" %u@%.3f,%.3f[%d-%d]%d", gr_slot_gid(p), gr_slot_origin_X(p), gr_slot_origin_Y(p), gr_slot_before(p), gr_slot_after(p),
                   gr_slot_attached_to(p) ? int(gr_slot_index(gr_slot_attached_to(p))) : -1);
        printf("\n");
        gr_seg_destroy(s); if (fo) gr_font_destroy(fo);
    }
    if (face) gr_face_destroy(face);
    return 0;
}
