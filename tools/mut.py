#!/usr/bin/env python3
"""Own mutation probes: apply one textual replacement to a scratch worktree of /repo and run checks against it.
   usage: tools/mut.py <name> <file> <old> <new> <Cxx>[,Cyy...]      (old must occur exactly once; \\n allowed)
   The worktree lives under /tmp and is removed afterwards; /repo itself is never touched."""
import os, subprocess, sys, shutil
name, rel, old, new, props = sys.argv[1:6]
old = old.encode().decode("unicode_escape"); new = new.encode().decode("unicode_escape")
wt = "/tmp/mw_" + name
subprocess.run(["git", "-C", "/repo", "worktree", "remove", "--force", wt], capture_output=True)
shutil.rmtree(wt, ignore_errors=True)
subprocess.run(["git", "-C", "/repo", "worktree", "add", "--detach", wt, "HEAD"], check=True, capture_output=True)
try:
    p = os.path.join(wt, rel)
    s = open(p).read()
    if s.count(old) != 1:
        print("MUT %s: pattern occurs %d times" % (name, s.count(old))); sys.exit(2)
    open(p, "w").write(s.replace(old, new))
    for c in props.split(","):
        env = dict(os.environ, VERIF_REPO=wt, VERIF_EVID=wt + "/_evid", VERIF_REPLAYS=wt + "/_replays")
        r = subprocess.run(["./vcheck", c, "--tier", "quick"], cwd="/verif", env=env, capture_output=True, text=True)
        last = [l for l in (r.stdout + r.stderr).splitlines() if l.startswith(("VIOLATION", "OK ", "KNOWN", "violation:", "BROKEN", "broken"))]
        print("MUT %s %s rc=%d :: %s" % (name, c, r.returncode, " | ".join(l[:160] for l in last[-3:])))
        if r.returncode not in (0, 1):
            print((r.stdout + r.stderr)[-1500:])
finally:
    subprocess.run(["git", "-C", "/repo", "worktree", "remove", "--force", wt], capture_output=True)
    shutil.rmtree(wt, ignore_errors=True)
