#!/bin/sh
# usage: tools/try_mutant.sh <patch.diff> <Cxx> [tier]   - apply patch to /repo, run the check, always revert
P="$1"; C="$2"; T="${3:-quick}"
cd /repo || exit 2
if ! git diff --quiet -- src include; then echo "repo not clean"; exit 2; fi
git apply "$P" || { echo "patch does not apply"; exit 2; }
cd /verif && ./vcheck "$C" --tier "$T" 2>&1 | tail -${TAIL:-6}
RC=$?
git -C /repo checkout -- src include
echo "reverted; (vcheck output above)"
