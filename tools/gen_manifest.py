#!/usr/bin/env python3
"""Regenerates /verif/MANIFEST.json from the table below (claimed checks) + properties.jsonl."""
import json, os, subprocess
V = os.path.dirname(os.path.dirname(os.path.abspath(__file__)))
props = [json.loads(l) for l in open(os.path.join(V, "properties.jsonl"))]

TECH = "TLA+ spec + TLC model checking; spec-to-code replay and code-to-spec trace validation"
NOTE = "bounded: constants are in the evidence file; trusted: TLC/SANY, clang sanitizers + guard pages as sensors, harness projection (DESIGN.md 9)"
DONE = {
 "C07": ("Machine.tla (opcode specification on 32-bit two's complement + loader depth rule): TLC enumerates every loadable program up to a length bound and simulates long ones; each program is loaded and run through Machine::Code in four builds (call/direct x clang-san/g++-O2) and the returned value compared with the specification; corpus shaped by both interpreters must be identical", "4.8"),
 "C11": ("UtfOps/Utf/UtfText: TLC checks the implementation-shaped decoder against Unicode Table 3-7 on class strings; every explored buffer (expanded to all <=3-byte UTF-8 strings) is replayed into gr_count_unicode_characters/gr_make_seg in exact-size guarded buffers; recorded char-infos validated by TLC (UtfTextTrace)", "4.2"),
 "C12": ("UtfText ingestion contract: TLC-generated NUL-terminated texts x nChars replayed into gr_make_seg with the buffer ending at a guard page; recorded char-infos validated by TLC", "4.2"),
 "C20": ("Tags.tla contract vs implementation-shaped model; TLC cases expanded to all short strings and replayed in exact-size guarded buffers; tag-taking entry points probed with both paddings", "4.3"),
}
DONE.update(json.load(open(os.path.join(V, "tools", "claimed.json"))) if os.path.exists(os.path.join(V, "tools", "claimed.json")) else {})

hooks_commits = []
try:
    out = subprocess.run(["git", "-C", "/repo", "log", "--format=%h %s"], capture_output=True, text=True).stdout
    hooks_commits = [l.split()[0] for l in out.splitlines() if l.split(" ", 1)[1].startswith("verif-hook:")]
except Exception:
    pass

checks, na = [], []
for p in props:
    pid = p["id"]
    if pid in DONE:
        t, ref = DONE[pid]
        checks.append({"property_id": pid, "quick_cmd": "./vcheck %s --tier quick" % pid, "thorough_cmd": "./vcheck %s --tier thorough" % pid,
                       "evidence_file": "/verif/evidence/%s.json" % pid, "replay_cmd_template": "./vcheck %s --replay {path}" % pid,
                       "engine": "vcheck",
                       "level_claimed": {"category": "model_checking", "text": t, "design_ref": "DESIGN.md section %s and section 5 (%s)" % (ref, pid)},
                       "level_note": NOTE, "technique": TECH})
    else:
        na.append({"property_id": pid, "reason": "check not built yet (planned in DESIGN.md section 5); not a statement that the technique cannot apply"})
m = {"version": 1, "setup_cmd": "./setup.sh",
     "hooks": {"guard": "GRAPHITE2_VERIF", "enable": "checks compile /repo/src with -DGRAPHITE2_VERIF (vlib.py COMMON flags)",
               "baseline_off_cmd": "cmake -G Ninja -S /repo -B /repo/_build >/dev/null && cmake --build /repo/_build >/dev/null && ctest --test-dir /repo/_build -j8 --timeout 900",
               "source_commits": hooks_commits, "add_only": True},
     "engines": [{"name": "vcheck", "path": "/verif/vcheck", "serves_properties": sorted(DONE), "kind_free_text": "TLC (TLA+ specs in spec/) + C++ conformance harness grv (harness/) driven by a python runner"}],
     "checks": checks, "not_applicable": na,
     "notes": "see DESIGN.md; repairs of genuine defects committed to /repo are listed in known_findings.json as fixed entries"}
json.dump(m, open(os.path.join(V, "MANIFEST.json"), "w"), indent=1)
print("claimed:", sorted(DONE), "not yet:", [x["property_id"] for x in na])
