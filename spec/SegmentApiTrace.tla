-------------------------- MODULE SegmentApiTrace --------------------------
(* Validation of recorded linebreak / justify executions against the contract of SegmentApi.
   Every event carries the forward walk (fw) and the backward walk, reversed, (bw) of every line as observed
   through gr_slot_next_in_segment / gr_slot_prev_in_segment after the call, with the slots named by the
   ordinals they had in the freshly made segment. *)
EXTENDS SegmentApi

Log == ndJsonDeserialize(IOEnv.TRACE)
VARIABLES l, gids
tvars == <<vars, l, gids>>
Ev == Log[l]
IsEvent(e) == l <= Len(Log) /\ Ev.e = e /\ l' = l + 1

TInit == lines = << >> /\ njust = 0 /\ hist = << >> /\ l = 1 /\ gids = << >>

\* a freshly made segment: one line
TSeg == /\ IsEvent("Seg")
        /\ lines' = <<Ev.ids>> /\ njust' = 0 /\ hist' = << >> /\ gids' = Ev.gids
        /\ Ev.fw = <<Ev.ids>> /\ Ev.bw = <<Ev.ids>>

TBreak == /\ IsEvent("Break")
          /\ Break(Ev.at)
          /\ Ev.fw = lines' /\ Ev.bw = lines'
          /\ UNCHANGED gids

\* the call returned (the harness logs a Fault instead when it did not), every line is as before, numbers are finite
TJustify == /\ IsEvent("Justify")
            /\ Ev.line \in 1..Len(lines)
            /\ njust' = njust + 1 /\ UNCHANGED <<lines, hist, gids>>
            /\ Ev.fw = lines /\ Ev.bw = lines
            /\ Ev.finite
            /\ (Ev.nojust => Ev.gids = gids)          \* fonts without justification passes: same glyph ids

TDestroy == IsEvent("Destroy") /\ UNCHANGED <<vars, gids>>

TNext == TSeg \/ TBreak \/ TJustify \/ TDestroy
TSpec == TInit /\ [][TNext]_tvars
Accepted == TLCGet("stats").diameter - 1 = Len(Log)
=============================================================================
