-------------------------- MODULE SegmentApiTrace --------------------------
(* Validation of recorded linebreak / justify executions against the contract of SegmentApi.
   Every event carries the forward walk (fw) and the backward walk, reversed, (bw) of every line as observed
   through gr_slot_next_in_segment / gr_slot_prev_in_segment after the call, with the slots named by the
   ordinals they had in the freshly made segment. *)
EXTENDS SegmentApi

Log == ndJsonDeserialize(IOEnv.TRACE)
VARIABLES l, gids
tvars == <<vars, l, gids>>
Ev == Log[l]
IsEvent(e) == l <= Len(Log) /\ Ev.e = e /\ l' = l + 1

TInit == lines = << >> /\ njust = 0 /\ hist = << >> /\ l = 1 /\ gids = << >>

\* a freshly made segment: one line
TSeg == /\ IsEvent("Seg")
        /\ lines' = <<Ev.ids>> /\ njust' = 0 /\ hist' = << >> /\ gids' = Ev.gids
        /\ Ev.fw = <<Ev.ids>> /\ Ev.bw = <<Ev.ids>>

TBreak == /\ IsEvent("Break")
          /\ Break(Ev.at)
          /\ Ev.fw = lines' /\ Ev.bw = lines'
          /\ UNCHANGED gids

\* the call returned (the harness logs a Fault instead when it did not), every line is as before, numbers are finite
TJustify == /\ IsEvent("Justify")
            /\ Ev.line \in 1..Len(lines)
            /\ njust' = njust + 1 /\ UNCHANGED <<lines, hist, gids>>
            /\ Ev.fw = lines /\ Ev.bw = lines
            /\ Ev.finite
            /\ (Ev.nojust => Ev.gids = gids)          \* fonts without justification passes: same glyph ids

\* inside a justify call (hook events 6 and 7; spec/JustifyLinks.tla is the design these facts come from):
\* with the line-end markers in, the chain the passes walk is doubly linked (LinkedWhilePassesRun) and - unless the line
\* is reversed for the call - leads from the leading marker to the trailing one (MarkersReachable; asserted for left-to-right lines
\* without attached slots, the lines JustifyLinks describes - where "the next sibling" is the next slot: behind a cluster whose marks end the line, the base's sibling
\* link still names the first base of the NEXT line - gr_slot_linebreak_before clears only the sibling of the slot right
\* before the cut - and the trailing marker is put there for the duration of the call; in a right-to-left segment the sibling links run
\* backwards altogether: observation F12 in DESIGN.md);
\* with the markers out and the ends of the line put back, the line is a doubly linked chain from its first slot to its
\* last one again (ChainRestored, before the line is reversed back)
TMarkers == /\ IsEvent("Markers")
            /\ Ev.linked = 1 /\ ((Ev.rev = 0 /\ Ev.allbase = 1) => Ev.reach = 1)
            /\ UNCHANGED <<vars, gids>>
TUnmarked == /\ IsEvent("Unmarked")
             /\ Ev.linked = 1 /\ Ev.reach = 1
             /\ UNCHANGED <<vars, gids>>

TDestroy == IsEvent("Destroy") /\ UNCHANGED <<vars, gids>>

TNext == TSeg \/ TBreak \/ TJustify \/ TMarkers \/ TUnmarked \/ TDestroy
TSpec == TInit /\ [][TNext]_tvars
Accepted == TLCGet("stats").diameter - 1 = Len(Log)
=============================================================================
