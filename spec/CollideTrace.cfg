SPECIFICATION TSpec
CONSTANTS
  Tol = 24
  SkipLtrOffset = FALSE
POSTCONDITION Accepted
CHECK_DEADLOCK FALSE
