------------------------------- MODULE Lz4MC -------------------------------
EXTENDS Lz4
S1(a, o, m) == [ll |-> a, off |-> o, ml |-> m]
OneSeq(LLs, Offs, MLs, Tails) ==
  {b \in {[seqs |-> <<S1(a, o, m)>>, tail |-> t] : a \in LLs, o \in Offs, m \in MLs, t \in Tails} : WfSeqs(b.seqs, 1, 0)}
TwoSeq(LLs, Offs, MLs, Tails) ==
  {b \in {[seqs |-> <<S1(a, o, m), S1(a2, o2, m2)>>, tail |-> t] :
            a \in LLs, o \in Offs, m \in MLs, a2 \in {0, 1, 9}, o2 \in Offs, m2 \in {4, 12, 19}, t \in Tails} : WfSeqs(b.seqs, 1, 0)}
BlocksValid == OneSeq({1, 7, 8, 9, 14, 15, 16, 270}, {1, 2, 7, 8, 9, 16}, {4, 5, 11, 12, 13, 18, 19, 20, 40, 280}, {5, 6, 7, 12, 13})
               \cup TwoSeq({1, 8, 15}, {1, 8, 9}, {4, 12, 19}, {5, 6})
               \cup {[seqs |-> << >>, tail |-> t] : t \in {12, 13, 14, 30}}
BlocksSmall == OneSeq({1, 9, 15}, {1, 8, 9}, {4, 12, 19, 20}, {5, 6}) \cup TwoSeq({1}, {1}, {12}, {5})
BlocksValidBig == OneSeq({1, 2, 7, 8, 9, 14, 15, 16, 17, 269, 270, 271, 525}, {1, 2, 3, 7, 8, 9, 10, 15, 16, 17}, {4, 5, 6, 11, 12, 13, 18, 19, 20, 21, 40, 273, 274, 275, 530}, {5, 6, 7, 8, 12, 13})
               \cup TwoSeq({1, 8, 15, 16}, {1, 2, 8, 9}, {4, 5, 12, 19, 20}, {5, 6, 13})
=============================================================================
