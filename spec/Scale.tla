------------------------------- MODULE Scale -------------------------------
(***************************************************************************)
(* Positions are design-unit results scaled linearly by the font size      *)
(* (Segment::positionSlots / Slot::finalise with and without a gr_font,    *)
(* Font::m_scale = ppm / upem).  Property C15.                             *)
(*                                                                         *)
(* One record per pair of gr_make_seg calls on the same text: once with    *)
(* font = NULL (design units) and once with an unhinted font of P pixels   *)
(* per em.  The relation is checked by TLC in integer fixed point:         *)
(* positions are logged in 1/1024 of a unit, P as p2 = 2P, and             *)
(*        px1024 = du1024 * p2 / (2 * upem)   up to rounding,              *)
(* computed in stages so that no intermediate exceeds 2^31.                *)
(* Every fourth pair is followed by a record of the same relation after    *)
(* gr_slot_linebreak_before + gr_seg_justify of the second line (j = 1).   *)
(***************************************************************************)
EXTENDS Integers, Sequences, FiniteSets, TLC, Json, IOUtils

Records == ndJsonDeserialize(IOEnv.TRACE)

Abs(x) == IF x < 0 THEN -x ELSE x

\* du1024 * p2 / d  with d = 2 * upem, staged: (q * d + r) * p2 / d = q * p2 + (r * p2) / d
Scaled(du, p2, d) ==
  LET a == Abs(du)
      v == (a \div d) * p2 + (((a % d) * p2) \div d)
  IN  IF du < 0 THEN -v ELSE v

\* tolerance in 1/1024 px: logging quantisation of both sides plus single-precision accumulation over k operations
Tol(x, k, p2, d) == 8 + ((p2 + d - 1) \div d) + ((Abs(x) \div 1024) * (k + 8)) \div 1024

\* records made after cutting the segment in two and justifying the second line (j = 1): the space handed out is rounded
\* to whole design units per slot (int(pref / step) * step in Segment::justify), so the two runs may differ by a few
\* design units at any one slot while the total is kept: 8 design units more
TolJ(r) == IF r.j = 1 THEN Scaled(8 * 1024, r.p2, 2 * r.upem) + 8 ELSE 0
Close(px, du, k, r) == Abs(px - Scaled(du, r.p2, 2 * r.upem)) <= Tol(px, k, r.p2, 2 * r.upem) + TolJ(r)

VARIABLE k
Init == k = 1
Next == k < Len(Records) /\ k' = k + 1
Spec == Init /\ [][Next]_k

Rec == Records[k]
\* glyph ids, attachments and associations do not depend on the font
StructureSame == Rec.s0 = Rec.s1
\* every origin and advance, and the segment advance, scale by P / upem
PositionsScale ==
  /\ Len(Rec.du) = Len(Rec.px)
  /\ \A i \in 1..Len(Rec.du) : Close(Rec.px[i], Rec.du[i], (i + 3) \div 4, Rec)
AllSeen == TLCGet("stats").diameter = Len(Records)
=============================================================================
