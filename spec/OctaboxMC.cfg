SPECIFICATION Spec
CONSTANTS
  R = 2
INVARIANT TightenExact
