SPECIFICATION Spec
CONSTANTS
  MaxLen = 10
  KeepLast = TRUE
  Emit = TRUE
INVARIANTS Correct EmitDone
