----------------------------- MODULE SegmentApi -----------------------------
(***************************************************************************)
(* Post-creation operations on a returned segment: gr_slot_linebreak_before *)
(* and gr_seg_justify (src/gr_slot.cpp, src/Justifier.cpp).  Property C19. *)
(*                                                                         *)
(* CONTRACT: a segment is a sequence of lines, a line a sequence of slot   *)
(* ids.  Breaking before an interior slot splits its line in two; every    *)
(* justify call returns and leaves every line exactly as it was (same      *)
(* slots, same order, forwards and backwards), with finite positions and a *)
(* finite result; destroying the segment still works.                      *)
(*                                                                         *)
(* The model checker enumerates client behaviours (break sets, then        *)
(* justify calls with every kind of width / flags / pFirst / pLast) on an  *)
(* abstract segment of N slots; the harness replays each on real segments  *)
(* (positions are mapped proportionally) and logs, after every call, the   *)
(* forward and backward walk of every line; SegmentApiTrace validates the  *)
(* log against this contract.                                              *)
(***************************************************************************)
EXTENDS Integers, Sequences, FiniteSets, TLC, Json, IOUtils, CSV

CONSTANTS N,         \* slots of the abstract segment
          MaxBreaks, MaxJust,
          Emit

Widths == {"neg", "zero", "natural", "double"}
Flags  == 0..3
\* pFirst / pLast choices relative to the justified line: none, its first slot, an interior slot, its last slot
Bounds == {"null", "first", "mid", "last"}

VARIABLES lines,    \* Seq(Seq(slot id))
          njust, hist
vars == <<lines, njust, hist>>

Init == lines = <<[i \in 1..N |-> i]>> /\ njust = 0 /\ hist = << >>

\* position of slot s: <<line, index>>
LineOf(s) == CHOOSE li \in 1..Len(lines) : \E k \in 1..Len(lines[li]) : lines[li][k] = s
IndexOf(s) == CHOOSE k \in 1..Len(lines[LineOf(s)]) : lines[LineOf(s)][k] = s

\* gr_slot_linebreak_before(s): s must not be the first slot of its line
Break(s) ==
  /\ njust = 0 /\ Len(lines) <= MaxBreaks
  /\ IndexOf(s) > 1
  /\ LET li == LineOf(s) k == IndexOf(s) ln == lines[li] IN
     lines' = SubSeq(lines, 1, li - 1) \o <<SubSeq(ln, 1, k - 1), SubSeq(ln, k, Len(ln))>> \o SubSeq(lines, li + 1, Len(lines))
  /\ hist' = Append(hist, [op |-> "break", at |-> s, line |-> 0, width |-> "", flags |-> 0, pf |-> "", pl |-> ""])
  /\ UNCHANGED njust

\* gr_seg_justify(seg, first slot of line li, font, width, flags, pFirst, pLast): the stream is left as it was
Justify(li, w, f, pf, pl) ==
  /\ njust < MaxJust
  /\ njust' = njust + 1
  /\ hist' = Append(hist, [op |-> "justify", at |-> 0, line |-> li, width |-> w, flags |-> f, pf |-> pf, pl |-> pl])
  /\ UNCHANGED lines

Next == \/ \E s \in 1..N : Break(s)
        \/ \E li \in 1..Len(lines), w \in Widths, f \in Flags, pf \in Bounds, pl \in Bounds : Justify(li, w, f, pf, pl)
Spec == Init /\ [][Next]_vars

\* lines always partition the slots, in order
Partition == /\ \A li \in 1..Len(lines) : lines[li] # << >>
             /\ LET all == [i \in 1..N |-> i] IN
                \A s \in 1..N : \E li \in 1..Len(lines) : \E k \in 1..Len(lines[li]) : lines[li][k] = s
TypeOK == njust \in 0..MaxJust

CaseRecord == [n |-> N, hist |-> hist]
EmitDone == (Emit /\ njust = MaxJust) => CSVWrite("%1$s", <<ToJson(CaseRecord)>>, IOEnv.OUT)
=============================================================================
