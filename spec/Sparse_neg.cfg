SPECIFICATION Spec
CONSTANTS
  Keys = {0, 1, 47, 48, 95, 96, 250}
  Vals = {0, 7}
  MaxRuns = 3
  MaxRun = 2
  Emit = FALSE
  CheckOrder = FALSE
INVARIANTS WritesInBounds LookupsInBounds LookupsRight EmitDone
