SPECIFICATION Spec
CONSTANTS
  R = 3
  Mutant = TRUE
INVARIANTS SoundM
