---- MODULE JustifyLinks_TTrace_1790420590 ----
EXTENDS Sequences, TLCExt, Toolbox, JustifyLinks, Naturals, TLC

_expression ==
    LET JustifyLinks_TEExpression == INSTANCE JustifyLinks_TEExpression
    IN JustifyLinks_TEExpression!expression
----

_trace ==
    LET JustifyLinks_TETrace == INSTANCE JustifyLinks_TETrace
    IN JustifyLinks_TETrace!trace
----

_inv ==
    ~(
        TLCGet("level") = Len(_TETrace)
        /\
        rev = (TRUE)
        /\
        pLast = (5)
        /\
        pFirst = (3)
        /\
        freed = ({})
        /\
        nxt = ((0 :> 0 @@ 1 :> 0 @@ 2 :> 4 @@ 3 :> 5 @@ 4 :> 1 @@ 5 :> 2 @@ 6 :> 0 @@ 7 :> 0))
        /\
        K = (3)
        /\
        mfirst = (4)
        /\
        mlast = (5)
        /\
        pc = ("delA")
        /\
        prv = ((0 :> 0 @@ 1 :> 4 @@ 2 :> 5 @@ 3 :> 0 @@ 4 :> 2 @@ 5 :> 3 @@ 6 :> 0 @@ 7 :> 0))
        /\
        crashed = (FALSE)
        /\
        le = (TRUE)
        /\
        endp = (2)
        /\
        pSlot = (4)
    )
----

_init ==
    /\ le = _TETrace[1].le
    /\ nxt = _TETrace[1].nxt
    /\ pLast = _TETrace[1].pLast
    /\ K = _TETrace[1].K
    /\ pc = _TETrace[1].pc
    /\ mlast = _TETrace[1].mlast
    /\ endp = _TETrace[1].endp
    /\ rev = _TETrace[1].rev
    /\ prv = _TETrace[1].prv
    /\ mfirst = _TETrace[1].mfirst
    /\ crashed = _TETrace[1].crashed
    /\ pFirst = _TETrace[1].pFirst
    /\ pSlot = _TETrace[1].pSlot
    /\ freed = _TETrace[1].freed
----

_next ==
    /\ \E i,j \in DOMAIN _TETrace:
        /\ \/ /\ j = i + 1
              /\ i = TLCGet("level")
        /\ le  = _TETrace[i].le
        /\ le' = _TETrace[j].le
        /\ nxt  = _TETrace[i].nxt
        /\ nxt' = _TETrace[j].nxt
        /\ pLast  = _TETrace[i].pLast
        /\ pLast' = _TETrace[j].pLast
        /\ K  = _TETrace[i].K
        /\ K' = _TETrace[j].K
        /\ pc  = _TETrace[i].pc
        /\ pc' = _TETrace[j].pc
        /\ mlast  = _TETrace[i].mlast
        /\ mlast' = _TETrace[j].mlast
        /\ endp  = _TETrace[i].endp
        /\ endp' = _TETrace[j].endp
        /\ rev  = _TETrace[i].rev
        /\ rev' = _TETrace[j].rev
        /\ prv  = _TETrace[i].prv
        /\ prv' = _TETrace[j].prv
        /\ mfirst  = _TETrace[i].mfirst
        /\ mfirst' = _TETrace[j].mfirst
        /\ crashed  = _TETrace[i].crashed
        /\ crashed' = _TETrace[j].crashed
        /\ pFirst  = _TETrace[i].pFirst
        /\ pFirst' = _TETrace[j].pFirst
        /\ pSlot  = _TETrace[i].pSlot
        /\ pSlot' = _TETrace[j].pSlot
        /\ freed  = _TETrace[i].freed
        /\ freed' = _TETrace[j].freed

\* Uncomment the ASSUME below to write the states of the error trace
\* to the given file in Json format. Note that you can pass any tuple
\* to `JsonSerialize`. For example, a sub-sequence of _TETrace.
    \* ASSUME
    \*     LET J == INSTANCE Json
    \*         IN J!JsonSerialize("JustifyLinks_TTrace_1790420590.json", _TETrace)

=============================================================================

 Note that you can extract this module `JustifyLinks_TEExpression`
  to a dedicated file to reuse `expression` (the module in the 
  dedicated `JustifyLinks_TEExpression.tla` file takes precedence 
  over the module `JustifyLinks_TEExpression` below).

---- MODULE JustifyLinks_TEExpression ----
EXTENDS Sequences, TLCExt, Toolbox, JustifyLinks, Naturals, TLC

expression == 
    [
        \* To hide variables of the `JustifyLinks` spec from the error trace,
        \* remove the variables below.  The trace will be written in the order
        \* of the fields of this record.
        le |-> le
        ,nxt |-> nxt
        ,pLast |-> pLast
        ,K |-> K
        ,pc |-> pc
        ,mlast |-> mlast
        ,endp |-> endp
        ,rev |-> rev
        ,prv |-> prv
        ,mfirst |-> mfirst
        ,crashed |-> crashed
        ,pFirst |-> pFirst
        ,pSlot |-> pSlot
        ,freed |-> freed
        
        \* Put additional constant-, state-, and action-level expressions here:
        \* ,_stateNumber |-> _TEPosition
        \* ,_leUnchanged |-> le = le'
        
        \* Format the `le` variable as Json value.
        \* ,_leJson |->
        \*     LET J == INSTANCE Json
        \*     IN J!ToJson(le)
        
        \* Lastly, you may build expressions over arbitrary sets of states by
        \* leveraging the _TETrace operator.  For example, this is how to
        \* count the number of times a spec variable changed up to the current
        \* state in the trace.
        \* ,_leModCount |->
        \*     LET F[s \in DOMAIN _TETrace] ==
        \*         IF s = 1 THEN 0
        \*         ELSE IF _TETrace[s].le # _TETrace[s-1].le
        \*             THEN 1 + F[s-1] ELSE F[s-1]
        \*     IN F[_TEPosition - 1]
    ]

=============================================================================



Parsing and semantic processing can take forever if the trace below is long.
 In this case, it is advised to uncomment the module below to deserialize the
 trace from a generated binary file.

\*
\*---- MODULE JustifyLinks_TETrace ----
\*EXTENDS IOUtils, JustifyLinks, TLC
\*
\*trace == IODeserialize("JustifyLinks_TTrace_1790420590.bin", TRUE)
\*
\*=============================================================================
\*

---- MODULE JustifyLinks_TETrace ----
EXTENDS JustifyLinks, TLC

trace == 
    <<
    ([rev |-> TRUE,pLast |-> 3,pFirst |-> 0,freed |-> {},nxt |-> (0 :> 0 @@ 1 :> 2 @@ 2 :> 3 @@ 3 :> 0 @@ 4 :> 0 @@ 5 :> 0 @@ 6 :> 0 @@ 7 :> 0),K |-> 3,mfirst |-> 1,mlast |-> 3,pc |-> "reverse1",prv |-> (0 :> 0 @@ 1 :> 0 @@ 2 :> 1 @@ 3 :> 2 @@ 4 :> 0 @@ 5 :> 0 @@ 6 :> 0 @@ 7 :> 0),crashed |-> FALSE,le |-> TRUE,endp |-> 0,pSlot |-> 1]),
    ([rev |-> TRUE,pLast |-> 0,pFirst |-> 3,freed |-> {},nxt |-> (0 :> 0 @@ 1 :> 0 @@ 2 :> 1 @@ 3 :> 2 @@ 4 :> 0 @@ 5 :> 0 @@ 6 :> 0 @@ 7 :> 0),K |-> 3,mfirst |-> 3,mlast |-> 1,pc |-> "bounds",prv |-> (0 :> 0 @@ 1 :> 2 @@ 2 :> 3 @@ 3 :> 0 @@ 4 :> 0 @@ 5 :> 0 @@ 6 :> 0 @@ 7 :> 0),crashed |-> FALSE,le |-> TRUE,endp |-> 0,pSlot |-> 1]),
    ([rev |-> TRUE,pLast |-> 3,pFirst |-> 3,freed |-> {},nxt |-> (0 :> 0 @@ 1 :> 0 @@ 2 :> 1 @@ 3 :> 2 @@ 4 :> 0 @@ 5 :> 0 @@ 6 :> 0 @@ 7 :> 0),K |-> 3,mfirst |-> 3,mlast |-> 1,pc |-> "addA",prv |-> (0 :> 0 @@ 1 :> 2 @@ 2 :> 3 @@ 3 :> 0 @@ 4 :> 0 @@ 5 :> 0 @@ 6 :> 0 @@ 7 :> 0),crashed |-> FALSE,le |-> TRUE,endp |-> 2,pSlot |-> 1]),
    ([rev |-> TRUE,pLast |-> 3,pFirst |-> 3,freed |-> {},nxt |-> (0 :> 0 @@ 1 :> 0 @@ 2 :> 4 @@ 3 :> 2 @@ 4 :> 1 @@ 5 :> 0 @@ 6 :> 0 @@ 7 :> 0),K |-> 3,mfirst |-> 4,mlast |-> 1,pc |-> "addB",prv |-> (0 :> 0 @@ 1 :> 4 @@ 2 :> 3 @@ 3 :> 0 @@ 4 :> 2 @@ 5 :> 0 @@ 6 :> 0 @@ 7 :> 0),crashed |-> FALSE,le |-> TRUE,endp |-> 2,pSlot |-> 4]),
    ([rev |-> TRUE,pLast |-> 5,pFirst |-> 3,freed |-> {},nxt |-> (0 :> 0 @@ 1 :> 0 @@ 2 :> 4 @@ 3 :> 5 @@ 4 :> 1 @@ 5 :> 2 @@ 6 :> 0 @@ 7 :> 0),K |-> 3,mfirst |-> 4,mlast |-> 5,pc |-> "delA",prv |-> (0 :> 0 @@ 1 :> 4 @@ 2 :> 5 @@ 3 :> 0 @@ 4 :> 2 @@ 5 :> 3 @@ 6 :> 0 @@ 7 :> 0),crashed |-> FALSE,le |-> TRUE,endp |-> 2,pSlot |-> 4])
    >>
----


=============================================================================

---- CONFIG JustifyLinks_TTrace_1790420590 ----
CONSTANTS
    N = 5
    FullLink = TRUE

INVARIANT
    _inv

CHECK_DEADLOCK
    \* CHECK_DEADLOCK off because of PROPERTY or INVARIANT above.
    FALSE

INIT
    _init

NEXT
    _next

CONSTANT
    _TETrace <- _trace

ALIAS
    _expression
=============================================================================
\* Generated on Sat Sep 26 11:03:14 UTC 2026