------------------------------ MODULE Octabox ------------------------------
(***************************************************************************)
(* Geometry of octaboxes (property C17): a glyph's bounding octabox is the *)
(* intersection of eight half planes  xi <= x <= xa, yi <= y <= ya,        *)
(* si <= x + y <= sa, di <= x - y <= da  (src/inc/GlyphCache.h BBox and    *)
(* SlantBox).  The nominal bounds stored in a font need not be tight, so   *)
(* "two octaboxes overlap" cannot be read off the nominal bounds: it is    *)
(* decided on the tight support values of the intersection.  Tighten is    *)
(* exact for one application (every tight bound of a non-empty polygon in  *)
(* the plane is a non-negative combination of at most two constraints);    *)
(* module OctaboxMC has TLC confirm this against point enumeration.        *)
(*                                                                         *)
(* All operators work on integers.  Overlap doubles the coordinates first  *)
(* so that the halves in Tighten are exact.                                *)
(***************************************************************************)
EXTENDS Integers, Sequences

Max(a, b) == IF a > b THEN a ELSE b
Min(a, b) == IF a < b THEN a ELSE b
Max4(a, b, c, d) == Max(Max(a, b), Max(c, d))
Min4(a, b, c, d) == Min(Min(a, b), Min(c, d))

Oct(xi, xa, yi, ya, si, sa, di, da) == [xi |-> xi, xa |-> xa, yi |-> yi, ya |-> ya, si |-> si, sa |-> sa, di |-> di, da |-> da]
OctOfSeq(q) == Oct(q[1], q[2], q[3], q[4], q[5], q[6], q[7], q[8])
\* the octabox moved by the vector p = <<x, y>>
Move(o, p) == Oct(o.xi + p[1], o.xa + p[1], o.yi + p[2], o.ya + p[2], o.si + p[1] + p[2], o.sa + p[1] + p[2], o.di + p[1] - p[2], o.da + p[1] - p[2])
Dbl(o) == Oct(2 * o.xi, 2 * o.xa, 2 * o.yi, 2 * o.ya, 2 * o.si, 2 * o.sa, 2 * o.di, 2 * o.da)
Meet(a, b) == Oct(Max(a.xi, b.xi), Min(a.xa, b.xa), Max(a.yi, b.yi), Min(a.ya, b.ya), Max(a.si, b.si), Min(a.sa, b.sa), Max(a.di, b.di), Min(a.da, b.da))

\* tight support values; o has even entries.  2x = s + d, 2y = s - d, x = s - y = d + y, y = s - x = x - d
Tighten(o) ==
  Oct(Max4(o.xi, (o.si + o.di) \div 2, o.si - o.ya, o.di + o.yi),
      Min4(o.xa, (o.sa + o.da) \div 2, o.sa - o.yi, o.da + o.ya),
      Max4(o.yi, (o.si - o.da) \div 2, o.si - o.xa, o.xi - o.da),
      Min4(o.ya, (o.sa - o.di) \div 2, o.sa - o.xi, o.xa - o.di),
      Max4(o.si, o.xi + o.yi, 2 * o.xi - o.da, 2 * o.yi + o.di),
      Min4(o.sa, o.xa + o.ya, 2 * o.xa - o.di, 2 * o.ya + o.da),
      Max4(o.di, o.xi - o.ya, 2 * o.xi - o.sa, o.si - 2 * o.ya),
      Min4(o.da, o.xa - o.yi, 2 * o.xa - o.si, o.sa - 2 * o.yi))

NonEmpty(t) == t.xi <= t.xa /\ t.yi <= t.ya /\ t.si <= t.sa /\ t.di <= t.da

\* The two octaboxes share a region that is more than tol wide in every one of the four directions
\* (tol in the units of a and b; the diagonal extents are measured in x + y and x - y, hence the factor 2).
Overlap(a, b, tol) ==
  LET m == Tighten(Meet(Dbl(a), Dbl(b)))
  IN  m.xa - m.xi > 2 * tol /\ m.ya - m.yi > 2 * tol /\ m.sa - m.si > 4 * tol /\ m.da - m.di > 4 * tol
=============================================================================
