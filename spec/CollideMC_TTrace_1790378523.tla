---- MODULE CollideMC_TTrace_1790378523 ----
EXTENDS Sequences, TLCExt, Toolbox, Naturals, TLC, CollideMC

_expression ==
    LET CollideMC_TEExpression == INSTANCE CollideMC_TEExpression
    IN CollideMC_TEExpression!expression
----

_trace ==
    LET CollideMC_TETrace == INSTANCE CollideMC_TETrace
    IN CollideMC_TETrace!trace
----

_inv ==
    ~(
        TLCGet("level") = Len(_TETrace)
        /\
        inlim = (<<TRUE, TRUE>>)
        /\
        col = (<<FALSE, FALSE>>)
        /\
        lim = (<<[blx |-> -1, bly |-> 0, trx |-> 1, try |-> 0], [blx |-> -1, bly |-> -1, trx |-> 1, try |-> 1]>>)
        /\
        pos = (<<<<0, 0>>, <<-1, -1>>>>)
        /\
        shift = (<<<<-1, -1>>, <<0, 0>>>>)
        /\
        box = (<<[xa |-> 2, xi |-> 0, ya |-> 2, yi |-> 0, si |-> 0, sa |-> 4, di |-> -2, da |-> 2], [xa |-> 2, xi |-> 0, ya |-> 2, yi |-> 0, si |-> 0, sa |-> 4, di |-> -2, da |-> 2]>>)
        /\
        off = (<<<<0, 0>>, <<0, 0>>>>)
    )
----

_init ==
    /\ off = _TETrace[1].off
    /\ box = _TETrace[1].box
    /\ pos = _TETrace[1].pos
    /\ inlim = _TETrace[1].inlim
    /\ col = _TETrace[1].col
    /\ lim = _TETrace[1].lim
    /\ shift = _TETrace[1].shift
----

_next ==
    /\ \E i,j \in DOMAIN _TETrace:
        /\ \/ /\ j = i + 1
              /\ i = TLCGet("level")
        /\ off  = _TETrace[i].off
        /\ off' = _TETrace[j].off
        /\ box  = _TETrace[i].box
        /\ box' = _TETrace[j].box
        /\ pos  = _TETrace[i].pos
        /\ pos' = _TETrace[j].pos
        /\ inlim  = _TETrace[i].inlim
        /\ inlim' = _TETrace[j].inlim
        /\ col  = _TETrace[i].col
        /\ col' = _TETrace[j].col
        /\ lim  = _TETrace[i].lim
        /\ lim' = _TETrace[j].lim
        /\ shift  = _TETrace[i].shift
        /\ shift' = _TETrace[j].shift

\* Uncomment the ASSUME below to write the states of the error trace
\* to the given file in Json format. Note that you can pass any tuple
\* to `JsonSerialize`. For example, a sub-sequence of _TETrace.
    \* ASSUME
    \*     LET J == INSTANCE Json
    \*         IN J!JsonSerialize("CollideMC_TTrace_1790378523.json", _TETrace)

=============================================================================

 Note that you can extract this module `CollideMC_TEExpression`
  to a dedicated file to reuse `expression` (the module in the 
  dedicated `CollideMC_TEExpression.tla` file takes precedence 
  over the module `CollideMC_TEExpression` below).

---- MODULE CollideMC_TEExpression ----
EXTENDS Sequences, TLCExt, Toolbox, Naturals, TLC, CollideMC

expression == 
    [
        \* To hide variables of the `CollideMC` spec from the error trace,
        \* remove the variables below.  The trace will be written in the order
        \* of the fields of this record.
        off |-> off
        ,box |-> box
        ,pos |-> pos
        ,inlim |-> inlim
        ,col |-> col
        ,lim |-> lim
        ,shift |-> shift
        
        \* Put additional constant-, state-, and action-level expressions here:
        \* ,_stateNumber |-> _TEPosition
        \* ,_offUnchanged |-> off = off'
        
        \* Format the `off` variable as Json value.
        \* ,_offJson |->
        \*     LET J == INSTANCE Json
        \*     IN J!ToJson(off)
        
        \* Lastly, you may build expressions over arbitrary sets of states by
        \* leveraging the _TETrace operator.  For example, this is how to
        \* count the number of times a spec variable changed up to the current
        \* state in the trace.
        \* ,_offModCount |->
        \*     LET F[s \in DOMAIN _TETrace] ==
        \*         IF s = 1 THEN 0
        \*         ELSE IF _TETrace[s].off # _TETrace[s-1].off
        \*             THEN 1 + F[s-1] ELSE F[s-1]
        \*     IN F[_TEPosition - 1]
    ]

=============================================================================



Parsing and semantic processing can take forever if the trace below is long.
 In this case, it is advised to uncomment the module below to deserialize the
 trace from a generated binary file.

\*
\*---- MODULE CollideMC_TETrace ----
\*EXTENDS IOUtils, TLC, CollideMC
\*
\*trace == IODeserialize("CollideMC_TTrace_1790378523.bin", TRUE)
\*
\*=============================================================================
\*

---- MODULE CollideMC_TETrace ----
EXTENDS TLC, CollideMC

trace == 
    <<
    ([inlim |-> <<TRUE, TRUE>>,col |-> <<FALSE, FALSE>>,lim |-> <<[blx |-> -1, bly |-> 0, trx |-> 1, try |-> 0], [blx |-> -1, bly |-> -1, trx |-> 1, try |-> 1]>>,pos |-> <<<<0, 0>>, <<-1, -1>>>>,shift |-> <<<<0, 0>>, <<0, 0>>>>,box |-> <<[xa |-> 2, xi |-> 0, ya |-> 2, yi |-> 0, si |-> 0, sa |-> 4, di |-> -2, da |-> 2], [xa |-> 2, xi |-> 0, ya |-> 2, yi |-> 0, si |-> 0, sa |-> 4, di |-> -2, da |-> 2]>>,off |-> <<<<0, 0>>, <<0, 0>>>>]),
    ([inlim |-> <<TRUE, TRUE>>,col |-> <<FALSE, FALSE>>,lim |-> <<[blx |-> -1, bly |-> 0, trx |-> 1, try |-> 0], [blx |-> -1, bly |-> -1, trx |-> 1, try |-> 1]>>,pos |-> <<<<0, 0>>, <<-1, -1>>>>,shift |-> <<<<-1, -1>>, <<0, 0>>>>,box |-> <<[xa |-> 2, xi |-> 0, ya |-> 2, yi |-> 0, si |-> 0, sa |-> 4, di |-> -2, da |-> 2], [xa |-> 2, xi |-> 0, ya |-> 2, yi |-> 0, si |-> 0, sa |-> 4, di |-> -2, da |-> 2]>>,off |-> <<<<0, 0>>, <<0, 0>>>>])
    >>
----


=============================================================================

---- CONFIG CollideMC_TTrace_1790378523 ----
CONSTANTS
    NG = 2
    Pts <- MCPts
    Boxes <- MCBoxes
    Rects <- MCRects
    Tol = 0
    Guarded = FALSE

INVARIANT
    _inv

CHECK_DEADLOCK
    \* CHECK_DEADLOCK off because of PROPERTY or INVARIANT above.
    FALSE

INIT
    _init

NEXT
    _next

CONSTANT
    _TETrace <- _trace

ALIAS
    _expression
=============================================================================
\* Generated on Fri Sep 25 23:22:03 UTC 2026