SPECIFICATION Spec
CONSTANTS
  N = 6
  MaxBreaks = 2
  MaxJust = 3
  Emit = TRUE
INVARIANTS Partition TypeOK EmitDone
