SPECIFICATION Spec
CONSTANTS
  N = 4
  FullLink = FALSE
INVARIANTS TypeOK MarkersReachable
