SPECIFICATION TSpec
CONSTANTS
  NG = 6
  Classes <- Cls4
  Adv <- AdvF
  GAttr <- GAttrF
  MaxRules = 9
  MaxPasses = 9
  MaxLen = 9
  MaxText = 99
  Rtl = 0
  NFeat = 2
  Ops <- OpsAll
  Emit = FALSE
POSTCONDITION Accepted
CHECK_DEADLOCK FALSE
