SPECIFICATION Spec
CONSTANTS
  NoWordJump = FALSE
  FeatDefs <- DefsFull
  MaxFeats = 4
  MaxOps = 2
  SetVals = {}
  Fixed = TRUE
  Emit = TRUE
INVARIANTS PackingOk Refines LastOpOk DefaultsOk EmitDone
