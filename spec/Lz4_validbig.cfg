SPECIFICATION Spec
CONSTANTS
  Blocks <- BlocksValidBig
  Mutate = FALSE
  Emit = TRUE
INVARIANTS ReadsInBounds WritesInBounds ExactWhenAccepted AcceptsConforming EncodeParse EmitDone
