----------------------------- MODULE OctaboxMC -----------------------------
(* TLC confirms the geometric oracle of C17 by enumeration: for every octabox with nominal bounds on a small grid
   (given in doubled coordinates, i.e. even bounds, as Overlap uses them) one application of Tighten yields exactly
   the extreme values of x, y, x + y, x - y over the points of the octabox, and the octabox is empty exactly when
   some tightened interval is empty.  All vertices of such an octabox are integer points of the doubled grid, so
   enumerating integer points is exact. *)
EXTENDS Octabox, FiniteSets, TLC
CONSTANTS R          \* half-width of the grid in doubled coordinates (even)
VARIABLE b
Ev == {v \in -R..R : v % 2 = 0}
Ev2 == {v \in (-2 * R)..(2 * R) : v % 2 = 0}
Init == b \in [xi : Ev, xa : Ev, yi : Ev, ya : Ev, si : Ev2, sa : Ev2, di : Ev2, da : Ev2]
Next == UNCHANGED b
Spec == Init /\ [][Next]_b
Points(o) == {p \in (-R..R) \X (-R..R) : /\ o.xi <= p[1] /\ p[1] <= o.xa /\ o.yi <= p[2] /\ p[2] <= o.ya
                                         /\ o.si <= p[1] + p[2] /\ p[1] + p[2] <= o.sa /\ o.di <= p[1] - p[2] /\ p[1] - p[2] <= o.da}
SetMax(S) == CHOOSE v \in S : \A w \in S : w <= v
SetMin(S) == CHOOSE v \in S : \A w \in S : v <= w
TightenExact ==
  LET P == Points(b)
      t == Tighten(b)
  IN  /\ (P = {}) <=> ~NonEmpty(t)
      /\ P # {} => /\ t.xa = SetMax({p[1] : p \in P}) /\ t.xi = SetMin({p[1] : p \in P})
                   /\ t.ya = SetMax({p[2] : p \in P}) /\ t.yi = SetMin({p[2] : p \in P})
                   /\ t.sa = SetMax({p[1] + p[2] : p \in P}) /\ t.si = SetMin({p[1] + p[2] : p \in P})
                   /\ t.da = SetMax({p[1] - p[2] : p \in P}) /\ t.di = SetMin({p[1] - p[2] : p \in P})
\* negative control: the nominal bounds themselves are not tight
NominalIsTight == LET P == Points(b) IN P # {} => b.xa = SetMax({p[1] : p \in P})
=============================================================================
