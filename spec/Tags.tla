------------------------------- MODULE Tags -------------------------------
(***************************************************************************)
(* gr_str_to_tag / gr_tag_to_str / zeropad (src/gr_face.cpp) against their *)
(* documented buffer contracts (include/graphite2/Font.h).  Property C20.  *)
(*                                                                         *)
(* A tag is a sequence of 4 bytes (big-endian order); a C string is a      *)
(* sequence of non-zero bytes, its terminating NUL sits at index Len+1.    *)
(***************************************************************************)
EXTENDS Integers, Sequences, FiniteSets, TLC, Json, IOUtils, CSV

CONSTANTS MaxLen,     \* longest C string explored
          Fixed,      \* TRUE: model the repaired functions (F2)
          Emit

StrBytes == {1, 31, 32, 33, 65, 127, 128, 255}
TagBytes == {0, 1, 32, 65, 127, 128, 255}

RECURSIVE SeqsUpTo(_, _)
SeqsUpTo(S, k) == IF k = 0 THEN {<< >>}
                  ELSE LET P == SeqsUpTo(S, k - 1) IN P \cup {Append(s, x) : s \in {p \in P : Len(p) = k - 1}, x \in S}
Min(a, b) == IF a < b THEN a ELSE b
Max(a, b) == IF a > b THEN a ELSE b

(***************************************************************************)
(* CONTRACT                                                                *)
(***************************************************************************)
\* tag of the first min(4, length) characters, padded with zero bytes
StrToTagSpec(s) == [k \in 1..4 |-> IF k <= Len(s) THEN s[k] ELSE 0]
\* where each output byte comes from (index into the string, 0 = padding): lets the harness expand classes
StrToTagSrc(s)  == [k \in 1..4 |-> IF k <= Len(s) THEN k ELSE 0]
\* reads allowed: the string and its terminator
StrReadsAllowed(s) == 1..(Len(s) + 1)
\* gr_tag_to_str writes exactly the four tag bytes
TagWritesSpec == 1..4
\* zero padding of a tag: the maximal suffix of spaces becomes zeros
RECURSIVE ZeroPadSpec(_, _)
ZeroPadSpec(t, k) == IF k = 0 THEN t ELSE IF t[k] = 32 THEN ZeroPadSpec([t EXCEPT ![k] = 0], k - 1) ELSE t

(***************************************************************************)
(* IMPLEMENTATION-SHAPED                                                   *)
(***************************************************************************)
\* str[i] as the code sees it (char is signed; beyond the terminator = out of bounds, value unknown -> -1000)
CharAt(s, idx) == IF idx <= Len(s) THEN (IF s[idx] >= 128 THEN s[idx] - 256 ELSE s[idx])
                  ELSE IF idx = Len(s) + 1 THEN 0 ELSE -1000

\* res |= str[k] << sh on a 32-bit word kept as 4 bytes; a negative char sign-extends over the higher bytes
OrInto(t, pos, c) ==
  IF c >= 0 THEN [t EXCEPT ![pos] = c]         \* the target byte is still zero when it is written
  ELSE [k \in 1..4 |-> IF k < pos THEN 255 ELSE IF k = pos THEN c + 256 ELSE t[k]]

StrToTagImpl(s) ==
  LET n  == IF Fixed THEN Min(Len(s), 4) ELSE Max(Len(s), 4)
      t0 == <<0, 0, 0, 0>>
      c(k) == IF Fixed THEN (IF k <= Len(s) THEN s[k] ELSE 0) ELSE CharAt(s, k)      \* repaired code reads unsigned
      t4 == IF n = 4 THEN OrInto(t0, 4, c(4)) ELSE t0
      t3 == IF n \in {3, 4} THEN OrInto(t4, 3, c(3)) ELSE t4
      t2 == IF n \in {2, 3, 4} THEN OrInto(t3, 2, c(2)) ELSE t3
      t1 == IF n \in {1, 2, 3, 4} THEN OrInto(t2, 1, c(1)) ELSE t2
  IN  [tag |-> t1, rd |-> (IF n > 4 THEN {} ELSE 1..n) \cup 1..(Min(Len(s), IF Fixed THEN 4 ELSE Len(s)) + 1)]
      \* rd: bytes fetched by the switch plus those scanned by strlen (repaired: bounded scan of at most 4+1)

TagToStrImplWrites == IF Fixed THEN 1..4 ELSE 1..5

ZeroPadImpl(t) ==
  IF t = <<32, 32, 32, 32>> THEN <<0, 0, 0, 0>>
  ELSE IF SubSeq(t, 2, 4) = <<32, 32, 32>> THEN <<t[1], 0, 0, 0>>
  ELSE IF SubSeq(t, 3, 4) = <<32, 32>> THEN <<t[1], t[2], 0, 0>>
  ELSE IF t[4] = 32 THEN <<t[1], t[2], t[3], 0>>
  ELSE t

(***************************************************************************)
(* Enumeration machine: kind "str" (a C string) or "tag" (a 4-byte tag)    *)
(***************************************************************************)
VARIABLES kind, val, done
vars == <<kind, val, done>>

Init == /\ done = FALSE
        /\ \/ kind = "str" /\ val \in SeqsUpTo(StrBytes, MaxLen)
           \/ kind = "tag" /\ val \in {<<a, b, c, d>> : a \in TagBytes, b \in TagBytes, c \in TagBytes, d \in TagBytes}
Eval == ~done /\ done' = TRUE /\ UNCHANGED <<kind, val>>
Next == Eval \/ (done /\ UNCHANGED vars)
Spec == Init /\ [][Next]_vars

StrOk == kind = "str" =>
           /\ StrToTagImpl(val).tag = StrToTagSpec(val)
           /\ StrToTagImpl(val).rd \subseteq StrReadsAllowed(val)
TagOk == kind = "tag" =>
           /\ TagToStrImplWrites = TagWritesSpec
           /\ ZeroPadImpl(val) = ZeroPadSpec(val, 4)
           /\ ZeroPadSpec(ZeroPadSpec(val, 4), 4) = ZeroPadSpec(val, 4)                       \* idempotent
           /\ StrToTagSpec(SelectSeq(val, LAMBDA b : b # 0)) = val
                 \/ \E k \in 1..3 : val[k] = 0 /\ val[k+1] # 0                                \* inverse on tags without inner NUL
\* space padding and zero padding of the same prefix are equalised
PadEq == kind = "tag" =>
           \A k \in {j \in 0..4 : j = 0 \/ val[j] \notin {0, 32}} :      \* the unpadded prefix val[1..k]
                           LET sp == [j \in 1..4 |-> IF j > k THEN 32 ELSE val[j]]
                               zp == [j \in 1..4 |-> IF j > k THEN 0 ELSE val[j]]
                           IN  ZeroPadSpec(sp, 4) = ZeroPadSpec(zp, 4)

CaseRecord == IF kind = "str"
              THEN [kind |-> "str", val |-> val, tag |-> StrToTagSpec(val), src |-> StrToTagSrc(val)]
              ELSE [kind |-> "tag", val |-> val, zp |-> ZeroPadSpec(val, 4), writes |-> 4]
EmitDone == (Emit /\ done) => CSVWrite("%1$s", <<ToJson(CaseRecord)>>, IOEnv.OUT)
=============================================================================
