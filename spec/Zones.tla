-------------------------------- MODULE Zones --------------------------------
(***************************************************************************)
(* The cost-weighted set of free intervals searched by the collision fixer *)
(* (class Zones, src/Intervals.cpp / src/inc/Intervals.h).  Property C17,  *)
(* last clause: the set always remains sorted, disjoint, inside its        *)
(* bounds, and never offers a position that was excluded.                  *)
(*                                                                         *)
(* State: excl = Seq([x, xm, sm, smx, c, open]) on an integer grid, the    *)
(* bounds pos..posm, and the ghost `removed` = set of open unit cells      *)
(* (k, k+1) that some exclude() call covered.                              *)
(* Actions transcribe initialise, remove (= exclude) with its four overlap *)
(* cases, insert (= weighted) with its four overlap cases, and closest     *)
(* (find_exclusion_under, the two scans with the `open` early exit,        *)
(* test_position, cost).  Positions offered by closest are rationals       *)
(* [n, d]; costs are compared by cross-multiplication.                     *)
(***************************************************************************)
EXTENDS Integers, Sequences, FiniteSets, TLC, Json, IOUtils, CSV

CONSTANTS G,          \* grid 0..G
          MaxOps,
          DegInit,    \* TRUE: initialise is also called with ranges without extent (xmin >= xmax)
          MaxSpan,    \* longest range handed to exclude / weighted insert (simulation on large grids uses short ones)
          Weights,    \* set of [f, m, xi] for weighted inserts (XY form: sm = m + f, smx = m*xi, c = m*xi*xi)
          Emit

VARIABLES excl, pos, posm, removed, nops, hist, last
vars == <<excl, pos, posm, removed, nops, hist, last>>

Ex(x, xm, sm, smx, c, open) == [x |-> x, xm |-> xm, sm |-> sm, smx |-> smx, c |-> c, open |-> open]
Max(a, b) == IF a > b THEN a ELSE b
Min(a, b) == IF a < b THEN a ELSE b

\* Exclusion::outcode(p) = ((p - xm >= 0) << 1) | (x - p > 0)
Outcode(e, p) == (IF p >= e.xm THEN 2 ELSE 0) + (IF e.x > p THEN 1 ELSE 0)
AndBits(a, b) == (IF a >= 2 /\ b >= 2 THEN 2 ELSE 0) + (IF a % 2 = 1 /\ b % 2 = 1 THEN 1 ELSE 0)
XorBits(a, b) == (IF (a >= 2) # (b >= 2) THEN 2 ELSE 0) + (IF (a % 2) # (b % 2) THEN 1 ELSE 0)

InsertAt(q, i, e) == SubSeq(q, 1, i - 1) \o <<e>> \o SubSeq(q, i, Len(q))          \* vector::insert before index i
EraseAt(q, i) == SubSeq(q, 1, i - 1) \o SubSeq(q, i + 1, Len(q))
Plus(a, e) == [a EXCEPT !.c = a.c + e.c, !.sm = a.sm + e.sm, !.smx = a.smx + e.smx, !.open = FALSE]
\* i->split_at(p): returns the left part [x, p) and turns *i into [p, xm)
SplitLeft(a, p) == [a EXCEPT !.xm = p]
SplitRight(a, p) == [a EXCEPT !.x = p]

\* ---- Zones::remove(x, xm) as a loop over the index i --------------------------------------
RECURSIVE RemoveLoop(_, _, _, _)
RemoveLoop(q, i, x, xm) ==
  IF i > Len(q) THEN q
  ELSE LET e == q[i]
           oca == Outcode(e, x)
           ocb == Outcode(e, xm)
       IN  IF AndBits(oca, ocb) # 0 THEN RemoveLoop(q, i + 1, x, xm)
           ELSE LET k == XorBits(oca, ocb) IN
                CASE k = 0 ->      \* i completely covers e
                       IF e.x # x
                       THEN LET q2 == InsertAt([q EXCEPT ![i] = SplitRight(e, x)], i, SplitLeft(e, x)) IN
                            [q2 EXCEPT ![i + 1].x = xm]                     \* left_trim on the right part; return
                       ELSE [q EXCEPT ![i].x = xm]
                  [] k = 1 -> [q EXCEPT ![i].x = xm]                        \* i overlaps on the rhs of e; return
                  [] k = 2 ->      \* i overlaps on the lhs of e
                       IF e.x # x THEN RemoveLoop([q EXCEPT ![i].xm = x], i + 1, x, xm)
                       ELSE RemoveLoop(EraseAt(q, i), i, x, xm)             \* emptied: falls through to erase
                  [] k = 3 -> RemoveLoop(EraseAt(q, i), i, x, xm)           \* e completely covers i

Remove(q, x0, xm0) == LET x == Max(x0, pos) xm == Min(xm0, posm) IN IF x >= xm THEN q ELSE RemoveLoop(q, 1, x, xm)

\* ---- Zones::insert(e) -------------------------------------------------------------------------
RECURSIVE InsertLoop(_, _, _)
InsertLoop(q, i, e) ==
  IF i > Len(q) \/ ~(e.x < e.xm) THEN q
  ELSE LET a == q[i]
           oca == Outcode(e, a.x)
           ocb == Outcode(e, a.xm)
       IN  IF AndBits(oca, ocb) # 0 THEN InsertLoop(q, i + 1, e)
           ELSE LET k == XorBits(oca, ocb) IN
                CASE k = 0 ->      \* e completely covers i
                       InsertLoop([q EXCEPT ![i] = Plus(a, e)], i + 1, [e EXCEPT !.x = a.xm])
                  [] k = 1 ->      \* e overlaps on the rhs of i
                       IF a.xm = e.x THEN InsertLoop(q, i + 1, e)
                       ELSE IF a.x # e.x
                            THEN LET q2 == InsertAt([q EXCEPT ![i] = SplitRight(a, e.x)], i, SplitLeft(a, e.x)) IN
                                 InsertLoop([q2 EXCEPT ![i + 1] = Plus(q2[i + 1], e)], i + 2, [e EXCEPT !.x = a.xm])
                            ELSE InsertLoop([q EXCEPT ![i] = Plus(a, e)], i + 1, [e EXCEPT !.x = a.xm])
                  [] k = 2 ->      \* e overlaps on the lhs of i
                       IF e.xm = a.x THEN q
                       ELSE IF e.xm # a.xm
                            THEN LET q2 == InsertAt([q EXCEPT ![i] = SplitRight(a, e.xm)], i, SplitLeft(a, e.xm)) IN
                                 [q2 EXCEPT ![i] = Plus(q2[i], e)]
                            ELSE [q EXCEPT ![i] = Plus(a, e)]
                  [] k = 3 ->      \* i completely covers e
                       LET q1 == IF e.xm # a.xm THEN InsertAt([q EXCEPT ![i] = SplitRight(a, e.xm)], i, SplitLeft(a, e.xm)) ELSE q
                           b  == q1[i]
                           q2 == InsertAt([q1 EXCEPT ![i] = SplitRight(b, e.x)], i, SplitLeft(b, e.x))
                       IN  [q2 EXCEPT ![i + 1] = Plus(q2[i + 1], e)]

Insert(q, e0) == LET e == [e0 EXCEPT !.x = Max(e0.x, pos), !.xm = Min(e0.xm, posm)] IN IF e.x >= e.xm THEN q ELSE InsertLoop(q, 1, e)

\* ---- Zones::closest(origin) ---------------------------------------------------------------
\* test_position for sm >= 0 intervals: zerox = smx / sm + origin clamped to [x, xm]; as a rational [n, d]
TestPos(e, origin) ==
  IF e.sm <= 0 THEN [n |-> e.x, d |-> 1]           \* (negative weights are not used by the model's inserts)
  ELSE IF e.smx + origin * e.sm < e.x * e.sm THEN [n |-> e.x, d |-> 1]
  ELSE IF e.smx + origin * e.sm > e.xm * e.sm THEN [n |-> e.xm, d |-> 1]
  ELSE [n |-> e.smx + origin * e.sm, d |-> e.sm]
\* cost((p - origin)) = (sm*q - 2*smx)*q + c with q = (n - origin*d)/d, as a rational [n, d] with d = p.d^2
CostAt(e, p, origin) == LET qn == p.n - origin * p.d IN [n |-> e.sm * qn * qn - 2 * e.smx * qn * p.d + e.c * p.d * p.d, d |-> p.d * p.d]
Less(a, b) == a.n * b.d < b.n * a.d

RECURSIVE FindUnder(_, _, _, _)
FindUnder(q, x, l, h) ==      \* 0-based l, h; returns 0-based index
  IF l >= h THEN l
  ELSE LET p == (l + h) \div 2
           oc == Outcode(q[p + 1], x)
       IN  IF oc = 0 THEN p ELSE IF oc = 1 THEN FindUnder(q, x, l, p) ELSE FindUnder(q, x, p + 1, h)

\* scan state: [has, cost, posn]; returns the state after visiting index i in direction dir, stopping at an open interval that is worse
RECURSIVE Scan(_, _, _, _, _)
Scan(q, i, dir, origin, st) ==
  IF i < 1 \/ i > Len(q) THEN st
  ELSE LET e == q[i]
           p == TestPos(e, origin)
           lc == CostAt(e, p, origin)
       IN  IF e.open /\ st.has /\ Less(st.cost, lc) THEN st
           ELSE Scan(q, i + dir, dir, origin, IF ~st.has \/ Less(lc, st.cost) THEN [has |-> TRUE, cost |-> lc, posn |-> p] ELSE st)

Closest(q, origin) ==
  LET start == FindUnder(q, origin, 0, Len(q)) + 1
      s1 == Scan(q, start, 1, origin, [has |-> FALSE, cost |-> [n |-> 0, d |-> 1], posn |-> [n |-> 0, d |-> 1]])
  IN  Scan(q, start - 1, -1, origin, s1)

(***************************************************************************)
(* Behaviours                                                              *)
(***************************************************************************)
Init == /\ excl = << >> /\ pos = 0 /\ posm = 0 /\ removed = {} /\ nops = 0 /\ hist = << >> /\ last = [has |-> FALSE]

Initialise(a, b) ==
  /\ nops = 0
  /\ pos' = a /\ posm' = b
  \* weighted<XY>(xmin, xmax, f = 1, a0 = 0, ...), open; a range without extent has no free interval
  /\ excl' = IF a < b THEN <<Ex(a, b, 1, 0, 0, TRUE)>> ELSE << >>
  /\ removed' = {} /\ nops' = 1 /\ last' = [has |-> FALSE]
  /\ hist' = <<[op |-> "init", a |-> a, b |-> b, f |-> 0, m |-> 0, xi |-> 0]>>

DoRemove(a, b) ==
  /\ nops >= 1 /\ nops < MaxOps /\ a < b /\ b - a <= MaxSpan
  /\ excl' = Remove(excl, a, b)
  /\ removed' = removed \cup {k \in Max(a, pos)..(Min(b, posm) - 1) : TRUE}      \* unit cells (k, k+1)
  /\ nops' = nops + 1 /\ last' = [has |-> FALSE]
  /\ hist' = Append(hist, [op |-> "remove", a |-> a, b |-> b, f |-> 0, m |-> 0, xi |-> 0])
  /\ UNCHANGED <<pos, posm>>

DoInsert(a, b, w) ==
  /\ nops >= 1 /\ nops < MaxOps /\ a < b /\ b - a <= MaxSpan
  /\ excl' = Insert(excl, Ex(a, b, w.m + w.f, w.m * w.xi, w.m * w.xi * w.xi, FALSE))
  /\ nops' = nops + 1 /\ last' = [has |-> FALSE]
  /\ hist' = Append(hist, [op |-> "insert", a |-> a, b |-> b, f |-> w.f, m |-> w.m, xi |-> w.xi])
  /\ UNCHANGED <<pos, posm, removed>>

DoClosest(o) ==
  /\ nops >= 1 /\ nops < MaxOps
  /\ last' = Closest(excl, o)
  /\ nops' = nops + 1
  /\ hist' = Append(hist, [op |-> "closest", a |-> o, b |-> 0, f |-> 0, m |-> 0, xi |-> 0])
  /\ UNCHANGED <<excl, pos, posm, removed>>

Next == \/ \E a \in 0..G, b \in 0..G : (b > a \/ (DegInit /\ b >= a - 1)) /\ Initialise(a, b)
        \/ \E a \in -1..(G + 1), b \in -1..(G + 1) : DoRemove(a, b)
        \/ \E a \in -1..(G + 1), b \in -1..(G + 1), w \in Weights : DoInsert(a, b, w)
        \/ \E o \in -1..(G + 1) : DoClosest(o)
Spec == Init /\ [][Next]_vars

(***************************************************************************)
(* Properties                                                              *)
(***************************************************************************)
Sorted   == \A i \in 1..(Len(excl) - 1) : excl[i].xm <= excl[i + 1].x
NonEmpty == \A i \in 1..Len(excl) : excl[i].x < excl[i].xm
InBounds == \A i \in 1..Len(excl) : excl[i].x >= pos /\ excl[i].xm <= posm
\* no interval reaches into the interior of anything that was excluded
NoExcluded == \A i \in 1..Len(excl) : \A k \in removed : ~(excl[i].x < k + 1 /\ k < excl[i].xm)
\* closest offers a point of some interval (hence never an excluded one) or reports that there is none
OfferOk == last.has => \E i \in 1..Len(excl) : excl[i].x * last.posn.d <= last.posn.n /\ last.posn.n <= excl[i].xm * last.posn.d
\* (design-level, not required by the property) free space is never lost either
NoLoss == nops >= 1 => \A k \in pos..(posm - 1) : k \in removed \/ \E i \in 1..Len(excl) : excl[i].x <= k /\ k + 1 <= excl[i].xm

CaseRecord == [hist |-> hist, excl |-> excl, last |-> last]
EmitDone == (Emit /\ nops = MaxOps) => CSVWrite("%1$s", <<ToJson(CaseRecord)>>, IOEnv.OUT)
=============================================================================
