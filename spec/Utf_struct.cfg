SPECIFICATION SpecStructured
CONSTANTS
  MaxLen = 6
  Encs = {8, 16, 32}
  Fixed = TRUE
  Emit = TRUE
INVARIANTS ReadsInBounds ExactWhenWellFormed ErrorWhenIllFormed ErrorIsSound GetAgrees EmitDone
