------------------------------ MODULE CodeLoad ------------------------------
(***************************************************************************)
(* The bytecode loader's structural rules for rule ACTION code             *)
(* (Machine::Code::decoder::fetch_opcode / analyse_opcode / test_ref /     *)
(* test_context in src/Code.cpp), used as a generator of "wild" programs:  *)
(* every opcode sequence the loader accepts over the slot-manipulating     *)
(* opcodes - including the ones no compiler emits (re-attachment, deleting *)
(* a parent, put_copy of an attached slot, insert at either end, cursor    *)
(* retreat, associations to any referenced slot).  Properties C02-C05      *)
(* quantify over these programs; their run-time outcome is not predicted   *)
(* here, it is observed: the structural invariants of the returned         *)
(* segment, the iteration counter, the sanitizers.                         *)
(*                                                                         *)
(* State mirrors the decoder: _out_index, _out_length, _slotref,           *)
(* _stack_depth for a rule of `rlen` items with `pre` pre-context items in *)
(* a pass of kind `kind`.                                                  *)
(***************************************************************************)
EXTENDS Integers, Sequences, FiniteSets, TLC, Json, IOUtils, CSV

CONSTANTS NClasses, NUser, NGAttr, MaxCode, Emit

NEXT == 25  PUT_GLYPH8 == 28  PUT_SUBS8 == 29  PUT_COPY == 30  INSERT == 31  DELETE == 32  ASSOC == 33
ATTR_SET == 35  ATTR_ADD == 36  ATTR_SUB == 37  ATTR_SET_SLOT == 38  IATTR_SET_SLOT == 39
PUSH_SLOT_ATTR == 40  PUSH_GLYPH_ATTR_OBS == 41  PUSH_GLYPH_METRIC == 42  PUSH_ISLOT_ATTR == 46
POP_RET == 48  RET_ZERO == 49  RET_TRUE == 50  IATTR_SET == 51  PUSH_BYTE == 1  ADD == 6  NEG == 12

B(v) == IF v < 0 THEN v + 256 ELSE v        \* int8 as a byte

VARIABLES kind, pre, rlen, code, outIndex, outLength, slotref, depth, nops, phase
vars == <<kind, pre, rlen, code, outIndex, outLength, slotref, depth, nops, phase>>

Init == /\ phase = "shape" /\ kind = "sub" /\ pre = 0 /\ rlen = 1 /\ code = << >>
        /\ outIndex = 0 /\ outLength = 1 /\ slotref = 0 /\ depth = 0 /\ nops = 0

Shape(k, p, n) ==
  /\ phase = "shape" /\ n > p
  /\ kind' = k /\ pre' = p /\ rlen' = n
  /\ outIndex' = p /\ outLength' = n /\ slotref' = 0 /\ depth' = 0 /\ code' = << >> /\ nops' = 0
  /\ phase' = "code"

\* decoder::test_ref for action code; decoder::test_context
RefOk(ref) == rlen # 0 /\ slotref + pre + ref < rlen /\ slotref + pre + ref >= 0
CtxOk == outIndex < outLength /\ outIndex >= 0

Emit1(bytes) == code' = code \o bytes /\ nops' = nops + 1
Room == phase = "code" /\ nops < MaxCode
Same == UNCHANGED <<kind, pre, rlen, phase>>

ONext ==
  /\ Room
  /\ LET oi == outIndex + 1 IN
     /\ ~(oi < -1 \/ oi > outLength \/ slotref > rlen)
     /\ outIndex' = oi /\ slotref' = slotref + 1
  /\ Emit1(<<NEXT>>) /\ UNCHANGED <<outLength, depth>> /\ Same

OPutGlyph(c) == /\ Room /\ c < NClasses /\ CtxOk
                /\ Emit1(<<PUT_GLYPH8, c>>) /\ UNCHANGED <<outIndex, outLength, slotref, depth>> /\ Same
OPutSubs(ref, c1, c2) == /\ Room /\ RefOk(ref) /\ c1 < NClasses /\ c2 < NClasses /\ CtxOk
                         /\ Emit1(<<PUT_SUBS8, B(ref), c1, c2>>) /\ UNCHANGED <<outIndex, outLength, slotref, depth>> /\ Same
OPutCopy(ref) == /\ Room /\ RefOk(ref) /\ CtxOk
                 /\ Emit1(<<PUT_COPY, B(ref)>>) /\ UNCHANGED <<outIndex, outLength, slotref, depth>> /\ Same
OInsert ==
  /\ Room /\ kind = "sub"
  /\ LET ol == outLength + 1
         oi == IF outIndex < 0 THEN outIndex + 1 ELSE outIndex
     IN  /\ ~(oi < -1 \/ oi >= ol)
         /\ outLength' = ol /\ outIndex' = oi
         /\ slotref' = IF slotref >= 0 THEN slotref - 1 ELSE slotref
  /\ Emit1(<<INSERT>>) /\ UNCHANGED depth /\ Same
ODelete ==
  /\ Room /\ kind = "sub" /\ outIndex >= pre
  /\ LET oi == outIndex - 1 ol == outLength - 1 IN
     /\ ~(oi < -1 \/ oi > ol)
     /\ outIndex' = oi /\ outLength' = ol
  /\ Emit1(<<DELETE>>) /\ UNCHANGED <<slotref, depth>> /\ Same
OAssoc(refs) == /\ Room /\ refs # << >> /\ (\A i \in 1..Len(refs) : RefOk(refs[i])) /\ CtxOk
                /\ Emit1(<<ASSOC, Len(refs)>> \o [i \in 1..Len(refs) |-> B(refs[i])])
                /\ UNCHANGED <<outIndex, outLength, slotref, depth>> /\ Same
OPush(v) == /\ Room /\ depth < 3
            /\ Emit1(<<PUSH_BYTE, B(v)>>) /\ depth' = depth + 1 /\ UNCHANGED <<outIndex, outLength, slotref>> /\ Same
OPushSlotAttr(a, ref) == /\ Room /\ depth < 3 /\ RefOk(ref) /\ a # 55
                         /\ Emit1(<<PUSH_SLOT_ATTR, a, B(ref)>>) /\ depth' = depth + 1 /\ UNCHANGED <<outIndex, outLength, slotref>> /\ Same
OPushGAttr(a, ref) == /\ Room /\ depth < 3 /\ RefOk(ref) /\ a < NGAttr
                      /\ Emit1(<<PUSH_GLYPH_ATTR_OBS, a, B(ref)>>) /\ depth' = depth + 1 /\ UNCHANGED <<outIndex, outLength, slotref>> /\ Same
OPushMetric(m, ref) == /\ Room /\ depth < 3 /\ RefOk(ref) /\ m < 11
                       /\ Emit1(<<PUSH_GLYPH_METRIC, m, B(ref), 0>>) /\ depth' = depth + 1 /\ UNCHANGED <<outIndex, outLength, slotref>> /\ Same
OPushUser(ref, i) == /\ Room /\ depth < 3 /\ RefOk(ref) /\ i < NUser
                     /\ Emit1(<<PUSH_ISLOT_ATTR, 55, B(ref), i>>) /\ depth' = depth + 1 /\ UNCHANGED <<outIndex, outLength, slotref>> /\ Same
OArith(op) == /\ Room /\ (IF op = ADD THEN depth >= 2 ELSE depth >= 1)
              /\ Emit1(<<op>>) /\ depth' = (IF op = ADD THEN depth - 1 ELSE depth) /\ UNCHANGED <<outIndex, outLength, slotref>> /\ Same
OAttrSet(op, a) == /\ Room /\ depth >= 1 /\ a # 55 /\ CtxOk
                   /\ Emit1(<<op, a>>) /\ depth' = depth - 1 /\ UNCHANGED <<outIndex, outLength, slotref>> /\ Same
OUserSet(i) == /\ Room /\ depth >= 1 /\ i < NUser /\ CtxOk
               /\ Emit1(<<IATTR_SET, 55, i>>) /\ depth' = depth - 1 /\ UNCHANGED <<outIndex, outLength, slotref>> /\ Same
OAttachI(i) == /\ Room /\ depth >= 1 /\ CtxOk
               /\ Emit1(<<IATTR_SET_SLOT, 2, i>>) /\ depth' = depth - 1 /\ UNCHANGED <<outIndex, outLength, slotref>> /\ Same

\* the program must end in a return; POP_RET needs one stack item
Seal(r) ==
  /\ phase = "code"
  /\ \/ /\ r = "zero" /\ depth <= 1 /\ code' = code \o <<RET_ZERO>> /\ UNCHANGED depth
     \/ /\ r = "true" /\ depth = 0 /\ code' = code \o <<RET_TRUE>> /\ UNCHANGED depth
     \/ /\ r = "pop" /\ depth >= 1 /\ code' = code \o <<POP_RET>> /\ depth' = depth - 1
  /\ phase' = "done" /\ UNCHANGED <<kind, pre, rlen, outIndex, outLength, slotref, nops>>

Refs == {-2, -1, 0, 1, 2}
SlotAttrs == {0, 1, 3, 4, 8, 13, 14, 17, 18, 19, 20, 21, 16}      \* advx advy attx atty attwithx attlevel break insert shiftx shifty dir
Next == \/ \E k \in {"sub", "pos"}, p \in 0..1, n \in 1..3 : Shape(k, p, n)
        \/ ONext \/ OInsert \/ ODelete
        \/ \E c \in {0, NClasses - 1} : OPutGlyph(c)
        \/ \E ref \in {-1, 0, 1}, c1 \in {0, NClasses - 1}, c2 \in {0, NClasses - 1} : OPutSubs(ref, c1, c2)
        \/ \E ref \in Refs : OPutCopy(ref)
        \/ \E refs \in {<<a>> : a \in {-1, 0, 1}} \cup {<<a, b>> : a \in {-1, 0}, b \in {0, 1}} : OAssoc(refs)
        \/ \E v \in {0, 1, -1, -2, 2, 5, 100, -100} : OPush(v)
        \/ \E a \in SlotAttrs, ref \in {-1, 0, 1} : OPushSlotAttr(a, ref)
        \/ \E a \in {0, NGAttr - 1}, ref \in {-1, 0} : OPushGAttr(a, ref)
        \/ \E m \in {0, 4, 8}, ref \in {-1, 0} : OPushMetric(m, ref)
        \/ \E ref \in {-1, 0}, i \in {0, NUser - 1} : OPushUser(ref, i)
        \/ \E op \in {ADD, NEG} : OArith(op)
        \/ \E op \in {ATTR_SET, ATTR_ADD, ATTR_SUB}, a \in SlotAttrs : OAttrSet(op, a)
        \/ OAttrSet(ATTR_SET_SLOT, 2)
        \/ \E i \in {0, NUser - 1} : OUserSet(i)
        \/ \E i \in {0, 1} : OAttachI(i)
        \/ \E r \in {"zero", "true", "pop"} : Seal(r)
Spec == Init /\ [][Next]_vars

\* the decoder's bookkeeping stays inside what its own tests allow (sanity of the transcription)
Book == phase = "code" => /\ outIndex >= -1 /\ outIndex <= outLength
                           /\ depth >= 0 /\ depth <= 3
CaseRecord == [kind |-> kind, pre |-> pre, rlen |-> rlen, code |-> code]
EmitDone == (Emit /\ phase = "done") => CSVWrite("%1$s", <<ToJson(CaseRecord)>>, IOEnv.OUT)
=============================================================================
