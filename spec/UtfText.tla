----------------------------- MODULE UtfText -----------------------------
(***************************************************************************)
(* Text ingestion of gr_make_seg (process_utf_data in src/Segment.cpp).    *)
(*                                                                         *)
(* A text is a sequence of ITEMS: a Unicode scalar value (encoded three    *)
(* ways by the declarative encoder) or a named ill-formed blob of the      *)
(* encoding.  The CONTRACT (include/graphite2/Segment.h, doc/calling.adoc) *)
(* says: characters are consumed up to the first NUL code unit or until    *)
(* nChars characters, whichever comes first; one char-info per character;  *)
(* ill-formed sequences become U+FFFD and do not derail what follows.      *)
(*                                                                         *)
(* The implementation-shaped loop (the Step action) is run on the encoded buffer   *)
(* and checked against the contract:                                       *)
(*   C12  reads never pass the terminating NUL; n char-infos = min(nChars, *)
(*        characters before the NUL)                                       *)
(*   C05  char-info usv = decoded scalar (U+FFFD for ill-formed), bases    *)
(*        strictly increasing code-unit offsets of the characters          *)
(*   C11  the same scalar sequence yields the same characters in all three *)
(*        encodings; after an ill-formed blob decoding resynchronises      *)
(***************************************************************************)
EXTENDS UtfTextOps

CONSTANTS MaxItems,      \* longest text (in items)
          NulStop,       \* TRUE: model the repaired loop that stops at NUL (F1)
          Emit

VARIABLES enc, items, nChars, buf, pc, i, out, reads, left
vars == <<enc, items, nChars, buf, pc, i, out, reads, left>>

NCharsChoices(nit) == {0, nit - 1, nit, nit + 1, nit + 3, 4 * nit + 4} \cap (0..1000)

\* exclude texts in which an ill-formed blob and its successor would together form a well-formed character
Clean(e, its) ==
  \A k \in 1..(Len(its) - 1) :
     LET nxt == UnitsOf(e, its[k+1])[1] IN
       /\ (e = 8  /\ its[k] = -2) => ~Cont(nxt)
       /\ (e = 16 /\ its[k] \in {-1, -3, -4}) => ~InR(nxt, 56320, 57343)

Init ==
  /\ enc \in {8, 16, 32}
  /\ items \in {s \in SeqsUpTo(ItemAlpha, MaxItems) : Clean(enc, s)}
  /\ nChars \in NCharsChoices(Len(items))
  /\ buf = Append(EncodeText(enc, items), 0)          \* NUL-terminated, allocated exactly to the terminator
  /\ pc = "loop" /\ i = 1 /\ out = << >> /\ reads = {} /\ left = nChars

\* one iteration of:  for (; n_chars; --n_chars, ++c, ++slotid) { usv = *c; [if (usv == 0) break;] appendSlot(...) }
Step ==
  /\ pc = "loop"
  /\ IF left = 0 THEN pc' = "done" /\ UNCHANGED <<i, out, reads, left>>
     ELSE IF i > Len(buf)                         \* running off the allocation: record the read and stop exploring
          THEN pc' = "done" /\ reads' = reads \cup {i} /\ UNCHANGED <<i, out, left>>
     ELSE LET g == Get(enc, buf, i) IN
          /\ reads' = reads \cup {i + k : k \in g.rd}
          /\ IF NulStop /\ g.usv = 0
             THEN pc' = "done" /\ UNCHANGED <<i, out, left>>
             ELSE /\ out' = Append(out, [usv |-> g.usv, base |-> i - 1])
                  /\ i' = i + Abs(g.l) /\ left' = left - 1 /\ pc' = "loop"
  /\ UNCHANGED <<enc, items, nChars, buf>>

Done == pc = "done" /\ UNCHANGED vars
Next == Step \/ Done
Spec == Init /\ [][Next]_vars /\ WF_vars(Step)

(***************************************************************************)
(* Contract                                                                *)
(***************************************************************************)
Exp == Expect(enc, items, 1, 0)

\* C12: never reads a code unit beyond the terminating NUL
NoReadPastNul == \A r \in reads : r >= 1 /\ r <= Len(buf)

\* C12 + C05: what was produced is what the contract says
ContractHolds == pc = "done" => Explains(Exp, 1, out, 1, nChars)

\* well-formed texts: exactly min(nChars, #items) char-infos
CountExact == (pc = "done" /\ \A k \in 1..Len(items) : items[k] >= 0)
                 => Len(out) = (IF nChars < Len(items) THEN nChars ELSE Len(items))

\* bases strictly increasing
BasesIncrease == \A j \in 1..(Len(out) - 1) : out[j].base < out[j+1].base

\* Encode and Decode are inverse on scalars (sanity of the declarative layer)
RoundTrip == \A s \in Scalars : \A e \in {8, 16, 32} :
                LET u == EncodeOne(e, s) IN WFLen(e, u, 1) = Len(u) /\ WFVal(e, u, 1) = s

Terminates == <>(pc = "done")

CaseRecord ==
  [enc |-> enc, items |-> items, nChars |-> nChars, buf |-> buf,
   exp |-> Exp, mout |-> out,
   u8 |-> EncodeText(8, items), u16 |-> EncodeText(16, items), u32 |-> EncodeText(32, items)]
EmitDone == (Emit /\ pc = "done") => CSVWrite("%1$s", <<ToJson(CaseRecord)>>, IOEnv.OUT)
=============================================================================
