SPECIFICATION Spec
CONSTANTS
  FixedCache = TRUE
  Emit = TRUE
INVARIANTS DirectOk CachedOk FillTerminates EmitDone
