SPECIFICATION Spec
CONSTANTS
  R = 3
  Mutant = FALSE
INVARIANTS Sound Tight SoundM
