SPECIFICATION Spec
CONSTANTS
  MaxLen = 5
  Fixed = TRUE
  Emit = TRUE
INVARIANTS StrOk TagOk PadEq EmitDone
