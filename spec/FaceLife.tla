------------------------------ MODULE FaceLife ------------------------------
(***************************************************************************)
(* The resource protocol between a client and graphite2 over one face:     *)
(* table borrowing through gr_face_ops (get_table / release_table), face   *)
(* options, ownership of fonts / segments / feature values / labels.       *)
(* Properties C16 (borrow discipline, nothing held at the end), and the    *)
(* history alphabet used by C08 / C10.                                     *)
(*                                                                         *)
(* Code it follows: load_face (src/gr_face.cpp), Face::Table (ctor,        *)
(* operator=, decompress, dtor: src/Face.cpp), GlyphCache::Loader (seven   *)
(* tables kept until the loader is deleted: after preloading, or with the  *)
(* cache), CachedCmap (drops the cmap table at the end of its ctor) vs     *)
(* DirectCmap (keeps it for the life of the face), Face::nameTable (copies *)
(* the table on first use; preloaded with gr_face_preloadGlyphs).          *)
(*                                                                         *)
(* A behaviour is a client history; each client step abstracts the table   *)
(* traffic the library performs inside that call into its net effect on    *)
(* `held` (the tags of the buffers still borrowed when the call returns)   *)
(* and into `calls` (may get_table be invoked during this call at all).    *)
(***************************************************************************)
EXTENDS Integers, Sequences, FiniteSets, TLC, Json, IOUtils, CSV

CONSTANTS Kinds,        \* font kinds explored: subset of FontKinds below
          OptSet,       \* face option values explored: subset of 0..7
          Srcs,         \* table sources: subset of {"ops", "file", "opsnr", "opsc"} (opsnr: callbacks without release_table;
                        \* opsc: the deprecated gr_make_face_with_seg_cache_and_ops, same callbacks as "ops")
          Texts,        \* indices of the texts a history may shape
          ClientOps,    \* names of the client operations a history may contain
          MaxOps,       \* client operations per history (after MakeFace)
          NameMemo,     \* TRUE: the library remembers that it already looked for the name table (repair of F6)
          Emit

FontKinds == {"good", "noname", "badlabel", "badglyph", "compressed", "awami", "badsilf", "nocmap", "nogloc", "badlz4", "badlz4s", "hiddenfeat", "name1", "badfeat", "badfeat2", "badsill", "underflow", "emptyname", "emptyglyf", "fmt12", "charisfast"}
PreloadGlyphs(o) == (o \div 2) % 2 = 1
CacheCmap(o)     == (o \div 4) % 2 = 1
PreloadAll(o)    == PreloadGlyphs(o) /\ CacheCmap(o)
\* a font with one unloadable glyph is refused only when all glyphs are loaded up front
Loads(k, o) == k \in {"good", "noname", "badlabel", "compressed", "awami", "hiddenfeat", "name1", "underflow", "emptyname", "fmt12", "charisfast"} \/ (k = "badglyph" /\ ~PreloadGlyphs(o))
\* "name1": the name table is of format 1, which the library does not read (TtfUtil::CheckTable): fetched, given back,
\* and from then on as good as absent - on every kind of face (staged as a file by the harness)
\* "underflow": tests/fonts/underflow.ttf - loads, but some texts make a rule program fail at run time: gr_make_seg
\* returns NULL for them (a result like any other: same every time, nothing left allocated)
OnDisk(k) == k \in {"good", "compressed", "awami", "name1", "underflow", "fmt12", "charisfast"}
HasName(k) == k # "noname"

\* tables the glyph loader keeps borrowed while it is alive (a compressed Glat is replaced by library memory)
LoaderTabs(k) == {"head", "hhea", "hmtx", "glyf", "loca", "Gloc"} \cup (IF k \in {"compressed", "awami"} THEN {} ELSE {"Glat"})

VARIABLES phase,      \* "none" | "live" | "dead"
          opts, kind, src,
          held,       \* tags of the table buffers the library still borrows
          nameDone,   \* the library will not ask for the name table again
          nfonts, nsegs, nfvals,   \* client-owned objects alive
          afterMake,  \* get_table invocations made after gr_make_face returned (ghost)
          hist        \* client history so far (for replay)
vars == <<phase, opts, kind, src, held, nameDone, nfonts, nsegs, nfvals, afterMake, hist>>

Init == /\ phase = "none" /\ opts = 0 /\ kind = "good" /\ src = "ops" /\ held = {} /\ nameDone = FALSE
        /\ nfonts = 0 /\ nsegs = 0 /\ nfvals = 0 /\ afterMake = 0 /\ hist = << >>

Op(name, arg) == [op |-> name, arg |-> arg]
Budget == Len(hist) < MaxOps + 1

MakeFace(o, k, sr) ==
  /\ phase = "none" /\ hist = << >> /\ (sr = "file" => OnDisk(k))
  /\ opts' = o /\ kind' = k /\ src' = sr
  /\ IF Loads(k, o)
     THEN /\ phase' = "live"
          /\ held' = (IF PreloadGlyphs(o) THEN {} ELSE LoaderTabs(k)) \cup (IF CacheCmap(o) THEN {} ELSE {"cmap"})
          /\ nameDone' = (PreloadGlyphs(o) /\ (HasName(k) \/ NameMemo))
     ELSE /\ phase' = "dead" /\ held' = {} /\ nameDone' = FALSE           \* failed: everything released before returning
  /\ hist' = <<Op("make_face", o + (IF sr = "file" THEN 8 ELSE IF sr = "opsnr" THEN 16 ELSE IF sr = "opsc" THEN 24 ELSE 0))>>
  /\ UNCHANGED <<nfonts, nsegs, nfvals, afterMake>>

\* gr_fref_label / gr_fref_value_label: Face::nameTable() fetches, copies and releases the name table on first use
LabelQuery ==
  /\ "label" \in ClientOps /\ phase = "live" /\ Budget
  /\ afterMake' = IF nameDone THEN afterMake ELSE afterMake + 1
  /\ nameDone' = (nameDone \/ HasName(kind) \/ NameMemo)
  /\ hist' = Append(hist, Op("label", 0))
  /\ UNCHANGED <<phase, opts, kind, src, held, nfonts, nsegs, nfvals>>

MakeFont(p) == /\ "make_font" \in ClientOps /\ phase = "live" /\ Budget /\ nfonts < 2 /\ nfonts' = nfonts + 1 /\ hist' = Append(hist, Op("make_font", p))
               /\ UNCHANGED <<phase, opts, kind, src, held, nameDone, nsegs, nfvals, afterMake>>
DestroyFont == /\ "destroy_font" \in ClientOps /\ phase = "live" /\ Budget /\ nfonts > 0 /\ nsegs = 0 /\ nfonts' = nfonts - 1 /\ hist' = Append(hist, Op("destroy_font", 0))
               /\ UNCHANGED <<phase, opts, kind, src, held, nameDone, nsegs, nfvals, afterMake>>
MakeSeg(t) ==  /\ "make_seg" \in ClientOps /\ phase = "live" /\ Budget /\ nsegs < 2 /\ nsegs' = nsegs + 1 /\ hist' = Append(hist, Op("make_seg", t))
               /\ UNCHANGED <<phase, opts, kind, src, held, nameDone, nfonts, nfvals, afterMake>>
QuerySeg ==    /\ "query_seg" \in ClientOps /\ phase = "live" /\ Budget /\ nsegs > 0 /\ hist' = Append(hist, Op("query_seg", 0))
               /\ UNCHANGED <<phase, opts, kind, src, held, nameDone, nfonts, nsegs, nfvals, afterMake>>
JustifySeg ==  /\ "justify" \in ClientOps /\ phase = "live" /\ Budget /\ nsegs > 0 /\ hist' = Append(hist, Op("justify", 0))
               /\ UNCHANGED <<phase, opts, kind, src, held, nameDone, nfonts, nsegs, nfvals, afterMake>>
DestroySeg ==  /\ "destroy_seg" \in ClientOps /\ phase = "live" /\ Budget /\ nsegs > 0 /\ nsegs' = nsegs - 1 /\ hist' = Append(hist, Op("destroy_seg", 0))
               /\ UNCHANGED <<phase, opts, kind, src, held, nameDone, nfonts, nfvals, afterMake>>
\* gr_face_featureval_for_lang(face, 0) (l = 0) or for the first language the font lists (l = 1): a fresh client-owned copy
FeatVal(l) ==  /\ "featval" \in ClientOps /\ phase = "live" /\ Budget /\ nfvals < 2 /\ nfvals' = nfvals + 1 /\ hist' = Append(hist, Op("featval", l))
               /\ UNCHANGED <<phase, opts, kind, src, held, nameDone, nfonts, nsegs, afterMake>>
\* the client changes a value in the newest of its feature-value objects in place (gr_fref_set_feature_value)
EditFval ==    /\ "edit_fval" \in ClientOps /\ phase = "live" /\ Budget /\ nfvals > 0 /\ hist' = Append(hist, Op("edit_fval", 0))
               /\ UNCHANGED <<phase, opts, kind, src, held, nameDone, nfonts, nsegs, nfvals, afterMake>>
DestroyFval == /\ "destroy_fval" \in ClientOps /\ phase = "live" /\ Budget /\ nfvals > 0 /\ nfvals' = nfvals - 1 /\ hist' = Append(hist, Op("destroy_fval", 0))
               /\ UNCHANGED <<phase, opts, kind, src, held, nameDone, nfonts, nsegs, afterMake>>
\* make a segment, look at it, destroy it: one client step (lets short histories contain many shaping calls)
ShapeOnce(t) == /\ "shape" \in ClientOps /\ phase = "live" /\ Budget /\ hist' = Append(hist, Op("shape", t))
                /\ UNCHANGED <<phase, opts, kind, src, held, nameDone, nfonts, nsegs, nfvals, afterMake>>
FaceQuery ==   /\ "face_query" \in ClientOps /\ phase = "live" /\ Budget /\ hist' = Append(hist, Op("face_query", 0))
               /\ UNCHANGED <<phase, opts, kind, src, held, nameDone, nfonts, nsegs, nfvals, afterMake>>

\* gr_face_destroy: only after the objects that use the face are gone (ownership); releases everything still borrowed
DestroyFace ==
  /\ phase = "live" /\ nsegs = 0 /\ nfonts = 0 /\ nfvals = 0
  /\ phase' = "dead" /\ held' = {}
  /\ hist' = Append(hist, Op("destroy_face", 0))
  /\ UNCHANGED <<opts, kind, src, nameDone, nfonts, nsegs, nfvals, afterMake>>

Next == \/ \E o \in OptSet, k \in Kinds, sr \in Srcs : MakeFace(o, k, sr)
        \/ LabelQuery \/ FaceQuery \/ DestroyFval \/ EditFval
        \/ \E l \in {0, 1} : FeatVal(l)
        \/ \E p \in {0, 12} : MakeFont(p)
        \/ DestroyFont
        \/ \E t \in Texts : MakeSeg(t) \/ ShapeOnce(t)
        \/ QuerySeg \/ JustifySeg \/ DestroySeg \/ DestroyFace
Spec == Init /\ [][Next]_vars

(***************************************************************************)
(* Properties                                                              *)
(***************************************************************************)
\* with gr_face_preloadAll no get_table call is made after gr_make_face returns
NoCallbackWhenPreloaded == (phase = "live" /\ PreloadAll(opts)) => afterMake = 0
\* a failed or destroyed face borrows nothing
NothingHeldWhenGone == phase # "live" => held = {}
\* what is borrowed depends only on the options and the font, never on the history
HeldIsStable == phase = "live" => held = (IF PreloadGlyphs(opts) THEN {} ELSE LoaderTabs(kind)) \cup (IF CacheCmap(opts) THEN {} ELSE {"cmap"})
TypeOK == phase \in {"none", "live", "dead"} /\ nfonts \in 0..2 /\ nsegs \in 0..2 /\ nfvals \in 0..2

\* complete histories (face destroyed or never made) are replayed into the library
Complete == phase = "dead"
CaseRecord == [kind |-> kind, opts |-> opts, src |-> src, hist |-> hist]
EmitDone == (Emit /\ Complete) => CSVWrite("%1$s", <<ToJson(CaseRecord)>>, IOEnv.OUT)
=============================================================================
