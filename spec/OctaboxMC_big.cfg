SPECIFICATION Spec
CONSTANTS
  R = 4
INVARIANT TightenExact
