SPECIFICATION Spec
CONSTANTS
  Thr <- T3
  Glyphs <- G
  TextsOf <- Texts3
  PreloadGlyphs = TRUE
  Hinted = FALSE
INVARIANTS NoRace NoCallback NoSharedWrite
