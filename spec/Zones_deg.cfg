SPECIFICATION Spec
CONSTANTS
  G = 2
  DegInit = TRUE
  MaxSpan = 99
  MaxOps = 3
  Weights <- W1
  Emit = TRUE
INVARIANTS Sorted NonEmpty InBounds NoExcluded OfferOk NoLoss EmitDone
