SPECIFICATION Spec
CONSTANTS
  N0 = 2
  Budget0 = 1
  MaxLoop = 2
  MaxOps = 2
  Deltas <- D3
  LoopLimit = FALSE
INVARIANTS IterBound Growth CursorOK
PROPERTY Terminates
