SPECIFICATION Spec
CONSTANTS
  R = 5
  Mutant = FALSE
INVARIANTS Sound Tight SoundM
