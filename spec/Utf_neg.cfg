SPECIFICATION Spec
CONSTANTS
  MaxLen = 3
  Encs = {8, 16, 32}
  Fixed = FALSE
  Emit = FALSE
INVARIANTS ReadsInBounds ExactWhenWellFormed ErrorWhenIllFormed ErrorIsSound GetAgrees EmitDone
