SPECIFICATION Spec
CONSTANTS
  MaxLen = 7
  KeepLast = TRUE
  Emit = TRUE
INVARIANTS Correct EmitDone
