SPECIFICATION Spec
CONSTANTS
  Shapes <- MCShapes
  DYs <- MCDYs
  Advs <- MCAdvs
  FlagSets <- MCFlags
  Limits <- MCLimits
  Margins <- MCMargins
  Weights <- MCWeights
  SubSets <- MCSubs
  CollRuns = {1, 2, 3, 5}
  Kerns = {0, 1, 2}
  Thresholds = {0, 10}
  MinG = 2
  MaxG = 6
  MaxT = 8
  Emit = TRUE
INVARIANTS TypeOK EmitDone
