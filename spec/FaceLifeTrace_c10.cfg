SPECIFICATION TSpec
CONSTANTS
  KeyByOpts = FALSE
  Kinds = {"good", "noname", "badlabel", "badglyph", "compressed", "awami", "badsilf", "nocmap", "nogloc", "name1", "badfeat", "badfeat2", "badsill", "underflow", "emptyname", "emptyglyf", "fmt12", "charisfast"}
  OptSet = {0, 1, 2, 3, 4, 5, 6, 7}
  Srcs = {"ops", "file", "opsnr", "opsc"}
  Texts = {0, 1, 2, 3, 4, 5, 6, 7}
  ClientOps = {"label", "face_query", "featval", "edit_fval", "destroy_fval", "make_font", "destroy_font", "make_seg", "shape", "query_seg", "justify", "destroy_seg"}
  MaxOps = 1000
  NameMemo = TRUE
  Emit = FALSE
INVARIANTS NoCallbackTrace NothingHeldWhenGone TypeOK
POSTCONDITION Accepted
