------------------------------ MODULE Machine ------------------------------
(***************************************************************************)
(* The graphite2 stack machine on the arithmetic / comparison / logical /  *)
(* conditional / truncation / bit opcodes (0x00-0x18, 0x30-0x32,           *)
(* 0x3E-0x41), as specified by doc/OpCodes.adoc on 32-bit two's-complement *)
(* integers, together with the bytecode loader's static stack-depth rule   *)
(* (Machine::Code::decoder::fetch_opcode in src/Code.cpp).   Property C07. *)
(*                                                                         *)
(* A behaviour first BUILDS a program instruction by instruction (so that  *)
(* TLC's BFS enumerates every loadable program up to MaxLen and simulation *)
(* samples long ones), then RUNS it one opcode per step.                   *)
(*                                                                         *)
(* 32-bit words are TLC integers in [-2^31, 2^31-1] (TLC integers are Java *)
(* ints and overflow is an error), so wrapping arithmetic is done on       *)
(* 16-bit halves / 8-bit limbs.                                            *)
(***************************************************************************)
EXTENDS Integers, Sequences, FiniteSets, TLC, Json, IOUtils, CSV, Bitwise

CONSTANTS Vals,       \* operand corner values (TLC ints)
          Masks,      \* <<mask16, value16>> pairs for BITSET
          MaxLen,     \* instructions before the final return
          AllForms,   \* TRUE: every push encoding able to carry a value; FALSE: shortest only
          BadLoads,   \* TRUE: also generate programs the loader must reject (one bad instruction)
          Emit

INTMIN == -2147483647 - 1
INTMAX == 2147483647

(***************************************************************************)
(* Word arithmetic                                                         *)
(***************************************************************************)
Hi(x) == (x \div 65536) % 65536
Lo(x) == x % 65536
FromHL(h, l) == IF h >= 32768 THEN (h - 65536) * 65536 + l ELSE h * 65536 + l

WAdd(a, b) == LET l == Lo(a) + Lo(b)
                  h == Hi(a) + Hi(b) + (l \div 65536)
              IN  FromHL(h % 65536, l % 65536)
WNot(a)    == FromHL(65535 - Hi(a), 65535 - Lo(a))
WNeg(a)    == WAdd(WNot(a), 1)
WSub(a, b) == WAdd(a, WNeg(b))

B0(x) == x % 256
B1(x) == (x \div 256) % 256
\* full 32-bit product of two 16-bit numbers as [h, l]
Mul16(a, b) == LET t == (B1(a) * B0(b) + B0(a) * B1(b)) * 256 + B0(a) * B0(b)
               IN  [h |-> (B1(a) * B1(b) + (t \div 65536)) % 65536, l |-> t % 65536]
\* (a * b) mod 2^16 for 16-bit a, b
MulMod16(a, b) == (B0(a) * b + (B1(a) * B0(b)) * 256) % 65536
WMul(x, y) == LET p == Mul16(Lo(x), Lo(y))
                  c == (MulMod16(Hi(x), Lo(y)) + MulMod16(Lo(x), Hi(y))) % 65536
              IN  FromHL((p.h + c) % 65536, p.l)

WBand(a, b) == FromHL(Hi(a) & Hi(b), Lo(a) & Lo(b))
WBor(a, b)  == FromHL(Hi(a) | Hi(b), Lo(a) | Lo(b))

\* truncating signed division; precondition: b # 0 /\ ~(a = INTMIN /\ b = -1)
TruncDivPos(a, b) ==      \* b > 0
  IF a >= 0 THEN a \div b
  ELSE LET f == a \div b IN IF a % b = 0 THEN f ELSE f + 1
WDiv(a, b) ==
  IF b > 0 THEN TruncDivPos(a, b)
  ELSE IF b = INTMIN THEN (IF a = INTMIN THEN 1 ELSE 0)
  ELSE -TruncDivPos(a, -b)

Bool(c) == IF c THEN 1 ELSE 0

(***************************************************************************)
(* Opcodes (numbering of src/inc/Machine.h) and their specification        *)
(***************************************************************************)
NOP == 0  PUSH_BYTE == 1  PUSH_BYTEU == 2  PUSH_SHORT == 3  PUSH_SHORTU == 4  PUSH_LONG == 5
ADD == 6  SUB == 7  MUL == 8  DIV == 9  MIN == 10  MAX == 11  NEG == 12  TRUNC8 == 13  TRUNC16 == 14
COND == 15  AND == 16  OR == 17  NOT == 18  EQUAL == 19  NOT_EQ == 20  LESS == 21  GTR == 22
LESS_EQ == 23  GTR_EQ == 24  POP_RET == 48  RET_ZERO == 49  RET_TRUE == 50
BITOR == 62  BITAND == 63  BITNOT == 64  BITSET == 65

Pushes   == {PUSH_BYTE, PUSH_BYTEU, PUSH_SHORT, PUSH_SHORTU, PUSH_LONG}
Unary    == {NEG, TRUNC8, TRUNC16, NOT, BITNOT}
Binary   == {ADD, SUB, MUL, DIV, MIN, MAX, AND, OR, EQUAL, NOT_EQ, LESS, GTR, LESS_EQ, GTR_EQ, BITOR, BITAND}
Returns  == {POP_RET, RET_ZERO, RET_TRUE}

\* value pushed by a push opcode from its parameter bytes
PushVal(op, a) ==
  CASE op = PUSH_BYTE   -> IF a[1] >= 128 THEN a[1] - 256 ELSE a[1]
    [] op = PUSH_BYTEU  -> a[1]
    [] op = PUSH_SHORT  -> LET v == a[1] * 256 + a[2] IN IF v >= 32768 THEN v - 65536 ELSE v
    [] op = PUSH_SHORTU -> a[1] * 256 + a[2]
    [] op = PUSH_LONG   -> FromHL(a[1] * 256 + a[2], a[3] * 256 + a[4])

\* every encoding that can carry v
PushForms(v) ==
  LET u16 == v % 65536 IN
    (IF v >= -128 /\ v <= 127 THEN {[op |-> PUSH_BYTE, args |-> <<v % 256>>]} ELSE {})
    \cup (IF v >= 0 /\ v <= 255 THEN {[op |-> PUSH_BYTEU, args |-> <<v>>]} ELSE {})
    \cup (IF v >= -32768 /\ v <= 32767 THEN {[op |-> PUSH_SHORT, args |-> <<u16 \div 256, u16 % 256>>]} ELSE {})
    \cup (IF v >= 0 /\ v <= 65535 THEN {[op |-> PUSH_SHORTU, args |-> <<v \div 256, v % 256>>]} ELSE {})
    \cup {[op |-> PUSH_LONG, args |-> <<Hi(v) \div 256, Hi(v) % 256, Lo(v) \div 256, Lo(v) % 256>>]}
ShortestForm(v) ==
  IF v >= -128 /\ v <= 127 THEN [op |-> PUSH_BYTE, args |-> <<v % 256>>]
  ELSE IF v >= -32768 /\ v <= 32767 THEN [op |-> PUSH_SHORT, args |-> <<(v % 65536) \div 256, (v % 65536) % 256>>]
  ELSE [op |-> PUSH_LONG, args |-> <<Hi(v) \div 256, Hi(v) % 256, Lo(v) \div 256, Lo(v) % 256>>]

\* b is the top of stack (popped first), a the item below it.
BinSpec(op, a, b) ==
  CASE op = ADD -> WAdd(a, b)   [] op = SUB -> WSub(a, b)   [] op = MUL -> WMul(a, b)
    [] op = DIV -> WDiv(a, b)
    [] op = MIN -> IF b < a THEN b ELSE a
    [] op = MAX -> IF b > a THEN b ELSE a
    [] op = AND -> Bool(a # 0 /\ b # 0)   [] op = OR -> Bool(a # 0 \/ b # 0)
    [] op = EQUAL -> Bool(a = b)          [] op = NOT_EQ -> Bool(a # b)
    [] op = LESS -> Bool(a < b)           [] op = GTR -> Bool(a > b)
    [] op = LESS_EQ -> Bool(a <= b)       [] op = GTR_EQ -> Bool(a >= b)
    [] op = BITOR -> WBor(a, b)           [] op = BITAND -> WBand(a, b)
UnSpec(op, a) ==
  CASE op = NEG -> WNeg(a)
    [] op = TRUNC8 -> Lo(a) % 256
    [] op = TRUNC16 -> Lo(a)
    [] op = NOT -> Bool(a = 0)
    [] op = BITNOT -> WNot(a)
DivFails(a, b) == b = 0 \/ (a = INTMIN /\ b = -1)

(***************************************************************************)
(* Loader: static stack-depth rule of fetch_opcode (depth BEFORE the op).  *)
(***************************************************************************)
LoadOk(op, depth) ==
  CASE op \in Pushes -> TRUE
    [] op \in Binary -> depth - 1 > 0            \* if (--_stack_depth <= 0) failure
    [] op \in Unary \cup {BITSET} -> depth > 0
    [] op = COND -> depth - 2 > 0
    [] op = POP_RET -> depth - 1 >= 0
    [] OTHER -> TRUE                             \* NOP, RET_ZERO, RET_TRUE
DepthAfter(op, depth) ==
  CASE op \in Pushes -> depth + 1
    [] op \in Binary -> depth - 1
    [] op = COND -> depth - 2
    [] op = POP_RET -> depth - 1
    [] OTHER -> depth

Instrs ==
  UNION {IF AllForms THEN PushForms(v) ELSE {ShortestForm(v)} : v \in Vals}
  \cup {[op |-> o, args |-> << >>] : o \in Unary \cup Binary \cup {COND, NOP}}
  \cup {[op |-> BITSET, args |-> <<m[1] \div 256, m[1] % 256, m[2] \div 256, m[2] % 256>>] : m \in Masks}

(***************************************************************************)
(* State                                                                   *)
(***************************************************************************)
VARIABLES prog, phase, depth, loads, ip, stack, status, ret, sdepth
vars == <<prog, phase, depth, loads, ip, stack, status, ret, sdepth>>
\* sdepth: ghost, the loader's depth before each instruction (for the soundness invariant)

Init == /\ prog = << >> /\ phase = "build" /\ depth = 0 /\ loads = TRUE
        /\ ip = 1 /\ stack = << >> /\ status = "running" /\ ret = 0 /\ sdepth = << >>

AddInstr(i) ==
  /\ phase = "build" /\ Len(prog) < MaxLen
  /\ LoadOk(i.op, depth)
  /\ prog' = Append(prog, i) /\ depth' = DepthAfter(i.op, depth) /\ sdepth' = Append(sdepth, depth)
  /\ UNCHANGED <<phase, loads, ip, stack, status, ret>>

\* one instruction the loader must refuse, then a return: the whole program is rejected
AppendBad(i) ==
  /\ BadLoads /\ phase = "build" /\ Len(prog) < MaxLen
  /\ ~LoadOk(i.op, depth)
  /\ prog' = prog \o <<i, [op |-> RET_ZERO, args |-> << >>]>>
  /\ loads' = FALSE /\ phase' = "done" /\ status' = "rejected"
  /\ UNCHANGED <<depth, ip, stack, ret, sdepth>>

Seal(r) ==
  /\ phase = "build" /\ r \in Returns
  /\ IF LoadOk(r, depth)
     THEN /\ prog' = Append(prog, [op |-> r, args |-> << >>]) /\ sdepth' = Append(sdepth, depth)
          /\ phase' = "run" /\ UNCHANGED <<loads, status>>
     ELSE /\ BadLoads
          /\ prog' = Append(prog, [op |-> r, args |-> << >>]) /\ UNCHANGED sdepth
          /\ loads' = FALSE /\ phase' = "done" /\ status' = "rejected"
  /\ UNCHANGED <<depth, ip, stack, ret>>

\* EXIT(v): push v and stop;  ret = (exactly one item) ? item : 0 ; check_final_stack
Exit(stk, v, st) ==
  LET s2 == Append(stk, v) IN
  /\ phase' = "done"
  /\ ret' = IF Len(s2) = 1 THEN v ELSE 0
  /\ status' = IF st # "finished" THEN st ELSE IF Len(s2) = 1 THEN "finished" ELSE "stack_not_empty"
  /\ stack' = s2

Top(s)  == s[Len(s)]
Pop(s)  == SubSeq(s, 1, Len(s) - 1)
Pop2(s) == SubSeq(s, 1, Len(s) - 2)
Pop3(s) == SubSeq(s, 1, Len(s) - 3)

Step ==
  /\ phase = "run"
  /\ LET i == prog[ip] op == i.op n == Len(stack) IN
     /\ \/ /\ op \in Pushes /\ stack' = Append(stack, PushVal(op, i.args)) /\ UNCHANGED <<phase, status, ret>>
        \/ /\ op = NOP /\ UNCHANGED <<stack, phase, status, ret>>
        \/ /\ op \in Unary /\ n >= 1
           /\ stack' = Append(Pop(stack), UnSpec(op, Top(stack))) /\ UNCHANGED <<phase, status, ret>>
        \/ /\ op = BITSET /\ n >= 1
           /\ LET m == i.args[1] * 256 + i.args[2] v == i.args[3] * 256 + i.args[4] x == Top(stack)
              IN  stack' = Append(Pop(stack), FromHL(Hi(x), (Lo(x) & (65535 - m)) | v))
           /\ UNCHANGED <<phase, status, ret>>
        \/ /\ op \in Binary /\ n >= 2
           /\ LET b == stack[n] a == stack[n-1] IN
              IF op = DIV /\ DivFails(a, b)
              THEN Exit(Pop(stack), 1, "died_early")          \* DIE: EXIT(1) with status died_early
              ELSE stack' = Append(Pop2(stack), BinSpec(op, a, b)) /\ UNCHANGED <<phase, status, ret>>
        \/ /\ op = COND /\ n >= 3
           /\ LET f == stack[n] t == stack[n-1] c == stack[n-2] IN
              stack' = Append(Pop3(stack), IF c # 0 THEN t ELSE f)
           /\ UNCHANGED <<phase, status, ret>>
        \/ /\ op = POP_RET /\ n >= 1 /\ Exit(Pop(stack), Top(stack), "finished")
        \/ /\ op = RET_ZERO /\ Exit(stack, 0, "finished")
        \/ /\ op = RET_TRUE /\ Exit(stack, 1, "finished")
     /\ ip' = ip + 1
  /\ UNCHANGED <<prog, depth, loads, sdepth>>

Done == phase = "done" /\ UNCHANGED vars

Next == (\E i \in Instrs : AddInstr(i) \/ AppendBad(i)) \/ (\E r \in Returns : Seal(r)) \/ Step
Spec == Init /\ [][Next]_vars /\ WF_vars(Step)

(***************************************************************************)
(* Properties                                                              *)
(***************************************************************************)
\* The loader's static analysis is sound: an accepted program never lacks an operand, and the dynamic
\* stack depth at every instruction equals the depth the loader computed.
Operands(op) == CASE op \in Binary -> 2 [] op \in Unary \cup {BITSET, POP_RET} -> 1 [] op = COND -> 3 [] OTHER -> 0
LoaderSound == phase = "run" => /\ Len(stack) >= Operands(prog[ip].op)
                                 /\ Len(stack) = sdepth[ip]
\* the run phase cannot get stuck (every accepted program reaches a return)
Progress == phase = "run" => ENABLED Step
\* values stay 32-bit words (TLC would raise an overflow error otherwise); status well defined
TypeOK == /\ status \in {"running", "finished", "stack_not_empty", "died_early", "rejected"}
          /\ phase = "done" => status # "running"
\* the stack stays far below STACK_MAX for these programs
StackSmall == Len(stack) <= MaxLen + 1
Terminates == <>(phase = "done")

(***************************************************************************)
(* Self-check of the word arithmetic against unbounded integer arithmetic  *)
(* on operands small enough not to overflow, and algebraic laws elsewhere. *)
(***************************************************************************)
Small(x) == x > -30000 /\ x < 30000
ArithLaws ==
  \A a \in Vals : \A b \in Vals :
    /\ (Small(a) /\ Small(b)) => (WAdd(a, b) = a + b /\ WSub(a, b) = a - b /\ WMul(a, b) = a * b)
    /\ WSub(WAdd(a, b), b) = a
    /\ WAdd(a, b) = WAdd(b, a) /\ WMul(a, b) = WMul(b, a)
    /\ WNeg(WNeg(a)) = a /\ WAdd(a, WNeg(a)) = 0
    /\ WMul(a, 1) = a /\ WMul(a, 0) = 0 /\ WMul(a, -1) = WNeg(a) /\ WMul(a, 2) = WAdd(a, a)
    /\ WBand(a, WNot(a)) = 0 /\ WBor(a, WNot(a)) = -1 /\ WBand(a, b) = WNot(WBor(WNot(a), WNot(b)))
    /\ ~DivFails(a, b) =>
         LET q == WDiv(a, b) r == WSub(a, WMul(q, b)) IN      \* a = q*b + r, |r| < |b|, sign(r) = sign(a) or r = 0
           /\ (r = 0 \/ (r > 0) = (a > 0))
           /\ (b > 0 => (r < b /\ r > -b)) /\ ((b < 0 /\ b # INTMIN) => (r < -b /\ r > b))
    /\ \A f \in PushForms(a) : PushVal(f.op, f.args) = a

ArithOK == (phase = "build" /\ prog = << >>) => ArithLaws      \* evaluated once, in the initial state

(***************************************************************************)
(* Emission                                                                *)
(***************************************************************************)
RECURSIVE Flat(_)
Flat(p) == IF p = << >> THEN << >> ELSE <<Head(p).op>> \o Head(p).args \o Flat(Tail(p))
CaseRecord == [prog |-> Flat(prog), n |-> Len(prog), loads |-> loads, status |-> status, ret |-> ret]
EmitDone == (Emit /\ phase = "done") => CSVWrite("%1$s", <<ToJson(CaseRecord)>>, IOEnv.OUT)
=============================================================================
