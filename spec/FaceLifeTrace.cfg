SPECIFICATION TSpec
CONSTANTS
  Kinds = {"good", "noname", "badlabel", "compressed", "badsilf", "nocmap", "nogloc"}
  MaxOps = 1000
  NameMemo = TRUE
  Emit = FALSE
INVARIANTS NoCallbackTrace NothingHeldWhenGone TypeOK
POSTCONDITION Accepted
