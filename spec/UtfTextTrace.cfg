SPECIFICATION Spec
CONSTANTS
  Fixed = TRUE
INVARIANT RecordOk
POSTCONDITION AllSeen
