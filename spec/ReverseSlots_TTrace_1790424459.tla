---- MODULE ReverseSlots_TTrace_1790424459 ----
EXTENDS Sequences, TLCExt, Toolbox, ReverseSlots, Naturals, TLC

_expression ==
    LET ReverseSlots_TEExpression == INSTANCE ReverseSlots_TEExpression
    IN ReverseSlots_TEExpression!expression
----

_trace ==
    LET ReverseSlots_TETrace == INSTANCE ReverseSlots_TETrace
    IN ReverseSlots_TETrace!trace
----

_inv ==
    ~(
        TLCGet("level") = Len(_TETrace)
        /\
        done = (TRUE)
        /\
        seq = (<<"b", "m">>)
    )
----

_init ==
    /\ done = _TETrace[1].done
    /\ seq = _TETrace[1].seq
----

_next ==
    /\ \E i,j \in DOMAIN _TETrace:
        /\ \/ /\ j = i + 1
              /\ i = TLCGet("level")
        /\ done  = _TETrace[i].done
        /\ done' = _TETrace[j].done
        /\ seq  = _TETrace[i].seq
        /\ seq' = _TETrace[j].seq

\* Uncomment the ASSUME below to write the states of the error trace
\* to the given file in Json format. Note that you can pass any tuple
\* to `JsonSerialize`. For example, a sub-sequence of _TETrace.
    \* ASSUME
    \*     LET J == INSTANCE Json
    \*         IN J!JsonSerialize("ReverseSlots_TTrace_1790424459.json", _TETrace)

=============================================================================

 Note that you can extract this module `ReverseSlots_TEExpression`
  to a dedicated file to reuse `expression` (the module in the 
  dedicated `ReverseSlots_TEExpression.tla` file takes precedence 
  over the module `ReverseSlots_TEExpression` below).

---- MODULE ReverseSlots_TEExpression ----
EXTENDS Sequences, TLCExt, Toolbox, ReverseSlots, Naturals, TLC

expression == 
    [
        \* To hide variables of the `ReverseSlots` spec from the error trace,
        \* remove the variables below.  The trace will be written in the order
        \* of the fields of this record.
        done |-> done
        ,seq |-> seq
        
        \* Put additional constant-, state-, and action-level expressions here:
        \* ,_stateNumber |-> _TEPosition
        \* ,_doneUnchanged |-> done = done'
        
        \* Format the `done` variable as Json value.
        \* ,_doneJson |->
        \*     LET J == INSTANCE Json
        \*     IN J!ToJson(done)
        
        \* Lastly, you may build expressions over arbitrary sets of states by
        \* leveraging the _TETrace operator.  For example, this is how to
        \* count the number of times a spec variable changed up to the current
        \* state in the trace.
        \* ,_doneModCount |->
        \*     LET F[s \in DOMAIN _TETrace] ==
        \*         IF s = 1 THEN 0
        \*         ELSE IF _TETrace[s].done # _TETrace[s-1].done
        \*             THEN 1 + F[s-1] ELSE F[s-1]
        \*     IN F[_TEPosition - 1]
    ]

=============================================================================



Parsing and semantic processing can take forever if the trace below is long.
 In this case, it is advised to uncomment the module below to deserialize the
 trace from a generated binary file.

\*
\*---- MODULE ReverseSlots_TETrace ----
\*EXTENDS IOUtils, ReverseSlots, TLC
\*
\*trace == IODeserialize("ReverseSlots_TTrace_1790424459.bin", TRUE)
\*
\*=============================================================================
\*

---- MODULE ReverseSlots_TETrace ----
EXTENDS ReverseSlots, TLC

trace == 
    <<
    ([done |-> FALSE,seq |-> <<>>]),
    ([done |-> FALSE,seq |-> <<"b">>]),
    ([done |-> FALSE,seq |-> <<"b", "m">>]),
    ([done |-> TRUE,seq |-> <<"b", "m">>])
    >>
----


=============================================================================

---- CONFIG ReverseSlots_TTrace_1790424459 ----
CONSTANTS
    MaxLen = 5
    KeepLast = FALSE
    Emit = FALSE

INVARIANT
    _inv

CHECK_DEADLOCK
    \* CHECK_DEADLOCK off because of PROPERTY or INVARIANT above.
    FALSE

INIT
    _init

NEXT
    _next

CONSTANT
    _TETrace <- _trace

ALIAS
    _expression
=============================================================================
\* Generated on Sat Sep 26 12:07:40 UTC 2026