------------------------------- MODULE Cmap -------------------------------
(***************************************************************************)
(* Character -> glyph mapping through the cmap (src/TtfUtil.cpp            *)
(* CmapSubtable4/12 Lookup + NextCodepoint, src/CmapCache.cpp DirectCmap / *)
(* CachedCmap).  Property C13.                                             *)
(*                                                                         *)
(* DECLARATIVE: the OpenType rule - supplementary-plane characters through *)
(* the format 12 subtable, BMP characters through the format 4 subtable    *)
(* (first segment whose end code >= c; idDelta arithmetic mod 65536;       *)
(* glyphIdArray entry 0 = unmapped), 0 when unmapped.                      *)
(* IMPLEMENTATION-SHAPED: the binary search of CmapSubtable4Lookup, the    *)
(* linear scan of CmapSubtable12Lookup, the NextCodepoint iterators and    *)
(* the fill loop of cache_subtable, DirectCmap[] and CachedCmap[].         *)
(*                                                                         *)
(* A format 4 subtable is  segs: Seq([s, e, delta, off])  +  gia (the      *)
(* glyphIdArray); off = 0 means "delta only", otherwise the 1-based index  *)
(* in gia of the entry for start code s.  A format 12 subtable is          *)
(* groups: Seq([s, e, g]).  Configurations are drawn from boundary         *)
(* candidates (block and plane edges, wrapping deltas, zero entries, an    *)
(* array that ends exactly at / runs past the end of the subtable).        *)
(***************************************************************************)
EXTENDS Integers, Sequences, FiniteSets, TLC, Json, IOUtils, CSV

CONSTANTS FixedCache,   \* TRUE: model the repaired CachedCmap (F5)
          Emit

Min(S) == CHOOSE x \in S : \A y \in S : x <= y

(***************************************************************************)
(* Declarative reference                                                   *)
(***************************************************************************)
Ref4(segs, gia, cp) ==
  LET idx == {i \in 1..Len(segs) : segs[i].e >= cp} IN
  IF idx = {} THEN 0
  ELSE LET sg == segs[Min(idx)] IN
       IF sg.s > cp THEN 0
       ELSE IF sg.off = 0 THEN (cp + sg.delta) % 65536
       ELSE LET k == sg.off + (cp - sg.s) IN
            IF k > Len(gia) THEN 0 ELSE IF gia[k] = 0 THEN 0 ELSE (gia[k] + sg.delta) % 65536

Ref12(groups, cp) ==
  LET idx == {i \in 1..Len(groups) : groups[i].s <= cp /\ cp <= groups[i].e} IN
  IF idx = {} THEN 0 ELSE LET g == groups[Min(idx)] IN (g.g + (cp - g.s)) % 65536

Ref(c, cp) == IF cp > 65535 THEN (IF c.has12 THEN Ref12(c.groups, cp) ELSE 0) ELSE Ref4(c.segs, c.gia, cp)

(***************************************************************************)
(* Implementation-shaped lookups (range indices are 0-based as in the code)*)
(***************************************************************************)
EndAt(segs, i) == segs[i + 1].e

RECURSIVE BSearch(_, _, _, _)
BSearch(segs, cp, left, n) ==      \* returns the 0-based segment index or -1
  IF n = 0 THEN -1
  ELSE LET cMid == n \div 2
           mid == left + cMid
       IN  IF cp <= EndAt(segs, mid)
           THEN IF cMid = 0 \/ cp > EndAt(segs, mid - 1) THEN mid
                ELSE BSearch(segs, cp, left, cMid)
           ELSE BSearch(segs, cp, mid + 1, n - (cMid + 1))

Lookup4(segs, gia, cp, rangeKey) ==
  LET mid == IF rangeKey # 0 THEN rangeKey ELSE BSearch(segs, cp, 0, Len(segs)) IN
  IF mid < 0 \/ mid >= Len(segs) THEN 0
  ELSE LET sg == segs[mid + 1] IN
       IF sg.e >= cp /\ cp >= sg.s
       THEN IF sg.off = 0 THEN (sg.delta + cp) % 65536
            ELSE LET k == sg.off + (cp - sg.s) IN       \* offset*2+1 >= length  <=>  entry not wholly inside
                 IF k > Len(gia) THEN 0 ELSE IF gia[k] = 0 THEN 0 ELSE (gia[k] + sg.delta) % 65536
       ELSE 0

RECURSIVE Scan12(_, _, _)
Scan12(groups, cp, i) ==           \* i 0-based
  IF i >= Len(groups) THEN 0
  ELSE LET g == groups[i + 1] IN
       IF cp >= g.s /\ cp <= g.e THEN (g.g + (cp - g.s)) % 65536 ELSE Scan12(groups, cp, i + 1)
Lookup12(groups, cp, rangeKey) == Scan12(groups, cp, rangeKey)

\* NextCodepoint for both formats: rs = sequence of [s, e] ranges, last = 0xFFFF / 0x10FFFF, endKey = key at the end
RECURSIVE Down(_, _, _)
Down(rs, prev, i) == IF i > 0 /\ rs[i + 1].s > prev THEN Down(rs, prev, i - 1) ELSE i
RECURSIVE Up(_, _, _)
Up(rs, prev, i) == IF i < Len(rs) - 1 /\ rs[i + 1].e < prev THEN Up(rs, prev, i + 1) ELSE i

NextCp(rs, prev, key, last, endKey) ==
  IF prev = 0 THEN [cp |-> rs[1].s, key |-> 0]
  ELSE IF prev >= last THEN [cp |-> last, key |-> endKey]
  ELSE LET i  == Up(rs, prev, Down(rs, prev, key))
           st == rs[i + 1].s
           en == rs[i + 1].e
           p2 == IF st > prev THEN st - 1 ELSE prev
       IN  IF en > p2 THEN [cp |-> p2 + 1, key |-> i]
           ELSE [cp |-> IF i + 1 >= Len(rs) THEN last ELSE rs[i + 2].s, key |-> i + 1]

\* cache_subtable: returns the set of <<cp, gid>> pairs stored (later stores override earlier ones), or the marker <<-1,-1>> when
\* the fuel runs out (non-termination of the fill).
Ranges(c, fmt) == IF fmt = 4 THEN c.segs ELSE c.groups
Look(c, fmt, cp, key) == IF fmt = 4 THEN Lookup4(c.segs, c.gia, cp, key) ELSE Lookup12(c.groups, cp, key)
LastOf(fmt) == IF fmt = 4 THEN 65535 ELSE 1114111
EndKey(c, fmt) == IF fmt = 4 THEN Len(c.segs) - 1 ELSE Len(c.groups)

RECURSIVE Fill(_, _, _, _, _, _)
Fill(c, fmt, cp, prev, key, acc) ==
  IF cp >= LastOf(fmt) THEN acc
  ELSE IF Len(acc) > 400 THEN <<<<-1, -1>>>>
  ELSE LET st1 == Append(acc, <<cp, Look(c, fmt, cp, key)>>)
           cp2 == IF cp <= prev THEN prev + 1 ELSE cp
           \* repaired: the successor reached by the anti-loop bump is cached too
           st2 == IF FixedCache /\ cp <= prev /\ cp2 < LastOf(fmt) THEN Append(st1, <<cp2, Look(c, fmt, cp2, 0)>>) ELSE st1
           nx  == NextCp(Ranges(c, fmt), cp2, key, LastOf(fmt), EndKey(c, fmt))
       IN  Fill(c, fmt, nx.cp, cp2, nx.key, st2)

FillAll(c, fmt) ==
  LET first == NextCp(Ranges(c, fmt), 0, 0, LastOf(fmt), EndKey(c, fmt))
      log   == Fill(c, fmt, first.cp, 0, first.key, << >>)
      lastG == Look(c, fmt, LastOf(fmt), 0)
  IN  IF FixedCache /\ lastG # 0 /\ log # <<<<-1, -1>>>> THEN Append(log, <<LastOf(fmt), lastG>>) ELSE log   \* repaired: end point

\* value of the last store for cp in a fill log (0 if never stored)
RECURSIVE LastStore(_, _, _)
LastStore(log, cp, i) == IF i = 0 THEN -1 ELSE IF log[i][1] = cp THEN log[i][2] ELSE LastStore(log, cp, i - 1)

Direct(c, cp) == IF cp > 65535 THEN (IF c.has12 THEN Lookup12(c.groups, cp, 0) ELSE 0) ELSE Lookup4(c.segs, c.gia, cp, 0)

Log12(c) == IF c.has12 THEN FillAll(c, 12) ELSE << >>
Log4(c)  == FillAll(c, 4)

CachedL(c, l4, l12, cp) ==
  IF (~c.has12 /\ cp > 65535) \/ cp > 1114111 THEN 0
  ELSE LET a == LastStore(l4, cp, Len(l4))
           b == LastStore(l12, cp, Len(l12))
       IN  IF a >= 0 THEN a                                          \* format 4 is filled last and overrides
           ELSE IF b >= 0 /\ ~(FixedCache /\ cp <= 65535) THEN b       \* repaired: BMP blocks cleared before format 4
           ELSE 0
Cached(c, cp) == CachedL(c, Log4(c), Log12(c), cp)

(***************************************************************************)
(* Configurations                                                          *)
(***************************************************************************)
\* format 4 candidate segments, in code-point order; chosen subsets keep this order
Cand4 == << [s |-> 0,     e |-> 1,     delta |-> 20,    off |-> 0],
            [s |-> 65,    e |-> 67,    delta |-> 65472, off |-> 0],      \* -64: gids 1..3
            [s |-> 69,    e |-> 69,    delta |-> 0,     off |-> 1],      \* gia[1]
            [s |-> 255,   e |-> 257,   delta |-> 5,     off |-> 2],      \* gia[2..4], crosses a block, has a zero entry (which
                                                                           \* stays 0: the delta is added to non-zero entries only)
            [s |-> 512,   e |-> 515,   delta |-> 3,     off |-> 5],      \* gia[5..8]: runs off the end of gia
            [s |-> 65533, e |-> 65534, delta |-> 4,     off |-> 0] >>    \* wraps: (65533 + 4) mod 65536 = 1
Gia == <<7, 9, 0, 10, 11, 12>>                                           \* entry 6 is the last uint16 of the subtable
Last4 == { [s |-> 65535, e |-> 65535, delta |-> 1, off |-> 0],           \* the usual terminator: U+FFFF -> 0
           [s |-> 65535, e |-> 65535, delta |-> 6, off |-> 0],           \* U+FFFF mapped to glyph 5
           [s |-> 65520, e |-> 65535, delta |-> 100, off |-> 0] }
Cand12 == << [s |-> 65,      e |-> 65,      g |-> 70],                   \* BMP, conflicts with format 4
             [s |-> 72,      e |-> 73,      g |-> 60],                   \* BMP, only in format 12
             [s |-> 65530,   e |-> 65540,   g |-> 80],                   \* straddles U+FFFF / U+10000
             [s |-> 65541,   e |-> 65543,   g |-> 30],
             [s |-> 65791,   e |-> 65793,   g |-> 40],                   \* 0x100FF..0x10101
             [s |-> 131072,  e |-> 131073,  g |-> 65535],                \* gid wraps to 0
             [s |-> 1114110, e |-> 1114111, g |-> 50] >>                 \* ends at U+10FFFF

SubSeqs(cands) == { [i \in 1..Cardinality(S) |-> cands[CHOOSE k \in S : Cardinality({j \in S : j < k}) = i - 1]] :
                     S \in SUBSET (1..Len(cands)) }

Probes(c) ==
  LET pts == UNION {{sg.s - 1, sg.s, sg.e, sg.e + 1} : sg \in {c.segs[i] : i \in 1..Len(c.segs)}}
             \cup UNION {{g.s - 1, g.s, g.e, g.e + 1} : g \in {c.groups[i] : i \in 1..Len(c.groups)}}
             \cup {0, 1, 255, 256, 65534, 65535, 65536, 1114110, 1114111}
  IN  {p \in pts : p >= 0 /\ p <= 1114111}

VARIABLES cfg, done
vars == <<cfg, done>>

Init == /\ done = FALSE
        /\ \E body \in SubSeqs(Cand4), last \in Last4, grp \in SubSeqs(Cand12) :
              LET b2 == IF last.s = 65520 THEN SelectSeq(body, LAMBDA sg : sg.e < 65520) ELSE body IN
              cfg = [segs |-> Append(b2, last), gia |-> Gia, has12 |-> grp # << >>, groups |-> grp]
Eval == ~done /\ done' = TRUE /\ UNCHANGED cfg
Next == Eval \/ (done /\ UNCHANGED vars)
Spec == Init /\ [][Next]_vars

(***************************************************************************)
(* Properties                                                              *)
(***************************************************************************)
DirectOk == \A cp \in Probes(cfg) : Direct(cfg, cp) = Ref(cfg, cp)
CachedOk == LET l4 == Log4(cfg) l12 == Log12(cfg) IN \A cp \in Probes(cfg) : CachedL(cfg, l4, l12, cp) = Ref(cfg, cp)
FillTerminates == Log4(cfg) # <<<<-1, -1>>>> /\ Log12(cfg) # <<<<-1, -1>>>>

(***************************************************************************)
(* Emission: the subtables plus the piecewise description of Ref           *)
(***************************************************************************)
Pieces4(c) == [i \in 1..Len(c.segs) |->
                 LET sg == c.segs[i] IN
                 IF sg.off = 0 THEN [lo |-> sg.s, hi |-> sg.e, kind |-> "delta", base |-> (sg.s + sg.delta) % 65536, gids |-> << >>]
                 ELSE [lo |-> sg.s, hi |-> sg.e, kind |-> "list", base |-> 0,
                       gids |-> [k \in 1..(sg.e - sg.s + 1) |-> Ref4(c.segs, c.gia, sg.s + k - 1)]]]
Pieces12(c) == [i \in 1..Len(c.groups) |->
                 LET g == c.groups[i] IN [lo |-> g.s, hi |-> g.e, kind |-> "delta", base |-> g.g, gids |-> << >>]]
\* BMP pieces come from format 4 only, supplementary pieces from format 12 only
RefPieces(c) == Pieces4(c) \o SelectSeq(
                  [i \in 1..Len(c.groups) |->
                     LET p == Pieces12(c)[i] IN
                     IF p.hi <= 65535 THEN [p EXCEPT !.kind = "none"]
                     ELSE IF p.lo <= 65535 THEN [p EXCEPT !.lo = 65536, !.base = (p.base + (65536 - p.lo)) % 65536] ELSE p],
                  LAMBDA p : p.kind # "none")
CaseRecord == [segs |-> cfg.segs, gia |-> cfg.gia, has12 |-> cfg.has12, groups |-> cfg.groups, ref |-> RefPieces(cfg)]
EmitDone == (Emit /\ done) => CSVWrite("%1$s", <<ToJson(CaseRecord)>>, IOEnv.OUT)
=============================================================================
