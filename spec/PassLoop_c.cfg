SPECIFICATION Spec
CONSTANTS
  N0 = 4
  Budget0 = 1
  MaxLoop = 1
  MaxOps = 3
  Deltas <- D3
  LoopLimit = TRUE
INVARIANTS IterBound Growth CursorOK
PROPERTY Terminates
