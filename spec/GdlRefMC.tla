----------------------------- MODULE GdlRefMC -----------------------------
EXTENDS GdlRef
\* glyphs: 1 a, 2 b, 3 c, 4 x, 5 y, 6 m (zero-advance mark)
Cls4 == << <<1, 2>>, <<2, 3>>, <<4, 5>>, <<6>> >>
AdvF == [g \in 0..6 |-> CASE g = 0 -> 0 [] g = 1 -> 500 [] g = 2 -> 600 [] g = 3 -> 450 [] g = 4 -> 700 [] g = 5 -> 300 [] g = 6 -> 0]
\* (glyph attributes are signed 16-bit values: c carries -1)
GAttrF == [g \in 0..6 |-> IF g \in {2, 5} THEN 1 ELSE IF g = 3 THEN -1 ELSE 0]
OpsAll == {"keep", "glyph", "subs", "copy", "delete", "insert"}
OpsSub == {"keep", "glyph", "subs"}

\* ---- structured seed programs (the reference semantics computes their expected output for every text) ----
I(op, c) == [NoItem EXCEPT !.op = op, !.cls = c]
R(p, ctx, items, con, ret) == [pre |-> p, ctx |-> ctx, items |-> items, con |-> con, ret |-> ret]
Att(ref, x) == [NoItem EXCEPT !.att = x, !.attref = ref]
\* class ids: 1 = {a,b}, 2 = {b,c}, 3 = {x,y}, 4 = {m}
SeedMarks ==   \* three marks attached to one base, then the middle / first / last one is re-attached in a later pass
  { << [kind |-> "pos", rules |-> << R(0, <<1, 4, 4, 4>>, <<NoItem, Att(-1, 30), Att(-2, 20), Att(-3, 10)>>, NoCon, 0) >>],
       [kind |-> "pos", rules |-> << R(1, <<1, 4, 4, 4>>, <<NoItem, Att(k, 5), NoItem>>, NoCon, 0) >>] >> : k \in {-1, -2} }
  \cup
  { << [kind |-> "pos", rules |-> << R(0, <<1, 4, 4, 4>>, <<NoItem, Att(-1, 30), Att(-2, 20), Att(-3, 10)>>, NoCon, 0) >>],
       [kind |-> "pos", rules |-> << R(0, <<1, 4, 4, 4>>, <<NoItem, it2, it3, it4>>, NoCon, 0) >>] >> :
         it2 \in {NoItem, [NoItem EXCEPT !.shift = 40]}, it3 \in {NoItem, Att(-1, 7)}, it4 \in {NoItem, Att(-1, 9), Att(-2, 3)} }
SeedChains ==  \* chains and mutual attachment attempts: b->a, then a->b (refused), marks on marks
  { << [kind |-> "pos", rules |-> << R(0, <<1, 2>>, <<NoItem, Att(-1, 30)>>, NoCon, 0),  R(0, <<3, 4, 4>>, <<NoItem, Att(-1, 15), Att(-1, 25)>>, NoCon, 0) >>],
       [kind |-> "pos", rules |-> << R(1, <<1, 2, 1>>, <<NoItem, Att(-1, 11)>>, NoCon, 0), R(1, <<4, 4>>, <<[NoItem EXCEPT !.adv = 250]>>, NoCon, 0) >>] >> }
SeedRecycle == \* a slot gets user attributes, is deleted, and its storage is reused by a later insertion
  { << [kind |-> "sub", rules |-> << R(0, <<1>>, <<[NoItem EXCEPT !.user2 = 5, !.user = 7]>>, NoCon, 0) >>],
       [kind |-> "sub", rules |-> << R(0, <<1>>, <<I("delete", 0)>>, NoCon, 0) >>],
       [kind |-> "sub", rules |-> << R(1, <<2, 3>>, <<I("insert", c)>>, NoCon, 0) >>],
       [kind |-> "sub", rules |-> << R(0, <<3>>, <<I("subs", 1)>>, [kind |-> "user2", item |-> 0, val |-> 0, f |-> 0], 0),
                                    R(0, <<4>>, <<I("glyph", 1)>>, [kind |-> "user", item |-> 0, val |-> 0, f |-> 0], 0) >>] >> : c \in {3, 4} }
SeedOrder ==   \* precedence: longer context first, then earlier rule; overlapping classes; constraints; pre-context
  { << [kind |-> "sub", rules |-> << R(0, <<2>>, <<I("glyph", 3)>>, NoCon, 0), R(0, <<1, 2>>, <<I("subs", 3), NoItem>>, NoCon, r),
                                    R(0, <<1>>, <<I("subs", 2)>>, [kind |-> "gattr", item |-> 0, val |-> v, f |-> 0], 0), R(0, <<2, 2>>, <<I("delete", 0), NoItem>>, NoCon, 0) >>],
       [kind |-> "sub", rules |-> << R(1, <<3, 1>>, <<I("copy", 0)>>, NoCon, 0), R(1, <<3, 3>>, <<[NoItem EXCEPT !.op = "copy", !.ref = -1]>>, NoCon, 0) >>] >> : r \in {0, -1}, v \in {0, 1, -1} }
Feat(f, v) == [kind |-> "feat", item |-> 0, val |-> v, f |-> f]
SetF(f, v) == [NoItem EXCEPT !.sf = f, !.sv = v]
SeedFeat ==    \* rules selected by feature values; a rule that changes a feature for the rules after it (also in later passes)
  { << [kind |-> "sub", rules |-> << R(0, <<1>>, <<I("subs", 2)>>, Feat(1, v), 0), R(0, <<3>>, <<I("glyph", 4)>>, Feat(2, 2), 0),
                                    R(0, <<2, 3>>, <<SetF(1, w), NoItem>>, NoCon, 0) >>],
       [kind |-> "sub", rules |-> << R(1, <<2, 1>>, <<I("glyph", 3)>>, Feat(1, 1), 0), R(0, <<4>>, <<SetF(2, 3)>>, Feat(2, 0), 0) >>],
       [kind |-> "pos", rules |-> << R(0, <<3>>, <<[NoItem EXCEPT !.adv = 250]>>, Feat(2, 2), 0), R(0, <<1>>, <<[NoItem EXCEPT !.shift = 40]>>, Feat(1, 0), 0) >>] >> : v \in {0, 1}, w \in {0, 1, 3} }
SeedLoop ==    \* rules that hand the cursor back (return -1) all along a long text: the loop counter of the pass counts
               \* consecutive steps behind the high-water mark, not the steps of the whole pass
  { << [kind |-> k, rules |-> << R(0, <<1, 1>>, <<[NoItem EXCEPT !.user = 7], NoItem>>, NoCon, -1) >>] >> : k \in {"sub", "pos"} }
  \cup
  { << [kind |-> "sub", rules |-> << R(0, <<1, 2>>, <<I("subs", 2), NoItem>>, NoCon, -1), R(0, <<2, 2, 1>>, <<NoItem, I("glyph", 3), NoItem>>, NoCon, -1) >>],
       [kind |-> "pos", rules |-> << R(1, <<1, 2, 2>>, <<[NoItem EXCEPT !.shift = 40], NoItem>>, NoCon, -1) >>] >> }
LoopTexts == UNION {[1..n -> {1, 2}] : n \in {9, 10, 11}}
SpecSeededLoop == InitSeededTexts(SeedLoop, LoopTexts) /\ [][Next]_vars
SeedSkip ==    \* passes that only have work to do because an earlier pass of the same call put their glyphs there: with
               \* pass-skip bits in the font the engine may leave a pass out only while no glyph it names has appeared
  { << [kind |-> "sub", rules |-> << R(0, <<3>>, <<I("glyph", g1)>>, NoCon, 0) >>],
       [kind |-> "sub", rules |-> << R(0, <<c2>>, <<I("glyph", 4)>>, NoCon, 0) >>],
       [kind |-> "sub", rules |-> << R(0, <<4, 4>>, <<I("delete", 0), NoItem>>, NoCon, 0) >>],
       [kind |-> "pos", rules |-> << R(0, <<4>>, <<[NoItem EXCEPT !.shift = 40]>>, NoCon, 0) >>] >> : g1 \in {1, 2}, c2 \in {1, 2} }
SeedSigned ==  \* constraints on a glyph attribute that is negative for one glyph of the class (c carries -1): signed comparison
  { << [kind |-> "sub", rules |-> << R(0, <<2>>, <<I("glyph", 3)>>, [kind |-> "gattr", item |-> 0, val |-> v, f |-> 0], 0),
                                    R(0, <<2>>, <<I("glyph", 4)>>, NoCon, 0) >>] >> : v \in {-1, 0, 1} }
SeedDeleteRoot == \* a cluster whose children are not next to each other in the stream (a x b x: both x attached to a), then
                  \* its root is deleted: the children become bases, each with its own place in the line
  { << [kind |-> "sub", rules |-> << R(0, <<1, 3, 2, 3>>, <<NoItem, Att(-1, 30), NoItem, Att(r4, 20)>>, NoCon, 0) >>],
       [kind |-> "sub", rules |-> << R(0, <<1>>, <<I("delete", 0)>>, [kind |-> "gattr", item |-> 0, val |-> 0, f |-> 0], 0) >>],
       [kind |-> "pos", rules |-> << R(0, <<3>>, <<[NoItem EXCEPT !.shift = 40]>>, NoCon, 0) >>] >> : r4 \in {-3, -1} }
SeedLessEq ==  \* a constraint that orders instead of comparing for equality, on a value set by an earlier pass: equal, below, above
  { << [kind |-> "sub", rules |-> << R(0, <<1>>, <<[NoItem EXCEPT !.user = u]>>, NoCon, 0) >>],
       [kind |-> "sub", rules |-> << R(0, <<1>>, <<I("subs", 2)>>, [kind |-> "userle", item |-> 0, val |-> 7, f |-> 0], 0),
                                    R(0, <<1>>, <<I("glyph", 3)>>, NoCon, 0) >>] >> : u \in {6, 7, 8} }
Seeds == SeedLessEq \cup SeedDeleteRoot \cup SeedMarks \cup SeedChains \cup SeedRecycle \cup SeedOrder \cup SeedSkip \cup SeedSigned
SpecSeeded == InitSeeded(Seeds) /\ [][Next]_vars
SpecSeededF == InitSeeded(SeedFeat) /\ [][Next]_vars
=============================================================================
