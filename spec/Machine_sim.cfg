SPECIFICATION Spec
CONSTANTS
  Vals <- ValsFull
  Masks <- MasksFull
  MaxLen = 8
  AllForms = TRUE
  BadLoads = TRUE
  Emit = TRUE
INVARIANTS LoaderSound Progress TypeOK StackSmall EmitDone
