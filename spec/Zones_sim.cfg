SPECIFICATION Spec
CONSTANTS
  G = 30
  DegInit = TRUE
  MaxSpan = 3
  MaxOps = 18
  Weights <- W3
  Emit = TRUE
INVARIANTS Sorted NonEmpty InBounds NoExcluded OfferOk NoLoss EmitDone
