------------------------------- MODULE GdlRef -------------------------------
(***************************************************************************)
(* Reference semantics of Graphite rule passes on a GDL-lite family        *)
(* (doc/GTF.adoc, doc/OpCodes.adoc, the GDL manual's pass / rule model).   *)
(* Property C06; its behaviours (program + text + expected output) are     *)
(* compiled to real fonts by fontgen and compared with gr_make_seg.        *)
(*                                                                         *)
(* A pass is a list of rules.  A rule has pre context items, a context of  *)
(* glyph classes (pre-context included; its length is the sort key), an    *)
(* optional constraint on one item, one action per body item and a cursor  *)
(* return.  At stream position i the candidates are the rules whose whole  *)
(* context matches the glyphs around i; the winner is the first, by (sort  *)
(* key descending, rule index ascending), whose constraint holds; its      *)
(* actions are applied; the cursor resumes where the rule returns; with no *)
(* winner the glyph passes through unchanged.  Passes run in font order    *)
(* over the previous pass's output.  Positions are in design units.        *)
(*                                                                         *)
(* A behaviour first BUILDS a program and a text through small choices (so *)
(* that simulation samples the family uniformly enough and BFS enumerates  *)
(* small sub-families), then RUNS it one cursor position per step.         *)
(***************************************************************************)
EXTENDS Integers, Sequences, FiniteSets, TLC, Json, IOUtils, CSV

CONSTANTS NG,           \* glyphs 1..NG (0 = .notdef is never in a text)
          Classes,      \* sequence of classes, each a sequence of glyph ids (order matters for put_subs)
          Adv,          \* glyph -> advance
          GAttr,        \* glyph -> value of the glyph attribute the constraints may test
          MaxRules, MaxPasses, MaxLen, MaxText,
          Rtl,          \* font and text direction (0 ltr, 1 rtl)
          NFeat,        \* number of font features (0 = none); each takes values 0..2, default 0
          Ops,          \* item operations allowed: subset of {"keep","glyph","subs","copy","delete","insert"}
          Emit

NC == Len(Classes)
InClass(g, c) == \E k \in 1..Len(Classes[c]) : Classes[c][k] = g
IndexIn(g, c) == CHOOSE k \in 1..Len(Classes[c]) : Classes[c][k] = g
Max(S) == CHOOSE x \in S : \A y \in S : y <= x

(***************************************************************************)
(* Programs                                                                *)
(***************************************************************************)
\* item action: op, class operand, copy reference (relative, negative), optional attribute sets (-1 = none)
NoItem == [op |-> "keep", cls |-> 0, ref |-> 0, adv |-> -1, user |-> -1, user2 |-> -1, shift |-> -1, att |-> -1, attref |-> -1, sf |-> 0, sv |-> 0]
\* constraint: kind "none" | "gattr" | "user" | "user2" on body item `item` (0-based) equal to `val`; kind "feat": feature f = val
\* item action sf/sv: set feature sf (0 = none) to sv (SET_FEAT; the value is clamped to the feature's maximum 2)
NoCon == [kind |-> "none", item |-> 0, val |-> 0, f |-> 0]

VARIABLES prog,     \* sequence of passes: [kind, rules]; rule: [pre, ctx, items, con, ret]
          text,     \* sequence of glyph ids
          phase,    \* "build" | "text" | "run" | "done"
          bpos,     \* build cursor: [rule fields being filled]
          \* run state
          stream,   \* sequence of slot ids in stream order
          slot,     \* slot id -> [gid, adv, user, user2, shift, par, att, with]
          nextid, pass, cur, fired, stuck,
          feats,    \* feature values handed to gr_make_seg
          cfeats    \* feature values of the segment while it runs (SET_FEAT changes them)
vars == <<prog, text, phase, bpos, stream, slot, nextid, pass, cur, fired, stuck, feats, cfeats>>

Init == /\ prog = << >> /\ text = << >> /\ phase = "build" /\ bpos = "pass"
        /\ stream = << >> /\ slot = << >> /\ nextid = 1 /\ pass = 1 /\ cur = 1 /\ fired = 0 /\ stuck = FALSE
        /\ feats = [f \in 1..NFeat |-> 0] /\ cfeats = [f \in 1..NFeat |-> 0]

UniformPre(P) == \A i \in 1..Len(P) : \A a, b \in 1..Len(P[i].rules) : P[i].rules[a].pre = P[i].rules[b].pre
\* alternative start: a fixed, hand-structured program (a constant of the model), every text over the glyphs
InitSeeded(P) == /\ prog \in P /\ text = << >> /\ phase = "text" /\ bpos = "pass"
                 /\ stream = << >> /\ slot = << >> /\ nextid = 1 /\ pass = 1 /\ cur = 1 /\ fired = 0 /\ stuck = FALSE
        /\ feats = [f \in 1..NFeat |-> 0] /\ cfeats = [f \in 1..NFeat |-> 0]

\* alternative start: fixed programs with fixed (long) texts
InitSeededTexts(P, T) == /\ prog \in P /\ text \in T /\ phase = "text" /\ bpos = "pass"
                         /\ stream = << >> /\ slot = << >> /\ nextid = 1 /\ pass = 1 /\ cur = 1 /\ fired = 0 /\ stuck = FALSE
                         /\ feats = [f \in 1..NFeat |-> 0] /\ cfeats = [f \in 1..NFeat |-> 0]

CurPass == prog[Len(prog)]
CurRule == CurPass.rules[Len(CurPass.rules)]
SetCurRule(r) == [prog EXCEPT ![Len(prog)].rules[Len(CurPass.rules)] = r]

\* ---- build steps -------------------------------------------------------------------------
NewPass(k) ==
  /\ phase = "build" /\ bpos = "pass" /\ Len(prog) < MaxPasses
  /\ (k = "sub" => \A i \in 1..Len(prog) : prog[i].kind = "sub")          \* substitution passes come first
  /\ prog' = Append(prog, [kind |-> k, rules |-> << >>])
  /\ bpos' = "rule" /\ UNCHANGED <<text, phase, stream, slot, nextid, pass, cur, fired, stuck, feats, cfeats>>

\* a rule's context: pre-context length and class sequence
NewRule(p, ctx) ==
  /\ phase = "build" /\ bpos = "rule" /\ Len(CurPass.rules) < MaxRules
  /\ Len(ctx) > p
  \* rules of one pass may have different pre-context lengths: the state table then has one start state per
  \* number of available pre-context slots (m_startStates) and shorter rules are padded with a class of all glyphs
  /\ prog' = [prog EXCEPT ![Len(prog)].rules = Append(@, [pre |-> p, ctx |-> ctx, items |-> << >>, con |-> NoCon, ret |-> 0])]
  /\ bpos' = "item" /\ UNCHANGED <<text, phase, stream, slot, nextid, pass, cur, fired, stuck, feats, cfeats>>

BodyLen(r) == Len(r.ctx) - r.pre

ItemChoices(kind, k) ==
  LET base == {NoItem}
      subst == (IF "glyph" \in Ops THEN {[NoItem EXCEPT !.op = "glyph", !.cls = c] : c \in 1..NC} ELSE {})
               \cup (IF "subs" \in Ops THEN {[NoItem EXCEPT !.op = "subs", !.cls = c] : c \in 1..NC} ELSE {})
               \cup (IF "copy" \in Ops /\ k > 1 THEN {[NoItem EXCEPT !.op = "copy", !.ref = -1]} ELSE {})
               \cup (IF "delete" \in Ops THEN {[NoItem EXCEPT !.op = "delete"]} ELSE {})
               \cup (IF "insert" \in Ops THEN {[NoItem EXCEPT !.op = "insert", !.cls = c] : c \in 1..NC} ELSE {})
               \cup {[NoItem EXCEPT !.user = 7], [NoItem EXCEPT !.user2 = 5], [NoItem EXCEPT !.op = "glyph", !.cls = 1, !.adv = 123]}
      posn == {[NoItem EXCEPT !.adv = 250], [NoItem EXCEPT !.shift = 40], [NoItem EXCEPT !.user = 3]}
              \cup (IF k > 1 THEN {[NoItem EXCEPT !.att = 30], [NoItem EXCEPT !.att = 0, !.shift = 15]} ELSE {})
              \cup (IF k > 2 THEN {[NoItem EXCEPT !.att = 20, !.attref = -2]} ELSE {})
              \cup (IF k > 3 THEN {[NoItem EXCEPT !.att = 10, !.attref = -3]} ELSE {})
      setf == {[NoItem EXCEPT !.sf = f, !.sv = v] : f \in 1..NFeat, v \in {0, 1, 3}}
  IN  base \cup setf \cup (IF kind = "sub" THEN subst ELSE posn)

AddItem(it) ==
  /\ phase = "build" /\ bpos = "item"
  /\ Len(CurRule.items) < BodyLen(CurRule)
  /\ it \in ItemChoices(CurPass.kind, Len(CurRule.items) + 1)
  \* references to neighbouring items are stream-relative here and map-relative in the engine: keep them apart
  \* from operations that change the stream inside the same rule
  /\ (it.op = "copy" \/ it.att >= 0) => \A k \in 1..Len(CurRule.items) : CurRule.items[k].op \notin {"delete", "insert"}
  \* whether a right-hand-side reference sees attribute values assigned earlier in the same rule is not fixed by
  \* the documented semantics (the engine copies glyph changes away but not attribute changes): not in the family
  /\ (it.op = "copy") => LET p == CurRule.items[Len(CurRule.items)] IN p.adv < 0 /\ p.user < 0 /\ p.user2 < 0 /\ p.shift < 0
  /\ prog' = SetCurRule([CurRule EXCEPT !.items = Append(@, it)])
  /\ bpos' = IF Len(CurRule.items) + 1 = BodyLen(CurRule) THEN "fin" ELSE "item"
  /\ UNCHANGED <<text, phase, stream, slot, nextid, pass, cur, fired, stuck, feats, cfeats>>

\* constraint and cursor return; the cursor always ends after the position the rule fired at (progress)
FinishRule(con, ret) ==
  /\ phase = "build" /\ bpos = "fin"
  /\ con.item < BodyLen(CurRule)
  /\ ret \in {0} \cup (IF BodyLen(CurRule) >= 2 /\ \A k \in 1..BodyLen(CurRule) : CurRule.items[k].op \notin {"delete", "insert"} THEN {-1} ELSE {})
  /\ prog' = SetCurRule([CurRule EXCEPT !.con = con, !.ret = ret])
  /\ bpos' = "rule" /\ UNCHANGED <<text, phase, stream, slot, nextid, pass, cur, fired, stuck, feats, cfeats>>

EndPass == /\ phase = "build" /\ bpos = "rule" /\ CurPass.rules # << >>
           /\ bpos' = "pass" /\ UNCHANGED <<prog, text, phase, stream, slot, nextid, pass, cur, fired, stuck, feats, cfeats>>
EndProg == /\ phase = "build" /\ bpos = "pass" /\ prog # << >>
           /\ phase' = "text" /\ UNCHANGED <<prog, text, bpos, stream, slot, nextid, pass, cur, fired, stuck, feats, cfeats>>

AddGlyph(g) == /\ phase = "text" /\ Len(text) < MaxText /\ text' = Append(text, g)
               /\ UNCHANGED <<prog, phase, bpos, stream, slot, nextid, pass, cur, fired, stuck, feats, cfeats>>
ChooseFeat(f, v) == /\ phase = "text" /\ text = << >> /\ f \in 1..NFeat /\ feats[f] = 0 /\ v # 0
                    /\ feats' = [feats EXCEPT ![f] = v]
                    /\ UNCHANGED <<prog, text, phase, bpos, stream, slot, nextid, pass, cur, fired, stuck, cfeats>>
StartRun ==
  /\ phase = "text" /\ text # << >>
  /\ phase' = "run"
  /\ stream' = [i \in 1..Len(text) |-> i]
  /\ slot' = [i \in 1..Len(text) |-> [gid |-> text[i], adv |-> Adv[text[i]], user |-> 0, user2 |-> 0, shift |-> 0, par |-> 0, att |-> 0, with |-> 0]]
  /\ nextid' = Len(text) + 1 /\ pass' = 1 /\ cur' = 1 /\ fired' = 0
  /\ cfeats' = feats
  /\ UNCHANGED <<prog, text, bpos, stuck, feats>>

\* ---- run steps ----------------------------------------------------------------------------
Gid(i) == slot[stream[i]].gid
RulesOf(p) == prog[p].rules

Matches(r, i) ==
  /\ i - r.pre >= 1
  /\ i - r.pre + Len(r.ctx) - 1 <= Len(stream)
  /\ \A k \in 1..Len(r.ctx) : InClass(Gid(i - r.pre + k - 1), r.ctx[k])
ConHolds(r, i) ==
  LET s == slot[stream[i + r.con.item]] IN
  CASE r.con.kind = "none"  -> TRUE
    [] r.con.kind = "gattr" -> GAttr[s.gid] = r.con.val
    [] r.con.kind = "user"  -> s.user = r.con.val
    [] r.con.kind = "user2" -> s.user2 = r.con.val
    [] r.con.kind = "userle" -> s.user <= r.con.val         \* an ordering test (LESS_EQ): true also when both sides are equal
    [] r.con.kind = "feat"  -> cfeats[r.con.f] = r.con.val

\* precedence: longer sort key first, then earlier rule
Better(p, a, b) == Len(RulesOf(p)[a].ctx) > Len(RulesOf(p)[b].ctx) \/ (Len(RulesOf(p)[a].ctx) = Len(RulesOf(p)[b].ctx) /\ a < b)
Winner(p, i) ==
  LET cands == {ri \in 1..Len(RulesOf(p)) : Matches(RulesOf(p)[ri], i) /\ ConHolds(RulesOf(p)[ri], i)} IN
  IF cands = {} THEN 0 ELSE CHOOSE a \in cands : \A b \in cands \ {a} : Better(p, a, b)

\* apply the item actions left to right; st = [stream, slot, nextid, at] with `at` the index of the current item's slot
RECURSIVE ApplyItems(_, _, _, _)
ApplyItems(r, k, st, start) ==
  IF k > Len(r.items) THEN st
  ELSE LET it == r.items[k]
           id == st.stream[st.at]
           s0 == st.slot[id]
           \* attribute sets common to all ops (applied to the slot that stays at this position)
           \* Slot::setAttr(gr_slatAttTo): refused when the target is the slot itself, its current parent, or one of
           \* its own descendants (cycle); the attach point x is assigned in any case
           tgt == IF it.att >= 0 THEN st.stream[st.at + it.attref] ELSE 0
           Anc(x) == LET RECURSIVE A(_, _)
                         A(y, n) == IF y = 0 \/ n = 0 THEN {} ELSE {y} \cup A(st.slot[y].par, n - 1)
                     IN  A(x, Len(st.stream) + 1)
           canAtt == it.att >= 0 /\ tgt # id /\ tgt # s0.par /\ id \notin Anc(tgt)
           \* SET_FEAT: Segment::setFeature clamps to the feature's maximum value
           fs == IF it.sf > 0 THEN [st.feats EXCEPT ![it.sf] = IF it.sv > 2 THEN 2 ELSE it.sv] ELSE st.feats
           upd(s) == [s EXCEPT !.adv = IF it.adv >= 0 THEN it.adv ELSE @,
                               !.user = IF it.user >= 0 THEN it.user ELSE @,
                               !.user2 = IF it.user2 >= 0 THEN it.user2 ELSE @,
                               !.shift = IF it.shift >= 0 THEN it.shift ELSE @,
                               !.par = IF canAtt THEN tgt ELSE @,
                               !.att = IF it.att >= 0 THEN it.att ELSE @,
                               \* attaching backwards sets the "with" point to the slot's own advance in a
                               \* right-to-left pass (the attach point default is overwritten by att)
                               !.with = IF canAtt THEN (IF Rtl = 1 THEN s.adv ELSE 0) ELSE @]
       IN
       CASE it.op = "keep" ->
              ApplyItems(r, k + 1, [st EXCEPT !.slot[id] = upd(s0), !.at = st.at + 1, !.feats = fs], start)
         [] it.op = "glyph" ->
              ApplyItems(r, k + 1, [st EXCEPT !.slot[id] = upd([s0 EXCEPT !.gid = Classes[it.cls][1], !.adv = Adv[Classes[it.cls][1]]]), !.at = st.at + 1, !.feats = fs], start)
         [] it.op = "subs" ->
              LET inc == r.ctx[r.pre + k]
                  ix == IndexIn(s0.gid, inc)
                  ng == IF ix <= Len(Classes[it.cls]) THEN Classes[it.cls][ix] ELSE 0
              IN  ApplyItems(r, k + 1, [st EXCEPT !.slot[id] = upd([s0 EXCEPT !.gid = ng, !.adv = IF ng = 0 THEN 0 ELSE Adv[ng]]), !.at = st.at + 1, !.feats = fs], start)
         [] it.op = "copy" ->
              \* right-hand-side references denote the INPUT slot (the engine works on a temporary copy of a slot
              \* that is changed and referenced later): take the source from the state before the rule fired
              LET src == slot[stream[start + (k - 1) + it.ref]] IN
              ApplyItems(r, k + 1, [st EXCEPT !.slot[id] = upd([s0 EXCEPT !.gid = src.gid, !.adv = src.adv, !.user = src.user, !.user2 = src.user2, !.shift = src.shift]), !.at = st.at + 1, !.feats = fs], start)
         [] it.op = "delete" ->      \* the slot leaves the stream; what was attached to it becomes a base again (opcode delete_)
              ApplyItems(r, k + 1, [st EXCEPT !.stream = SubSeq(st.stream, 1, st.at - 1) \o SubSeq(st.stream, st.at + 1, Len(st.stream)),
                                              !.slot = [j \in DOMAIN st.slot |-> IF st.slot[j].par = id THEN [st.slot[j] EXCEPT !.par = 0] ELSE st.slot[j]],
                                              !.feats = fs], start)
         [] it.op = "insert" ->      \* a new slot before this item, then the item itself is kept
              LET nid == st.nextid
                  g == Classes[it.cls][1]
                  ns == [gid |-> g, adv |-> Adv[g], user |-> 0, user2 |-> 0, shift |-> 0, par |-> 0, att |-> 0, with |-> 0]
              IN  ApplyItems(r, k + 1, [stream |-> SubSeq(st.stream, 1, st.at - 1) \o <<nid>> \o SubSeq(st.stream, st.at, Len(st.stream)),
                                        slot |-> [j \in DOMAIN st.slot \cup {nid} |-> IF j = nid THEN ns ELSE IF j = id THEN upd(s0) ELSE st.slot[j]],
                                        nextid |-> nid + 1, at |-> st.at + 2, feats |-> fs], start)

StepRun ==
  /\ phase = "run" /\ pass <= Len(prog) /\ cur <= Len(stream)
  /\ LET w == Winner(pass, cur) IN
     IF w = 0 THEN cur' = cur + 1 /\ UNCHANGED <<stream, slot, nextid, fired, cfeats>>
     ELSE LET r == RulesOf(pass)[w]
              st == ApplyItems(r, 1, [stream |-> stream, slot |-> slot, nextid |-> nextid, at |-> cur, feats |-> cfeats], cur)
          IN  /\ stream' = st.stream /\ slot' = st.slot /\ nextid' = st.nextid
              /\ cur' = st.at + r.ret /\ fired' = fired + 1 /\ cfeats' = st.feats
  /\ UNCHANGED <<prog, text, phase, bpos, pass, stuck, feats>>
NextPass ==
  /\ phase = "run" /\ pass <= Len(prog) /\ cur > Len(stream)
  /\ pass' = pass + 1 /\ cur' = 1
  /\ UNCHANGED <<prog, text, phase, bpos, stream, slot, nextid, fired, stuck, feats, cfeats>>
Finish ==
  /\ phase = "run" /\ pass > Len(prog)
  /\ phase' = "done"
  /\ UNCHANGED <<prog, text, bpos, stream, slot, nextid, pass, cur, fired, stuck, feats, cfeats>>
Done == phase = "done" /\ UNCHANGED vars

CtxChoices == UNION {[1..n -> 1..NC] : n \in 1..MaxLen}
ConChoices == {NoCon} \cup {[kind |-> "gattr", item |-> j, val |-> v, f |-> 0] : j \in 0..1, v \in {0, 1}}
                      \cup {[kind |-> "user", item |-> j, val |-> v, f |-> 0] : j \in 0..1, v \in {0, 7}}
                      \cup {[kind |-> "user2", item |-> j, val |-> v, f |-> 0] : j \in 0..1, v \in {0, 5}}
                      \cup {[kind |-> "feat", item |-> 0, val |-> v, f |-> f] : f \in 1..NFeat, v \in {0, 1, 2}}

Next == \/ \E k \in {"sub", "pos"} : NewPass(k)
        \/ \E p \in 0..1, ctx \in CtxChoices : NewRule(p, ctx)
        \/ \E it \in ItemChoices("sub", 4) \cup ItemChoices("pos", 4) : AddItem(it)
        \/ \E con \in ConChoices, ret \in {0, -1} : FinishRule(con, ret)
        \/ EndPass \/ EndProg
        \/ \E g \in 1..NG : AddGlyph(g)
        \/ \E f \in 1..NFeat, v \in {1, 2} : ChooseFeat(f, v)
        \/ StartRun \/ StepRun \/ NextPass \/ Finish
Spec == Init /\ [][Next]_vars /\ WF_vars(StepRun \/ NextPass \/ Finish)

(***************************************************************************)
(* Positions (design units): Segment::positionSlots / Slot::finalise for   *)
(* bases and single-level attachments, left-to-right or right-to-left.     *)
(***************************************************************************)
IsBase(id) == slot[id].par = 0
InStream(id) == \E i \in 1..Len(stream) : stream[i] = id
ChildrenOf(id) == {c \in DOMAIN slot : slot[c].par = id /\ InStream(c)}
Sgn == IF Rtl = 1 THEN -1 ELSE 1
MaxOf(S) == CHOOSE x \in S : \A y \in S : y <= x
MinOf(S) == CHOOSE x \in S : \A y \in S : x <= y
Merge(f, g) == [c \in DOMAIN f \cup DOMAIN g |-> IF c \in DOMAIN g THEN g[c] ELSE f[c]]

\* Slot::finalise for an attached slot: bx = position of its parent.  [res, cmins, pos]
RECURSIVE Sub(_, _)
Sub(id, bx) ==
  LET s == slot[id]
      px == bx + Sgn * s.shift + (s.att - s.with)
      own == IF s.adv >= 1 THEN px + s.adv - Sgn * s.shift ELSE 0
      kids == {Sub(c, px) : c \in ChildrenOf(id)}
      kres == {k.res : k \in kids}
      kpos == [c \in UNION {DOMAIN k.pos : k \in kids} |-> (CHOOSE k \in kids : c \in DOMAIN k.pos).pos[c]]
  IN  [res |-> IF s.adv >= 1 THEN MaxOf({own} \cup kres) ELSE own,
       cmins |-> (IF s.adv >= 1 \/ px < 0 THEN {px} ELSE {}) \cup UNION {k.cmins : k \in kids},
       pos |-> Merge(kpos, [c \in {id} |-> px])]

\* Slot::finalise for a base at cursor bx: positions of the whole cluster and the next cursor
ClusterOf(id, bx) ==
  LET s == slot[id]
      px == bx + Sgn * s.shift
      kids == {Sub(c, px) : c \in ChildrenOf(id)}
      kpos == [c \in UNION {DOMAIN k.pos : k \in kids} |-> (CHOOSE k \in kids : c \in DOMAIN k.pos).pos[c]]
      res0 == MaxOf({bx + s.adv} \cup {k.res : k \in kids})
      cmin == MinOf({px} \cup UNION {k.cmins : k \in kids})
      adj == IF cmin < bx THEN px - cmin ELSE 0
      all == Merge(kpos, [c \in {id} |-> px])
  IN  [pos |-> [c \in DOMAIN all |-> all[c] + adj], next |-> res0 + adj]

RECURSIVE Layout(_, _, _)
Layout(order, k, acc) ==      \* order: stream ids in positioning order; acc = [x, pos]
  IF k > Len(order) THEN acc
  ELSE IF ~IsBase(order[k]) THEN Layout(order, k + 1, acc)
  ELSE LET cl == ClusterOf(order[k], acc.x) IN
       Layout(order, k + 1, [x |-> cl.next, pos |-> Merge(acc.pos, cl.pos)])

Reverse(s) == [i \in 1..Len(s) |-> s[Len(s) + 1 - i]]
Positions == Layout(IF Rtl = 1 THEN Reverse(stream) ELSE stream, 1, [x |-> 0, pos |-> << >>])

(***************************************************************************)
(* Properties of the reference itself                                      *)
(***************************************************************************)
\* every run step makes progress: the cursor ends beyond the position it fired at
TypeOK == /\ phase \in {"build", "text", "run", "done"}
          /\ phase = "run" => cur >= 1
StreamOK == phase \in {"run", "done"} =>
              /\ \A i, j \in 1..Len(stream) : i # j => stream[i] # stream[j]
              /\ \A i \in 1..Len(stream) : stream[i] \in DOMAIN slot
              /\ \A i \in 1..Len(stream) : slot[stream[i]].par = 0 \/ \E j \in 1..Len(stream) : stream[j] = slot[stream[i]].par
\* Pass-skip bits (glyph attribute aPassBits, Segment::passBits, Silf::runGraphite): a glyph carries bit p when no rule of
\* pass p names a class it belongs to, and a pass is left out when every glyph the segment has held carries its bit.
\* Sound because such a pass has no winner anywhere: running it is a sequence of cursor advances.
Mentioned(p) == {g \in 1..NG : \E ri \in 1..Len(RulesOf(p)) : \E k \in 1..Len(RulesOf(p)[ri].ctx) : InClass(g, RulesOf(p)[ri].ctx[k])}
SkipSound == phase = "run" =>
               \A p \in 1..Len(prog) : (\A i \in 1..Len(stream) : Gid(i) \notin Mentioned(p)) => \A i \in 1..Len(stream) : Winner(p, i) = 0
Terminates == <>(phase = "done" \/ phase \in {"build", "text"})

Out == [i \in 1..Len(stream) |->
          LET s == slot[stream[i]] IN
          [gid |-> s.gid, adv |-> s.adv, user |-> s.user, user2 |-> s.user2, shift |-> s.shift,
           par |-> IF s.par = 0 THEN 0 ELSE CHOOSE j \in 1..Len(stream) : stream[j] = s.par,
           x |-> Positions.pos[stream[i]]]]
CaseRecord == [prog |-> prog, text |-> text, feats |-> feats, rtl |-> Rtl, out |-> Out, advance |-> Positions.x, fired |-> fired]
EmitDone == (Emit /\ phase = "done") => CSVWrite("%1$s", <<ToJson(CaseRecord)>>, IOEnv.OUT)
=============================================================================
