SPECIFICATION Spec
CONSTANTS
  MaxLen = 5
  Fixed = FALSE
  Emit = FALSE
INVARIANTS StrOk TagOk PadEq EmitDone
