SPECIFICATION Spec
CONSTANTS
  Blocks <- BlocksSmall
  Mutate = TRUE
  Emit = TRUE
INVARIANTS ReadsInBounds WritesInBounds ExactWhenAccepted AcceptsConforming EmitDone
