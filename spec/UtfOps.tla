------------------------------- MODULE UtfOps -------------------------------
(***************************************************************************)
(* UTF-8/16/32 ingestion of graphite2 (src/inc/UtfCodec.h,                 *)
(* gr_count_unicode_characters and process_utf_data).                      *)
(*                                                                         *)
(* Two layers in one module:                                               *)
(*  - a DECLARATIVE layer: well-formedness exactly as Unicode Table 3-7    *)
(*    (UTF-8), D91 (UTF-16), D90 (UTF-32); this is the oracle of C11/C12;  *)
(*  - an IMPLEMENTATION-SHAPED layer transcribing sz_lut/mask_lut, the     *)
(*    fall-through switch, validate() and the two counting loops, with a   *)
(*    ghost set of the indices read.                                       *)
(* The state machine runs the implementation-shaped counter over a buffer  *)
(* chosen in Init; the invariants state the clauses of C11 against the     *)
(* declarative layer.  Terminal states are written out (Json) so that the  *)
(* harness can replay every explored buffer into the real library.         *)
(*                                                                         *)
(* Buffers are 1-based sequences of code units.  32-bit units >= 2^31 are  *)
(* represented by negative integers (TLC integers are 32 bit).             *)
(***************************************************************************)
EXTENDS Integers, Sequences, FiniteSets, TLC, Json, IOUtils, CSV

CONSTANTS Fixed          \* TRUE: model the repaired decoders (surrogates rejected; F4)

InR(x, lo, hi) == x >= lo /\ x <= hi
Abs(x) == IF x < 0 THEN -x ELSE x

(***************************************************************************)
(* Alphabets: boundary representatives of every class that Table 3-7, the  *)
(* surrogate ranges and the scalar-value limit distinguish.                *)
(***************************************************************************)
Alpha8  == {0, 1, 65, 127, 128, 143, 144, 159, 160, 191, 192, 193, 194, 223, 224, 225, 236, 237,
            238, 239, 240, 241, 243, 244, 245, 247, 248, 255}
Alpha16 == {0, 1, 65, 55295, 55296, 56319, 56320, 57343, 57344, 65533, 65535}
Alpha32 == {0, 1, 65, 55295, 55296, 57343, 57344, 65535, 65536, 1114111, 1114112, 2147483647, -2147483647 - 1, -1}
Alpha(e) == CASE e = 8 -> Alpha8 [] e = 16 -> Alpha16 [] e = 32 -> Alpha32

(***************************************************************************)
(* DECLARATIVE LAYER                                                       *)
(***************************************************************************)
Cont(b) == InR(b, 128, 191)

\* b[i+k] or -1 when that lies beyond the buffer
At(b, i, k) == IF i + k <= Len(b) /\ i + k >= 1 THEN b[i + k] ELSE -1

\* Length of the well-formed UTF-8 sequence starting at i (Table 3-7); 0 if none.
WF8Len(b, i) ==
  LET b0 == b[i] b1 == At(b, i, 1) b2 == At(b, i, 2) b3 == At(b, i, 3)
  IN  IF InR(b0, 0, 127) THEN 1
      ELSE IF InR(b0, 194, 223) /\ Cont(b1) THEN 2
      ELSE IF b0 = 224 /\ InR(b1, 160, 191) /\ Cont(b2) THEN 3
      ELSE IF (InR(b0, 225, 236) \/ InR(b0, 238, 239)) /\ Cont(b1) /\ Cont(b2) THEN 3
      ELSE IF b0 = 237 /\ InR(b1, 128, 159) /\ Cont(b2) THEN 3
      ELSE IF b0 = 240 /\ InR(b1, 144, 191) /\ Cont(b2) /\ Cont(b3) THEN 4
      ELSE IF InR(b0, 241, 243) /\ Cont(b1) /\ Cont(b2) /\ Cont(b3) THEN 4
      ELSE IF b0 = 244 /\ InR(b1, 128, 143) /\ Cont(b2) /\ Cont(b3) THEN 4
      ELSE 0

WF8Val(b, i) ==
  LET n == WF8Len(b, i) IN
  CASE n = 1 -> b[i]
    [] n = 2 -> (b[i] - 192) * 64 + (b[i+1] - 128)
    [] n = 3 -> (b[i] - 224) * 4096 + (b[i+1] - 128) * 64 + (b[i+2] - 128)
    [] n = 4 -> (b[i] - 240) * 262144 + (b[i+1] - 128) * 4096 + (b[i+2] - 128) * 64 + (b[i+3] - 128)
    [] OTHER -> -1

WF16Len(b, i) ==
  LET u == b[i] v == At(b, i, 1)
  IN  IF ~InR(u, 55296, 57343) THEN 1
      ELSE IF InR(u, 55296, 56319) /\ InR(v, 56320, 57343) THEN 2
      ELSE 0
WF16Val(b, i) == IF WF16Len(b, i) = 1 THEN b[i]
                 ELSE IF WF16Len(b, i) = 2 THEN 65536 + (b[i] - 55296) * 1024 + (b[i+1] - 56320) ELSE -1

WF32Len(b, i) == IF InR(b[i], 0, 55295) \/ InR(b[i], 57344, 1114111) THEN 1 ELSE 0
WF32Val(b, i) == IF WF32Len(b, i) = 1 THEN b[i] ELSE -1

WFLen(e, b, i) == CASE e = 8 -> WF8Len(b, i) [] e = 16 -> WF16Len(b, i) [] e = 32 -> WF32Len(b, i)
WFVal(e, b, i) == CASE e = 8 -> WF8Val(b, i) [] e = 16 -> WF16Val(b, i) [] e = 32 -> WF32Val(b, i)

\* The scan of the well-formed prefix: [n |-> characters, i |-> index where the scan stopped,
\* why |-> "nul" | "end" | "ill"].  The text is the part of the buffer before the first NUL.
RECURSIVE Scan(_, _, _, _)
Scan(e, b, i, n) ==
  IF i > Len(b) THEN [n |-> n, i |-> i, why |-> "end"]
  ELSE IF b[i] = 0 THEN [n |-> n, i |-> i, why |-> "nul"]
  ELSE LET l == WFLen(e, b, i) IN
       IF l = 0 THEN [n |-> n, i |-> i, why |-> "ill"]
       ELSE Scan(e, b, i + l, n + 1)

\* Most liberal reading of "the buffer ends in a truncated multi-unit sequence": some lead unit in
\* the last positions announces more units than remain and is followed only by continuation units.
DeclLen8(b0) == IF InR(b0, 192, 223) THEN 2 ELSE IF InR(b0, 224, 239) THEN 3 ELSE IF InR(b0, 240, 255) THEN 4 ELSE 1
TruncTail(e, b) ==
  LET n == Len(b) IN
  CASE e = 8  -> \E i \in 1..n : /\ i >= n - 2
                                 /\ DeclLen8(b[i]) > n - i + 1
                                 /\ \A j \in (i+1)..n : Cont(b[j])
    [] e = 16 -> n >= 1 /\ InR(b[n], 55296, 56319)
    [] e = 32 -> FALSE

(***************************************************************************)
(* IMPLEMENTATION-SHAPED LAYER                                             *)
(* Get*: [usv, l, rd] with rd = offsets (relative to i) that were read.    *)
(***************************************************************************)
SzLut(hiNibble) == IF hiNibble <= 7 THEN 1 ELSE IF hiNibble <= 11 THEN 0
                   ELSE IF hiNibble <= 13 THEN 2 ELSE IF hiNibble = 14 THEN 3 ELSE 4
MaskLut(sz) == CASE sz = 0 -> 127 [] sz = 1 -> 255 [] sz = 2 -> 63 [] sz = 3 -> 31 [] sz = 4 -> 15

\* Continuation test of the code: (*cp >> 6) != 2 ; a unit beyond the buffer (-1) is treated as
\* "not a continuation" but is still recorded as read.
IsC(x) == x >= 0 /\ x \div 64 = 2
Low6(x) == IF x < 0 THEN 0 ELSE x % 64

\* One fall-through stage of the switch: st = [u, l, k, go, tl]
Stage(b, i, st, thr, first) ==
  IF ~st.go THEN st
  ELSE LET x == At(b, i, st.k + 1)
           u2 == st.u * 64 + Low6(x)
       IN  IF ~IsC(x) THEN [st EXCEPT !.u = u2, !.k = st.k + 1, !.go = FALSE]
           ELSE [u |-> u2, l |-> st.l + 1, k |-> st.k + 1, go |-> TRUE,
                 tl |-> IF first THEN (u2 < thr) ELSE (st.tl \/ u2 < thr)]

Get8(b, i) ==
  LET b0 == b[i]
      sz == SzLut(b0 \div 16)
      u0 == LET m == MaskLut(sz) IN b0 % (m + 1)     \* masks are 2^k - 1
      s0 == [u |-> u0, l |-> 1, k |-> 0, go |-> TRUE, tl |-> FALSE]
      s4 == IF sz = 4 THEN Stage(b, i, s0, 16, TRUE) ELSE s0
      s3 == IF sz >= 3 THEN Stage(b, i, s4, 32, FALSE) ELSE s4
      s2 == IF sz >= 2 THEN Stage(b, i, s3, 128, FALSE) ELSE s3
      bad == s2.l # sz \/ s2.tl \/ s2.u >= 1114112 \/ (Fixed /\ InR(s2.u, 55296, 57343))
  IN  IF sz = 0 THEN [usv |-> 65533, l |-> -1, rd |-> {0}]
      ELSE IF bad THEN [usv |-> 65533, l |-> -(s2.l), rd |-> 0..s2.k]
      ELSE [usv |-> s2.u, l |-> s2.l, rd |-> 0..s2.k]

Get16(b, i) ==
  LET uh == b[i] ul == At(b, i, 1) IN
  IF uh < 55296 \/ uh > 57343 THEN [usv |-> uh, l |-> 1, rd |-> {0}]
  ELSE IF uh > 56319 THEN [usv |-> 65533, l |-> -1, rd |-> {0}]
  ELSE IF ul < 56320 \/ ul > 57343 THEN [usv |-> 65533, l |-> -1, rd |-> {0, 1}]
  ELSE [usv |-> 65536 + (uh - 55296) * 1024 + (ul - 56320), l |-> 2, rd |-> {0, 1}]

Get32(b, i) ==
  LET u == b[i] IN     \* unsigned compare cp[0] < 0x110000 : negative = >= 2^31
  IF u >= 0 /\ u < 1114112 /\ ~(Fixed /\ InR(u, 55296, 57343)) THEN [usv |-> u, l |-> 1, rd |-> {0}]
  ELSE [usv |-> 65533, l |-> -1, rd |-> {0}]

Get(e, b, i) == CASE e = 8 -> Get8(b, i) [] e = 16 -> Get16(b, i) [] e = 32 -> Get32(b, i)

\* validate(s, e): [ok, rd] with rd = absolute indices read
Validate8(b) ==
  LET n == Len(b) IN
  IF n = 0 THEN [ok |-> TRUE, rd |-> {}]
  ELSE IF b[n] < 128 THEN [ok |-> TRUE, rd |-> {n}]
  ELSE IF b[n] >= 192 THEN [ok |-> FALSE, rd |-> {n}]
  ELSE IF n = 1 THEN [ok |-> TRUE, rd |-> {n}]
  ELSE IF b[n-1] < 128 THEN [ok |-> TRUE, rd |-> {n, n-1}]
  ELSE IF b[n-1] >= 224 THEN [ok |-> FALSE, rd |-> {n, n-1}]
  ELSE IF n = 2 \/ b[n-1] >= 192 THEN [ok |-> TRUE, rd |-> {n, n-1}]
  ELSE IF b[n-2] < 128 THEN [ok |-> TRUE, rd |-> {n, n-1, n-2}]
  ELSE IF b[n-2] >= 240 THEN [ok |-> FALSE, rd |-> {n, n-1, n-2}]
  ELSE [ok |-> TRUE, rd |-> {n, n-1, n-2}]
Validate16(b) ==
  LET n == Len(b) IN
  IF n = 0 THEN [ok |-> TRUE, rd |-> {}]
  ELSE [ok |-> (b[n] < 55296 \/ b[n] > 56319), rd |-> {n}]
Validate32(b) == [ok |-> TRUE, rd |-> {}]
Validate(e, b) == CASE e = 8 -> Validate8(b) [] e = 16 -> Validate16(b) [] e = 32 -> Validate32(b)

RECURSIVE SeqsUpTo(_, _)
SeqsUpTo(S, k) == IF k = 0 THEN {<< >>}
                  ELSE LET P == SeqsUpTo(S, k - 1) IN P \cup {Append(s, x) : s \in {p \in P : Len(p) = k - 1}, x \in S}

(***************************************************************************)
(* Declarative encoder (used for the encoding-equivalence clause and for   *)
(* labels).  EncodeOne(e, usv) is the unique well-formed encoding.         *)
(***************************************************************************)
EncodeOne(e, u) ==
  CASE e = 32 -> <<u>>
    [] e = 16 -> IF u < 65536 THEN <<u>> ELSE <<55296 + ((u - 65536) \div 1024), 56320 + ((u - 65536) % 1024)>>
    [] e = 8  -> IF u < 128 THEN <<u>>
                 ELSE IF u < 2048 THEN <<192 + (u \div 64), 128 + (u % 64)>>
                 ELSE IF u < 65536 THEN <<224 + (u \div 4096), 128 + ((u \div 64) % 64), 128 + (u % 64)>>
                 ELSE <<240 + (u \div 262144), 128 + ((u \div 4096) % 64), 128 + ((u \div 64) % 64), 128 + (u % 64)>>
=============================================================================
