---------------------------- MODULE ReverseSlots ----------------------------
(***************************************************************************)
(* Segment::reverseSlots (src/Segment.cpp), pointer by pointer.  The slot   *)
(* stream is reversed in place whenever a pass (or the final positioning,   *)
(* or gr_seg_justify) runs against the direction the stream is in; slots    *)
(* of bidi class 16 (non-spacing marks) keep following their base:          *)
(*                                                                         *)
(*     M0 [B1 M1..] [B2 M2..] ... [Bk Mk..]  becomes  M0 [Bk Mk..] ... [B1 M1..] *)
(*                                                                         *)
(* where M0 is the run of marks in front of the first base (left where it   *)
(* is).  The chain-integrity clauses of C03 (next / prev inverse, every     *)
(* slot exactly once, the walk ends at the last slot) and of C19 rest on    *)
(* this routine for every segment whose direction differs from its font's.  *)
(*                                                                         *)
(* TLC runs the routine on every sequence of bases and marks up to MaxLen    *)
(* and compares the pointer structure it leaves with the sequence above;    *)
(* the same sequences are replayed on the real engine (a synthesised font   *)
(* whose glyph m has bidi class 16, shaped against the font's direction).   *)
(***************************************************************************)
EXTENDS Integers, Sequences, FiniteSets, TLC, Json, IOUtils, CSV

CONSTANTS MaxLen,     \* longest stream explored
          Emit,
          KeepLast    \* TRUE: as the code is; FALSE (negative control): the routine forgets that a run of marks moved to
                      \* the end of the stream becomes the new tail

VARIABLES seq,        \* the stream: sequence over {"b", "m"}
          done
vars == <<seq, done>>

IsMark(s, i) == s[i] = "m"

(***************************************************************************)
(* The routine on an explicit pointer structure.  Slots are 1..n in stream  *)
(* order, 0 = NULL.  State of the loop: nxt, prv, curr, out, tlast.         *)
(***************************************************************************)
Nxt0(n) == [i \in 0..n |-> IF i >= 1 /\ i < n THEN i + 1 ELSE 0]
Prv0(n) == [i \in 0..n |-> IF i >= 2 THEN i - 1 ELSE 0]

\* first non-mark at or after i following nxt (0 if none)
RECURSIVE SkipMarks(_, _, _, _)
SkipMarks(s, nx, i, fuel) == IF i = 0 \/ fuel = 0 THEN 0 ELSE IF ~IsMark(s, i) THEN i ELSE SkipMarks(s, nx, nx[i], fuel - 1)

RECURSIVE Loop(_, _, _, _, _, _, _, _)
Loop(s, nx, pv, curr, out, tlast, mlast, fuel) ==
  IF curr = 0 \/ fuel = 0 THEN [nxt |-> nx, prv |-> pv, out |-> out, tlast |-> tlast, ok |-> curr = 0]
  ELSE IF IsMark(s, curr)
       THEN \* a run of marks: it is moved, as a block, behind `out` (the base just placed)
            LET after == SkipMarks(s, nx, nx[curr], Len(s) + 1)
                d == IF after # 0 THEN pv[after] ELSE mlast           \* last mark of the run
                p == nx[out]                                           \* what followed the base so far
                pv1 == IF p # 0 THEN [pv EXCEPT ![p] = d] ELSE pv
                tl1 == IF p # 0 \/ ~KeepLast THEN tlast ELSE d
                t == nx[d]
                nx1 == [nx EXCEPT ![d] = p]
                pv2 == [pv1 EXCEPT ![curr] = out]
                nx2 == [nx1 EXCEPT ![out] = curr]
            IN  Loop(s, nx2, pv2, t, out, tl1, mlast, fuel - 1)
       ELSE LET pv1 == IF out # 0 THEN [pv EXCEPT ![out] = curr] ELSE pv
                t == nx[curr]
                nx1 == [nx EXCEPT ![curr] = out]
            IN  Loop(s, nx1, pv1, t, curr, tlast, mlast, fuel - 1)

\* the whole routine: [nxt, prv, first, last, ok]
Run(s) ==
  LET n == Len(s) IN
  IF n <= 1 THEN [nxt |-> Nxt0(n), prv |-> Prv0(n), first |-> IF n = 0 THEN 0 ELSE 1, last |-> n, ok |-> TRUE]
  ELSE LET c0 == SkipMarks(s, Nxt0(n), 1, n + 1) IN
       IF c0 = 0 THEN [nxt |-> Nxt0(n), prv |-> Prv0(n), first |-> 1, last |-> n, ok |-> TRUE]       \* marks only
       ELSE LET tfirst == Prv0(n)[c0]
                r == Loop(s, Nxt0(n), Prv0(n), c0, 0, c0, n, n + 2)
                pv3 == [r.prv EXCEPT ![r.out] = tfirst]
                nx3 == IF tfirst # 0 THEN [r.nxt EXCEPT ![tfirst] = r.out] ELSE r.nxt
            IN  [nxt |-> nx3, prv |-> pv3, first |-> IF tfirst # 0 THEN 1 ELSE r.out, last |-> r.tlast, ok |-> r.ok]

\* the stream as the client walks it afterwards
RECURSIVE WalkF(_, _, _)
WalkF(nx, i, fuel) == IF i = 0 \/ fuel = 0 THEN << >> ELSE <<i>> \o WalkF(nx, nx[i], fuel - 1)
RECURSIVE WalkB(_, _, _)
WalkB(pv, i, fuel) == IF i = 0 \/ fuel = 0 THEN << >> ELSE WalkB(pv, pv[i], fuel - 1) \o <<i>>

(***************************************************************************)
(* What it has to compute                                                  *)
(***************************************************************************)
\* clusters: maximal runs of a base and the marks behind it (after the leading marks), as sequences of slot numbers
RECURSIVE Clusters(_, _, _)
Clusters(s, i, acc) ==
  IF i > Len(s) THEN acc
  ELSE IF IsMark(s, i) /\ acc # << >> THEN Clusters(s, i + 1, [acc EXCEPT ![Len(acc)] = Append(@, i)])
  ELSE Clusters(s, i + 1, Append(acc, <<i>>))
Lead(s) == LET f == SkipMarks(s, Nxt0(Len(s)), IF Len(s) = 0 THEN 0 ELSE 1, Len(s) + 1) IN IF f = 0 THEN Len(s) ELSE f - 1
RECURSIVE Flat(_, _)
Flat(cs, k) == IF k = 0 THEN << >> ELSE cs[k] \o Flat(cs, k - 1)
Expected(s) ==
  LET l == Lead(s)
      cs == Clusters(SubSeq(s, l + 1, Len(s)), 1, << >>)
      shifted == [k \in 1..Len(cs) |-> [j \in 1..Len(cs[k]) |-> cs[k][j] + l]]
  IN  [i \in 1..l |-> i] \o Flat(shifted, Len(shifted))

Init == seq = << >> /\ done = FALSE
Grow(c) == ~done /\ Len(seq) < MaxLen /\ seq' = Append(seq, c) /\ done' = FALSE
Finish == ~done /\ done' = TRUE /\ UNCHANGED seq
Next == (\E c \in {"b", "m"} : Grow(c)) \/ Finish \/ (done /\ UNCHANGED vars)
Spec == Init /\ [][Next]_vars

(***************************************************************************)
(* Properties                                                              *)
(***************************************************************************)
Result == Run(seq)
\* the routine terminates and leaves a doubly linked chain from first to last holding every slot once, in the expected order
Correct == done => LET r == Result n == Len(seq) IN
                   /\ r.ok
                   /\ WalkF(r.nxt, r.first, n + 1) = Expected(seq)
                   /\ WalkB(r.prv, r.last, n + 1) = Expected(seq)
\* reversing twice gives the stream back (what positionSlots and gr_seg_justify rely on)
Involution == done => LET e == Expected(seq)
                          s2 == [i \in 1..Len(seq) |-> seq[e[i]]]
                          e2 == Expected(s2)
                      IN  [i \in 1..Len(seq) |-> e[e2[i]]] = [i \in 1..Len(seq) |-> i]
CaseRecord == [seq |-> seq, expected |-> Expected(seq)]
EmitDone == (Emit /\ done /\ Len(seq) > 0) => CSVWrite("%1$s", <<ToJson(CaseRecord)>>, IOEnv.OUT)
=============================================================================
