-------------------------------- MODULE Lz4 --------------------------------
(***************************************************************************)
(* The LZ4 block decoder of graphite2 (src/Decompressor.cpp,               *)
(* src/inc/Compression.h) against the LZ4 block format.  Property C14.     *)
(*                                                                         *)
(* DECLARATIVE: a block is a list of sequences (literals, match offset,    *)
(* match length) followed by final literals; Apply gives its plaintext;    *)
(* Encode gives its bytes; Parse is the lenient byte-level reading of the  *)
(* format (token, length extensions, little-endian offset >= 1 and <= the  *)
(* bytes produced, matches may overlap, the block ends after a literal     *)
(* run).                                                                   *)
(* IMPLEMENTATION-SHAPED: lz4::decompress as a state machine, one action   *)
(* per step of its loop (read_sequence, literal copy, match copy, final    *)
(* copy), with word-granular overrun_copy and the ghost footprints `reads` *)
(* (offsets into the input) and `writes` (offsets into the output).        *)
(*                                                                         *)
(* Offsets are 0-based as in the code; TLA+ sequences are 1-based.         *)
(***************************************************************************)
EXTENDS Integers, Sequences, FiniteSets, TLC, Json, IOUtils, CSV

CONSTANTS Blocks,     \* set of structured blocks to encode (valid encodings)
          Mutate,     \* TRUE: also explore single-byte rewrites / size changes of each encoding
          Emit

MINMATCH == 4  LASTLITERALS == 5  MINCODA == 6  MINSRCSIZE == 13  WS == 8
Min(a, b) == IF a < b THEN a ELSE b
Align(p) == ((p + WS - 1) \div WS) * WS

(***************************************************************************)
(* Declarative layer                                                       *)
(***************************************************************************)
\* literal bytes are a running pattern so that misplaced copies are visible
Lit(k) == 1 + ((k * 7) % 250)
RECURSIVE LitRun(_, _)
LitRun(from, n) == IF n = 0 THEN << >> ELSE <<Lit(from)>> \o LitRun(from + 1, n - 1)

\* copy n bytes from distance d behind the end, byte by byte (overlap repeats)
RECURSIVE CopyMatch(_, _, _)
CopyMatch(out, d, n) == IF n = 0 THEN out ELSE CopyMatch(Append(out, out[Len(out) - d + 1]), d, n - 1)

\* a structured block: [seqs |-> Seq([ll, off, ml]), tail |-> final literal count]
RECURSIVE ApplySeqs(_, _, _, _)
ApplySeqs(seqs, i, out, nlit) ==
  IF i > Len(seqs) THEN [out |-> out, nlit |-> nlit]
  ELSE LET s == seqs[i]
           o1 == out \o LitRun(nlit, s.ll)
       IN  ApplySeqs(seqs, i + 1, CopyMatch(o1, s.off, s.ml), nlit + s.ll)
Apply(b) == LET r == ApplySeqs(b.seqs, 1, << >>, 0) IN r.out \o LitRun(r.nlit, b.tail)

\* length encoding: nibble + extension bytes
RECURSIVE Ext(_)
Ext(n) == IF n >= 255 THEN <<255>> \o Ext(n - 255) ELSE <<n>>
Nib(n) == IF n >= 15 THEN 15 ELSE n
ExtOf(n) == IF n >= 15 THEN Ext(n - 15) ELSE << >>

RECURSIVE EncodeSeqs(_, _, _)
EncodeSeqs(seqs, i, nlit) ==
  IF i > Len(seqs) THEN [bytes |-> << >>, nlit |-> nlit]
  ELSE LET s == seqs[i]
           m == s.ml - MINMATCH
           head == <<Nib(s.ll) * 16 + Nib(m)>> \o ExtOf(s.ll) \o LitRun(nlit, s.ll)
                   \o <<s.off % 256, s.off \div 256>> \o ExtOf(m)
           rest == EncodeSeqs(seqs, i + 1, nlit + s.ll)
       IN  [bytes |-> head \o rest.bytes, nlit |-> rest.nlit]
Encode(b) == LET r == EncodeSeqs(b.seqs, 1, 0) IN
             r.bytes \o <<Nib(b.tail) * 16>> \o ExtOf(b.tail) \o LitRun(r.nlit, b.tail)

\* the structured block is well formed: offsets point into what has been produced
RECURSIVE WfSeqs(_, _, _)
WfSeqs(seqs, i, produced) ==
  i > Len(seqs) \/ LET s == seqs[i] IN
                   /\ s.off >= 1 /\ s.off <= produced + s.ll /\ s.ml >= MINMATCH
                   /\ WfSeqs(seqs, i + 1, produced + s.ll + s.ml)
\* end-of-block rules a conforming encoder obeys (last 5 bytes are literals)
Conforming(b) == WfSeqs(b.seqs, 1, 0) /\ b.tail >= LASTLITERALS

\* lenient byte-level parse: [ok, out]
RECURSIVE ReadExt(_, _, _)
ReadExt(in, p, acc) ==       \* p 0-based; returns [v, p] or p = -1 on truncation
  IF p >= Len(in) THEN [v |-> acc, p |-> -1]
  ELSE IF in[p + 1] = 255 THEN ReadExt(in, p + 1, acc + 255) ELSE [v |-> acc + in[p + 1], p |-> p + 1]
RECURSIVE Parse(_, _, _)
Parse(in, p, out) ==
  IF p >= Len(in) THEN [ok |-> FALSE, out |-> out]           \* a block ends with a token + literals
  ELSE LET tok == in[p + 1]
           l0  == tok \div 16
           le  == IF l0 = 15 THEN ReadExt(in, p + 1, 15) ELSE [v |-> l0, p |-> p + 1]
       IN  IF le.p < 0 \/ le.p + le.v > Len(in) THEN [ok |-> FALSE, out |-> out]
           ELSE LET o1 == out \o SubSeq(in, le.p + 1, le.p + le.v)
                    q  == le.p + le.v
                IN  IF q = Len(in) THEN [ok |-> TRUE, out |-> o1]
                    ELSE IF q + 2 > Len(in) THEN [ok |-> FALSE, out |-> o1]
                    ELSE LET off == in[q + 1] + 256 * in[q + 2]
                             m0  == tok % 16
                             me  == IF m0 = 15 THEN ReadExt(in, q + 2, 15) ELSE [v |-> m0, p |-> q + 2]
                         IN  IF me.p < 0 \/ off = 0 \/ off > Len(o1) THEN [ok |-> FALSE, out |-> o1]
                             ELSE Parse(in, me.p, CopyMatch(o1, off, me.v + MINMATCH))

(***************************************************************************)
(* Implementation-shaped decoder                                           *)
(***************************************************************************)
VARIABLES blk,        \* the structured block this behaviour started from
          in,         \* input bytes
          osize,      \* announced output size (out_size argument)
          pc, src, dst, left,      \* left = remaining out_size
          lit, litlen, mlen, mdist,
          out,        \* output buffer as a function 0..osize-1 -> byte (-1 = never written)
          reads, writes, result
vars == <<blk, in, osize, pc, src, dst, left, lit, litlen, mlen, mdist, out, reads, writes, result>>

At(p) == IF p >= 0 /\ p < Len(in) THEN in[p + 1] ELSE 0        \* out-of-range reads are recorded in `reads`

\* read_literal(s, e, l): returns [v, s, rd]
RECURSIVE RdLit(_, _, _, _)
RdLit(s, e, l, rd) ==     \* do { l += b = *s++; } while (b == 0xff && s != e)
  LET b == At(s) IN
  IF b = 255 /\ s + 1 # e THEN RdLit(s + 1, e, l + 255, rd \cup {s}) ELSE [v |-> l + b, s |-> s + 1, rd |-> rd \cup {s}]
ReadLiteral(s, e, l) == IF l = 15 /\ s # e THEN RdLit(s, e, l, {}) ELSE [v |-> l, s |-> s, rd |-> {}]

Mutations(bytes) ==
  IF ~Mutate THEN {}
  ELSE {[bytes EXCEPT ![k] = v] : k \in 1..Min(Len(bytes), 40), v \in {0, 1, 15, 16, 240, 255}} \ {bytes}

Init ==
  /\ blk \in Blocks
  /\ \E enc \in {Encode(blk)} \cup Mutations(Encode(blk)) :
       /\ in = enc
       \* announced sizes around the true one; for the unchanged encoding also every size down to 8 below it (a literal run
       \* or a match that ends a few bytes before the announced end: the word-at-a-time copies must still stay inside)
       /\ osize \in (IF Mutate THEN (IF enc = Encode(blk) THEN (Len(Apply(blk)) - 8)..(Len(Apply(blk)) + 1)
                                                          ELSE {Len(Apply(blk)) - 1, Len(Apply(blk)), Len(Apply(blk)) + 1})
                               ELSE {Len(Apply(blk))}) \cap (1..100000)
  /\ pc = "start" /\ src = 0 /\ dst = 0 /\ left = osize
  /\ lit = 0 /\ litlen = 0 /\ mlen = 0 /\ mdist = 0
  /\ out = [k \in 0..(osize - 1) |-> -1]
  /\ reads = {} /\ writes = {} /\ result = -2

Fail == pc' = "done" /\ result' = -1
Keep == UNCHANGED <<blk, in, osize>>

Start ==
  /\ pc = "start"
  /\ IF osize <= Len(in) \/ Len(in) < MINSRCSIZE THEN Fail ELSE pc' = "readseq" /\ UNCHANGED result
  /\ UNCHANGED <<src, dst, left, lit, litlen, mlen, mdist, out, reads, writes>> /\ Keep

\* read_sequence
ReadSeq ==
  /\ pc = "readseq"
  /\ LET end == Len(in)
         tok == At(src)
         l   == ReadLiteral(src + 1, end, tok \div 16)
         s2  == l.s + l.v
     IN  /\ lit' = l.s /\ litlen' = l.v
         /\ IF s2 > end - 2 \/ s2 < l.s
            THEN /\ pc' = "final" /\ src' = s2 /\ reads' = reads \cup {src} \cup l.rd
                 /\ UNCHANGED <<mlen, mdist>>
            ELSE LET d == At(s2) + 256 * At(s2 + 1)
                     m == ReadLiteral(s2 + 2, end, tok % 16)
                 IN  /\ mdist' = d /\ mlen' = m.v + MINMATCH /\ src' = m.s
                     /\ reads' = reads \cup {src, s2, s2 + 1} \cup l.rd \cup m.rd
                     /\ pc' = IF m.s <= end - MINCODA THEN "literal" ELSE "final"
  /\ UNCHANGED <<dst, left, out, writes, result>> /\ Keep

\* overrun_copy(d, s, n): whole words; returns the footprints
Words(n) == IF n = 0 THEN 1 ELSE (n + WS - 1) \div WS          \* do-while: at least one word

CopyLiteral ==
  /\ pc = "literal"
  /\ IF litlen = 0 THEN pc' = "match" /\ UNCHANGED <<dst, left, out, reads, writes, result>>
     ELSE IF Align(litlen) > left THEN Fail /\ UNCHANGED <<dst, left, out, reads, writes>>
     ELSE LET w == Words(litlen) * WS IN
          /\ reads' = reads \cup {lit + k : k \in 0..(w - 1)}
          /\ writes' = writes \cup {dst + k : k \in 0..(w - 1)}
          /\ out' = [k \in DOMAIN out |-> IF k >= dst /\ k < dst + w THEN At(lit + (k - dst)) ELSE out[k]]
          /\ dst' = dst + litlen /\ left' = left - litlen /\ pc' = "match" /\ UNCHANGED result
  /\ UNCHANGED <<src, lit, litlen, mlen, mdist>> /\ Keep

\* byte-by-byte copy inside the output (safe_copy), used to define both match copies
RECURSIVE ByteCopy(_, _, _, _)
ByteCopy(o, d, s, n) == IF n = 0 THEN o ELSE ByteCopy([o EXCEPT ![d] = IF s >= 0 /\ s \in DOMAIN o THEN o[s] ELSE -1], d + 1, s + 1, n - 1)
\* word copy: each word is read completely before it is written (memcpy of 8 bytes)
RECURSIVE WordCopy(_, _, _, _)
WordCopy(o, d, s, nw) ==
  IF nw = 0 THEN o
  ELSE LET o2 == [k \in DOMAIN o |-> IF k >= d /\ k < d + WS THEN (IF (s + (k - d)) \in DOMAIN o THEN o[s + (k - d)] ELSE -1) ELSE o[k]]
       IN  WordCopy(o2, d + WS, s + WS, nw - 1)

CopyMatch_ ==
  /\ pc = "match"
  /\ LET pcpy == dst - mdist IN
     IF pcpy < 0 \/ mlen > left - LASTLITERALS \/ left < LASTLITERALS \/ pcpy >= dst
     THEN Fail /\ UNCHANGED <<dst, left, out, writes>>
     ELSE IF dst > pcpy + WS /\ Align(mlen) <= left
          THEN LET nw == Words(mlen) IN
               /\ out' = WordCopy(out, dst, pcpy, nw)
               /\ writes' = writes \cup {dst + k : k \in 0..(nw * WS - 1)}
               /\ dst' = dst + mlen /\ left' = left - mlen /\ pc' = "readseq" /\ UNCHANGED result
          ELSE /\ out' = ByteCopy(out, dst, pcpy, mlen)
               /\ writes' = writes \cup {dst + k : k \in 0..(mlen - 1)}
               /\ dst' = dst + mlen /\ left' = left - mlen /\ pc' = "readseq" /\ UNCHANGED result
  /\ UNCHANGED <<src, lit, litlen, mlen, mdist, reads>> /\ Keep

Final ==
  /\ pc = "final"
  /\ IF lit > Len(in) - litlen \/ litlen > left THEN Fail /\ UNCHANGED <<dst, out, reads, writes>>
     ELSE /\ reads' = reads \cup {lit + k : k \in 0..(litlen - 1)}
          /\ writes' = writes \cup {dst + k : k \in 0..(litlen - 1)}
          /\ out' = [k \in DOMAIN out |-> IF k >= dst /\ k < dst + litlen THEN At(lit + (k - dst)) ELSE out[k]]
          /\ dst' = dst + litlen /\ result' = dst + litlen /\ pc' = "done"
  /\ UNCHANGED <<src, left, lit, litlen, mlen, mdist>> /\ Keep

Done == pc = "done" /\ UNCHANGED vars
Next == Start \/ ReadSeq \/ CopyLiteral \/ CopyMatch_ \/ Final \/ Done
Spec == Init /\ [][Next]_vars /\ WF_vars(Start \/ ReadSeq \/ CopyLiteral \/ CopyMatch_ \/ Final)

(***************************************************************************)
(* Properties                                                              *)
(***************************************************************************)
ReadsInBounds  == \A r \in reads : r >= 0 /\ r < Len(in)
WritesInBounds == \A w \in writes : w >= 0 /\ w < osize
Ref == Parse(in, 0, << >>)
\* whenever the whole announced size is produced, it is exactly what the format says
ExactWhenAccepted ==
  (pc = "done" /\ result = osize) => (Ref.ok /\ Len(Ref.out) = osize /\ \A k \in 0..(osize - 1) : out[k] = Ref.out[k + 1])
\* every conforming encoding that is shorter than its plaintext is accepted
AcceptsConforming ==
  (pc = "done" /\ in = Encode(blk) /\ Conforming(blk) /\ osize = Len(Apply(blk)) /\ Len(in) < osize /\ Len(in) >= MINSRCSIZE)
     => result = osize
\* sanity of the declarative layer: Parse inverts Encode
EncodeParse == Conforming(blk) => (Parse(Encode(blk), 0, << >>).ok /\ Parse(Encode(blk), 0, << >>).out = Apply(blk))
Terminates == <>(pc = "done")

CaseRecord == [in |-> in, osize |-> osize, refok |-> Ref.ok, ref |-> IF Ref.ok THEN Ref.out ELSE << >>,
               must |-> (in = Encode(blk) /\ Conforming(blk) /\ osize = Len(Apply(blk)) /\ Len(in) < osize /\ Len(in) >= MINSRCSIZE),
               mresult |-> result]
EmitDone == (Emit /\ pc = "done") => CSVWrite("%1$s", <<ToJson(CaseRecord)>>, IOEnv.OUT)
=============================================================================
