SPECIFICATION Spec
CONSTANTS
  MaxItems = 1
  Fixed = TRUE
  NulStop = FALSE
  Emit = FALSE
INVARIANTS NoReadPastNul ContractHolds CountExact BasesIncrease RoundTrip EmitDone
