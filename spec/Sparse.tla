------------------------------- MODULE Sparse -------------------------------
(***************************************************************************)
(* Glyph attribute storage: the Glat entry iterator (_glat_iterator,       *)
(* src/GlyphCache.cpp) feeding the packed sparse array (sparse::sparse,    *)
(* sparse::operator[], src/inc/Sparse.h, src/Sparse.cpp).  Property C01:   *)
(* whatever attribute runs a font declares for a glyph, building the array *)
(* writes only inside the block it allocated, and every later lookup reads *)
(* only inside it.  The module also states what the array means: a lookup  *)
(* returns the value the runs gave to that attribute number, 0 otherwise.  *)
(*                                                                         *)
(* A glyph's Glat data is a list of runs [k, <<v1..vn>>]: attribute k + j  *)
(* gets value v(j+1).  The constructor makes two passes over the resulting *)
(* (key, value) pairs: pass 1 counts non-zero values, checks that their    *)
(* keys strictly increase and finds the number of 48-key chunks; pass 2    *)
(* fills masks, chunk offsets and values.  A chunk header takes 4 value    *)
(* slots (8 bytes).                                                        *)
(***************************************************************************)
EXTENDS Integers, Sequences, FiniteSets, TLC, Json, IOUtils, CSV

CONSTANTS Keys,       \* first attribute numbers of a run
          Vals,       \* attribute values (0 = "absent")
          MaxRuns, MaxRun, Emit,
          CheckOrder  \* FALSE: negative control, pass 1 does not insist on increasing keys

CH == 48
VARIABLES runs, phase, pairs, nvalues, nchunks, valid, mask, offset, values, writes, size
vars == <<runs, phase, pairs, nvalues, nchunks, valid, mask, offset, values, writes, size>>

RECURSIVE Flatten(_, _)
Flatten(rs, i) == IF i > Len(rs) THEN << >>
                  ELSE [j \in 1..Len(rs[i].vals) |-> <<(rs[i].k + j - 1) % 65536, rs[i].vals[j]>>] \o Flatten(rs, i + 1)

Init == /\ runs = << >> /\ phase = "build" /\ pairs = << >> /\ nvalues = 0 /\ nchunks = 0 /\ valid = TRUE
        /\ mask = << >> /\ offset = << >> /\ values = << >> /\ writes = {} /\ size = 0

AddRun(k, vs) == /\ phase = "build" /\ Len(runs) < MaxRuns
                 /\ runs' = Append(runs, [k |-> k, vals |-> vs])
                 /\ UNCHANGED <<phase, pairs, nvalues, nchunks, valid, mask, offset, values, writes, size>>

\* pass 1 over the pairs with a non-zero value
RECURSIVE Count(_, _, _, _, _)
Count(ps, i, n, lastkey, nch) ==
  IF i > Len(ps) THEN [n |-> n, nch |-> nch, ok |-> TRUE]
  ELSE IF ps[i][2] = 0 THEN Count(ps, i + 1, n, lastkey, nch)
  ELSE IF CheckOrder /\ ps[i][1] <= lastkey THEN [n |-> n, nch |-> 0, ok |-> FALSE]
  ELSE LET c == ps[i][1] \div CH IN Count(ps, i + 1, n + 1, ps[i][1], IF c >= nch THEN c + 1 ELSE nch)

Pass1 == /\ phase = "build" /\ runs # << >>
         /\ LET ps == Flatten(runs, 1)
                r == Count(ps, 1, 0, -1, 0)
            IN  /\ pairs' = ps /\ nvalues' = r.n /\ nchunks' = r.nch /\ valid' = r.ok
                /\ size' = IF r.ok /\ r.nch > 0 THEN 4 * r.nch + r.n ELSE 0
                /\ phase' = IF r.ok /\ r.nch > 0 THEN "fill" ELSE "done"
                /\ mask' = [c \in 1..r.nch |-> {}] /\ offset' = [c \in 1..r.nch |-> 0] /\ values' = [w \in 1..(4 * r.nch + r.n) |-> 0]
         /\ UNCHANGED <<runs, writes>>

\* pass 2: st = [ci, vi, mask, offset, values, writes]; indices 0-based as in the code, sequences 1-based
RECURSIVE Fill(_, _, _)
Fill(ps, i, st) ==
  IF i > Len(ps) THEN st
  ELSE IF ps[i][2] = 0 THEN Fill(ps, i + 1, st)
  ELSE LET c == ps[i][1] \div CH
           moved == c # st.ci
           off2 == IF moved /\ c + 1 \in DOMAIN st.offset THEN [st.offset EXCEPT ![c + 1] = st.vi] ELSE st.offset
           m2 == IF c + 1 \in DOMAIN st.mask THEN [st.mask EXCEPT ![c + 1] = @ \cup {ps[i][1] % CH}] ELSE st.mask
           v2 == IF st.vi + 1 \in DOMAIN st.values THEN [st.values EXCEPT ![st.vi + 1] = ps[i][2]] ELSE st.values
       IN  Fill(ps, i + 1, [ci |-> c, vi |-> st.vi + 1, mask |-> m2, offset |-> off2, values |-> v2,
                            writes |-> st.writes \cup {[chunk |-> c, at |-> st.vi]}])

Pass2 == /\ phase = "fill"
         /\ LET st == Fill(pairs, 1, [ci |-> 0, vi |-> 4 * nchunks, mask |-> mask, offset |-> [offset EXCEPT ![1] = 4 * nchunks],
                                      values |-> values, writes |-> {}])
            IN  mask' = st.mask /\ offset' = st.offset /\ values' = st.values /\ writes' = st.writes
         /\ phase' = "done"
         /\ UNCHANGED <<runs, pairs, nvalues, nchunks, valid, size>>

Next == \/ \E k \in Keys, n \in 1..MaxRun : \E vs \in [1..n -> Vals] : AddRun(k, vs)
        \/ Pass1 \/ Pass2
Spec == Init /\ [][Next]_vars

(***************************************************************************)
(* Properties                                                              *)
(***************************************************************************)
\* pass 2 writes values only into the value area of the block and touches only chunk headers that exist
WritesInBounds == \A w \in writes : w.at >= 4 * nchunks /\ w.at < size /\ w.chunk >= 0 /\ w.chunk < nchunks

\* sparse::operator[]: which slot a lookup of key k reads (0 = the header word it multiplies by zero)
Below(c, b) == Cardinality({x \in mask[c + 1] : x < b})
LookupAt(k) == IF k \div CH >= nchunks THEN 0
               ELSE IF (k % CH) \in mask[k \div CH + 1] THEN offset[k \div CH + 1] + Below(k \div CH, k % CH) ELSE 0
Lookup(k) == IF LookupAt(k) = 0 THEN 0 ELSE values[LookupAt(k) + 1]
Given(k) == IF \E i \in 1..Len(pairs) : pairs[i][1] = k /\ pairs[i][2] # 0
            THEN pairs[CHOOSE i \in 1..Len(pairs) : pairs[i][1] = k /\ pairs[i][2] # 0][2] ELSE 0
Probe == {k \in 0..(CH * (nchunks + 1)) : TRUE}
LookupsInBounds == (phase = "done" /\ valid /\ nchunks > 0) => \A k \in Probe : LookupAt(k) >= 0 /\ LookupAt(k) < size
LookupsRight    == (phase = "done" /\ valid /\ nchunks > 0) => \A k \in Probe : Lookup(k) = Given(k)

CaseRecord == [runs |-> runs, valid |-> valid, nchunks |-> nchunks, nvalues |-> nvalues,
               attrs |-> [i \in 1..Len(pairs) |-> [k |-> pairs[i][1], v |-> IF valid /\ nchunks > 0 THEN Lookup(pairs[i][1]) ELSE 0]]]
EmitDone == (Emit /\ phase = "done") => CSVWrite("%1$s", <<ToJson(CaseRecord)>>, IOEnv.OUT)
=============================================================================
