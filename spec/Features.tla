------------------------------ MODULE Features ------------------------------
(***************************************************************************)
(* Feature values as an isolated, range-checked map with font defaults     *)
(* (src/FeatureMap.cpp, src/inc/FeatureVal.h, src/gr_features.cpp).  C18.  *)
(*                                                                         *)
(* ABSTRACT state: val[fv][f], a plain map from features to values.        *)
(* IMPLEMENTATION-SHAPED state: words[fv], the vector of 32-bit chunks in  *)
(* which FeatureRef's constructor packs each feature at (index, bits,      *)
(* mask) computed from the running bit offset.  A word is the set of its   *)
(* set bit positions.  The refinement invariant says the packed words      *)
(* always decode to the abstract map; the contract invariants say what the *)
(* API returns.                                                            *)
(*                                                                         *)
(* A font is a sequence of feature definitions; a definition is the        *)
(* sequence of its setting values (the first is the default), empty for a  *)
(* feature that defines no settings (any 16-bit value is then allowed).    *)
(***************************************************************************)
EXTENDS UtfOps

CONSTANTS NoWordJump,   \* TRUE: negative control - pack fields without jumping to the next word
          FeatDefs,     \* set of candidate definitions (sequences of setting values)
          MaxFeats,     \* features per font
          MaxOps,       \* operations per behaviour
          SetVals,      \* extra values tried by Set besides the boundary ones
          Emit

SetOf(s) == {s[i] : i \in 1..Len(s)}
MaxOf(S) == CHOOSE x \in S : \A y \in S : y <= x
Pow2(k) == IF k = 0 THEN 1 ELSE 2 ^ k

\* largest defined setting; -1 stands for "no settings: any 16-bit value"
MaxVal(def) == IF def = << >> THEN -1 ELSE MaxOf(SetOf(def))
Default(def) == IF def = << >> THEN 0 ELSE def[1]
Allowed(def, v) == v >= 0 /\ v <= 65535 /\ (MaxVal(def) = -1 \/ v <= MaxVal(def))

(***************************************************************************)
(* FeatureRef constructor: mask_over_val, need_bits, word jump             *)
(***************************************************************************)
\* number of bits of the smallest all-ones mask >= v  (0xffffffff for no settings)
RECURSIVE NeedBits(_)
NeedBits(v) == IF v = -1 THEN 32 ELSE IF v = 0 THEN 0 ELSE 1 + NeedBits(v \div 2)

\* layout of features 1..n: sequence of [index, bits, need]; offset is the running bits_offset
RECURSIVE Layout(_, _, _)
Layout(defs, i, offset) ==
  IF i > Len(defs) THEN << >>
  ELSE LET need  == NeedBits(MaxVal(defs[i]))
           idx   == (offset + need) \div 32
           off2  == IF idx > offset \div 32 /\ ~NoWordJump THEN idx * 32 ELSE offset
       IN  <<[index |-> IF NoWordJump THEN off2 \div 32 ELSE idx, bits |-> off2 % 32, need |-> need]>> \o Layout(defs, i + 1, off2 + need)

FieldBits(l) == {l.bits + k : k \in 0..(l.need - 1)}          \* bit positions inside word l.index

\* masked write and read on a word (= set of set bit positions)
ValBits(v, sh) == {b \in sh..(sh + 15) : (v \div Pow2(b - sh)) % 2 = 1}
WriteField(word, l, v) == (word \ FieldBits(l)) \cup (ValBits(v, l.bits) \cap FieldBits(l))
RECURSIVE SumBits(_, _)
SumBits(S, sh) == IF S = {} THEN 0 ELSE LET b == CHOOSE x \in S : TRUE IN Pow2(b - sh) + SumBits(S \ {b}, sh)
ReadField(word, l) == SumBits(word \cap FieldBits(l), l.bits)

(***************************************************************************)
(* State                                                                   *)
(***************************************************************************)
VARIABLES defs,      \* the font
          lay,       \* Layout(defs)
          val,       \* abstract: fv id -> [feature -> value]
          words,     \* implementation: fv id -> [word index -> set of bits]
          nops,      \* operations performed
          log        \* history for replay: sequence of operation records with results
vars == <<defs, lay, val, words, nops, log>>

NWords == IF lay = << >> THEN 1 ELSE MaxOf({l.index : l \in SetOf(lay)}) + 1
F == 1..Len(defs)

DefaultWords(d, l) ==
  LET nw == IF l = << >> THEN 1 ELSE MaxOf({x.index : x \in SetOf(l)}) + 1 IN
  [w \in 0..(nw - 1) |-> UNION {ValBits(Default(d[i]), l[i].bits) \cap FieldBits(l[i]) : i \in {j \in 1..Len(d) : l[j].index = w}}]

(***************************************************************************)
(* Languages (Sill) and labels (name table): deterministic functions of    *)
(* the font so that the synthesiser and the specification agree.           *)
(* Language k (1..NLangs) overrides every feature f with f % 2 = k % 2 by  *)
(* that feature's largest setting (by 7 when it defines none).             *)
(***************************************************************************)
NLangs == 2
LangOverride(k, f, def) == IF f % 2 = k % 2 THEN (IF MaxVal(def) = -1 THEN 7 ELSE MaxVal(def)) ELSE Default(def)
LabelScalars == << <<65>>, <<233, 66>>, <<20013, 128512>>, <<67, 68, 1114111>> >>     \* per feature index
RECURSIVE ConcatE(_, _, _)
ConcatE(e, us, i) == IF i > Len(us) THEN << >> ELSE EncodeOne(e, us[i]) \o ConcatE(e, us, i + 1)
LabelOf(f, e) == ConcatE(e, LabelScalars[((f - 1) % Len(LabelScalars)) + 1], 1)

Init ==
  /\ defs \in (SeqsUpTo(FeatDefs, MaxFeats) \ {<< >>})
  /\ lay = Layout(defs, 1, 0)
  /\ val = [id \in {0} |-> [f \in 1..Len(defs) |-> Default(defs[f])]]          \* fv 0 = gr_face_featureval_for_lang(face, 0)
  /\ words = [id \in {0} |-> DefaultWords(defs, Layout(defs, 1, 0))]
  /\ nops = 0 /\ log = << >>

Fvs == DOMAIN val

\* gr_fref_set_feature_value(f, v, fv)
Set(fv, f, v) ==
  /\ nops < MaxOps
  /\ LET ok == Allowed(defs[f], v) IN
     /\ val' = IF ok THEN [val EXCEPT ![fv][f] = v] ELSE val
     /\ words' = IF ok THEN [words EXCEPT ![fv][lay[f].index] = WriteField(@, lay[f], v)] ELSE words
     /\ log' = Append(log, [op |-> "set", fv |-> fv, f |-> f, v |-> v, ok |-> ok,
                            after |-> IF ok THEN [val EXCEPT ![fv][f] = v][fv] ELSE val[fv]])
  /\ nops' = nops + 1 /\ UNCHANGED <<defs, lay>>

\* gr_featureval_clone(fv)
Clone(fv) ==
  /\ nops < MaxOps /\ Cardinality(Fvs) < 3
  /\ LET id == Cardinality(Fvs) IN
     /\ val' = [i \in Fvs \cup {id} |-> IF i = id THEN val[fv] ELSE val[i]]
     /\ words' = [i \in Fvs \cup {id} |-> IF i = id THEN words[fv] ELSE words[i]]
     /\ log' = Append(log, [op |-> "clone", fv |-> fv, f |-> 0, v |-> id, ok |-> TRUE, after |-> val[fv]])
  /\ nops' = nops + 1 /\ UNCHANGED <<defs, lay>>

BoundaryVals(def) ==
  LET m == MaxVal(def) IN
  (IF m = -1 THEN {0, 1, 255, 256, 32768, 65535} ELSE {0, m, m + 1, 65535} \cup (IF m > 0 THEN {m - 1} ELSE {}))
  \cup SetVals

\* gr_face_featureval_for_lang(face, tag of language k): defaults overridden by the Sill entry
ForLang(k) ==
  /\ nops < MaxOps /\ Cardinality(Fvs) < 3
  /\ LET id == Cardinality(Fvs)
         nv == [f \in F |-> LangOverride(k, f, defs[f])]
     IN
     /\ val' = [i \in Fvs \cup {id} |-> IF i = id THEN nv ELSE val[i]]
     /\ words' = [i \in Fvs \cup {id} |->
                   IF i = id THEN [w \in DOMAIN words[0] |->
                                     UNION {ValBits(nv[f], lay[f].bits) \cap FieldBits(lay[f]) : f \in {g \in F : lay[g].index = w}}]
                   ELSE words[i]]
     /\ log' = Append(log, [op |-> "lang", fv |-> id, f |-> 0, v |-> k, ok |-> TRUE, after |-> nv])
  /\ nops' = nops + 1 /\ UNCHANGED <<defs, lay>>

Next == \/ \E k \in 1..NLangs : ForLang(k)
        \/ \E fv \in Fvs, f \in F : \E v \in {x \in BoundaryVals(defs[f]) : x >= 0 /\ x <= 65535} : Set(fv, f, v)
        \/ \E fv \in Fvs : Clone(fv)
Spec == Init /\ [][Next]_vars

(***************************************************************************)
(* Properties                                                              *)
(***************************************************************************)
\* packing: every field lies inside one word; fields of distinct features are disjoint
PackingOk ==
  /\ \A f \in F : lay[f].bits + lay[f].need <= 32
  /\ \A f, g \in F : (f # g /\ lay[f].index = lay[g].index) => FieldBits(lay[f]) \cap FieldBits(lay[g]) = {}
\* refinement: the packed words decode to the abstract map (this is what gr_fref_feature_value returns)
Refines == \A fv \in Fvs : \A f \in F : ReadField(words[fv][lay[f].index], lay[f]) = val[fv][f]
\* contract on the last operation: success iff allowed; success changes only f; failure changes nothing
LastOpOk ==
  log # << >> =>
    LET e == log[Len(log)] IN
      e.op = "set" => /\ e.ok = Allowed(defs[e.f], e.v)
                      /\ (e.ok => e.after[e.f] = e.v)
\* defaults: a fresh feature-value set holds every feature's first setting
DefaultsOk == nops = 0 => \A f \in F : val[0][f] = Default(defs[f])

CaseRecord == [defs |-> defs, layout |-> lay, log |-> log,
               langs |-> [k \in 1..NLangs |-> [f \in F |-> LangOverride(k, f, defs[f])]],
               labels |-> [f \in F |-> [u8 |-> LabelOf(f, 8), u16 |-> LabelOf(f, 16), u32 |-> LabelOf(f, 32)]]]
\* emit maximal behaviours only (operation budget used up)
EmitDone == (Emit /\ nops = MaxOps) => CSVWrite("%1$s", <<ToJson(CaseRecord)>>, IOEnv.OUT)
=============================================================================
