---------------------------- MODULE ThreadsTrace ----------------------------
(* Validation of a concurrent run against the sequential reference: the harness first records the result of every
   job on a private face (Ref), then lets the threads run freely on one shared preloaded face and unhinted font;
   every thread logs its own events with its own sequence number (no cross-thread ordering is inferred).
   Accepted iff every thread's results are the sequential ones, per-thread sequence numbers increase, and no
   table callback happened after gr_make_face returned (a Get event has no action). *)
EXTENDS Integers, Sequences, FiniteSets, TLC, Json, IOUtils

Log == ndJsonDeserialize(IOEnv.TRACE)
VARIABLES l, ref, lastseq, made
vars == <<l, ref, lastseq, made>>
Ev == Log[l]
IsEvent(e) == l <= Len(Log) /\ Ev.e = e /\ l' = l + 1

Init == l = 1 /\ ref = << >> /\ lastseq = << >> /\ made = FALSE

TRef == /\ IsEvent("Ref") /\ ~made
        /\ ref' = [k \in DOMAIN ref \cup {Ev.key} |-> IF k = Ev.key THEN Ev.h ELSE ref[k]]
        /\ UNCHANGED <<lastseq, made>>
TMade == IsEvent("MakeDone") /\ made' = TRUE /\ UNCHANGED <<ref, lastseq>>
\* a job finished in thread t: its result is the single-threaded one
TJob == /\ IsEvent("Job") /\ made
        /\ Ev.key \in DOMAIN ref /\ ref[Ev.key] = Ev.h
        /\ (Ev.t \in DOMAIN lastseq => Ev.seq > lastseq[Ev.t])
        /\ lastseq' = [t \in DOMAIN lastseq \cup {Ev.t} |-> IF t = Ev.t THEN Ev.seq ELSE lastseq[t]]
        /\ UNCHANGED <<ref, made>>
\* table callbacks are only legal while the face is being made
TGet == IsEvent("Get") /\ ~made /\ UNCHANGED <<ref, lastseq, made>>
TEnd == IsEvent("End") /\ made /\ Ev.gets_after = 0 /\ UNCHANGED <<ref, lastseq, made>>

Next == TRef \/ TMade \/ TJob \/ TGet \/ TEnd
Spec == Init /\ [][Next]_vars
Accepted == TLCGet("stats").diameter - 1 = Len(Log)
=============================================================================
