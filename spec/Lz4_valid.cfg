SPECIFICATION Spec
CONSTANTS
  Blocks <- BlocksValid
  Mutate = FALSE
  Emit = TRUE
INVARIANTS ReadsInBounds WritesInBounds ExactWhenAccepted AcceptsConforming EncodeParse EmitDone
