SPECIFICATION Spec
CONSTANTS
  N = 4
  MaxBreaks = 2
  MaxJust = 1
  Emit = FALSE
INVARIANTS Partition TypeOK
