------------------------------ MODULE PassLoop ------------------------------
(***************************************************************************)
(* The rule-search loop of one pass: Pass::runGraphite, findNDoRule,       *)
(* doAction, adjustSlot and the cursor / high-water / loop-counter         *)
(* bookkeeping done by the NEXT, INSERT and DELETE opcodes                 *)
(* (src/Pass.cpp, src/inc/opcodes.h).  Property C02: bounded work.         *)
(*                                                                         *)
(* What a rule does is abstracted to what matters for progress: a          *)
(* sequence of NEXT / INSERT / DELETE micro-operations (any sequence the   *)
(* loader can accept for a rule of the matched length) and a returned      *)
(* cursor adjustment; whether a rule fires at a position at all is         *)
(* nondeterministic.  TLC therefore explores every rule program over this  *)
(* alphabet on every stream up to the bounds, including the ones no        *)
(* compiler emits (cursor retreats, delete-everything, insert at both      *)
(* ends).                                                                  *)
(*                                                                         *)
(* IterBound: the number of iterations of the do-loop never exceeds        *)
(*      maxLoop * (slots at pass start + insert budget at pass start + 2)  *)
(* which is the formula the GRAPHITE2_VERIF hook in Pass::runGraphite      *)
(* reports against.                                                        *)
(***************************************************************************)
EXTENDS Integers, Sequences, FiniteSets, TLC

CONSTANTS N0,        \* slots at pass start
          Budget0,   \* remaining insert budget (SlotMap::decMax)
          MaxLoop,   \* the pass's maxRuleLoop
          MaxOps,    \* micro-operations per rule action
          Deltas,    \* cursor adjustments a rule may return
          LoopLimit  \* FALSE: negative control - the "--lc == 0" forced advance is removed

NULL == 0
VARIABLES stream,   \* sequence of live slot ids
          s,        \* cursor (slot id or NULL)
          hw,       \* SlotMap::highwater
          hp,       \* SlotMap::highpassed
          lc,       \* loop counter
          budget, nextid, iter, status
vars == <<stream, s, hw, hp, lc, budget, nextid, iter, status>>

Pos(q, x) == IF \E i \in 1..Len(q) : q[i] = x THEN CHOOSE i \in 1..Len(q) : q[i] = x ELSE 0
NextOf(q, x) == LET i == Pos(q, x) IN IF i = 0 \/ i = Len(q) THEN NULL ELSE q[i + 1]
PrevOf(q, x) == LET i == Pos(q, x) IN IF i <= 1 THEN NULL ELSE q[i - 1]
First(q) == IF q = << >> THEN NULL ELSE q[1]
Last(q) == IF q = << >> THEN NULL ELSE q[Len(q)]

Init == /\ stream = [i \in 1..N0 |-> i]
        /\ s = First(stream)
        /\ hw = NextOf(stream, First(stream))          \* currHigh = s->next()
        /\ hp = FALSE /\ lc = MaxLoop /\ budget = Budget0 /\ nextid = N0 + 1 /\ iter = 0
        /\ status = IF N0 = 0 THEN "done" ELSE "run"

\* ---- the action of a firing rule, as a fold over micro-operations ---------------------------
\* st = [q, is, hw, hp, budget, nextid, died, deleted]; `deleted` = ids marked deleted but still referenced by `is`
RECURSIVE Run(_, _)
Run(ops, st) ==
  IF ops = << >> \/ st.died THEN st
  ELSE LET op == Head(ops) IN
       CASE op = "next" ->
              Run(Tail(ops), IF st.is = NULL THEN st
                             ELSE [st EXCEPT !.hp = IF st.is = st.hw THEN TRUE ELSE @,
                                             !.is = IF st.is \in st.deleted THEN st.after ELSE NextOf(st.q, st.is)])
         [] op = "insert" ->
              IF st.budget <= 0 THEN [st EXCEPT !.died = TRUE]
              ELSE LET iss == IF st.is \in st.deleted THEN st.after ELSE st.is          \* first non-deleted slot from is
                       i == IF iss = NULL THEN Len(st.q) + 1 ELSE Pos(st.q, iss)
                       q2 == SubSeq(st.q, 1, i - 1) \o <<st.nextid>> \o SubSeq(st.q, i, Len(st.q))
                   IN  Run(Tail(ops), [st EXCEPT !.q = q2, !.hp = IF st.is = st.hw THEN FALSE ELSE @, !.is = st.nextid,
                                                  !.nextid = @ + 1, !.budget = @ - 1])
         [] op = "delete" ->
              IF st.is = NULL \/ st.is \in st.deleted THEN [st EXCEPT !.died = TRUE]
              ELSE LET i == Pos(st.q, st.is)
                       nx == NextOf(st.q, st.is)
                       pv == PrevOf(st.q, st.is)
                       q2 == SubSeq(st.q, 1, i - 1) \o SubSeq(st.q, i + 1, Len(st.q))
                   IN  Run(Tail(ops), [st EXCEPT !.q = q2, !.hw = IF st.is = st.hw THEN nx ELSE @,
                                                  !.is = IF pv # NULL THEN pv ELSE st.is,
                                                  !.deleted = IF pv # NULL THEN @ ELSE @ \cup {st.is},
                                                  !.after = IF pv # NULL THEN @ ELSE nx])

\* Pass::adjustSlot
RECURSIVE Back(_, _, _, _, _)
Back(q, x, d, h, p) ==       \* while (++delta <= 0 && slot) { slot = prev; if (hp && hw == slot) hp = false }
  IF d > 0 \/ x = NULL THEN [x |-> x, hp |-> p]
  ELSE LET y == PrevOf(q, x) IN Back(q, y, d + 1, h, IF p /\ h = y THEN FALSE ELSE p)
RECURSIVE Fwd(_, _, _, _, _)
Fwd(q, x, d, h, p) ==        \* while (--delta >= 0 && slot) { if (slot == hw) hp = true; slot = next }
  IF d < 0 \/ x = NULL THEN [x |-> x, hp |-> p]
  ELSE Fwd(q, NextOf(q, x), d - 1, h, IF x = h THEN TRUE ELSE p)

Adjust(q, x0, delta0, h, p0) ==
  LET atEnd == x0 = NULL
      x1 == IF ~atEnd THEN x0 ELSE IF p0 \/ x0 = h THEN Last(q) ELSE First(q)
      d1 == IF ~atEnd THEN delta0 ELSE IF p0 \/ x0 = h THEN delta0 + 1 ELSE delta0 - 1
      p1 == IF atEnd /\ (p0 \/ x0 = h) /\ (h = NULL \/ h = x1) THEN FALSE ELSE p0
  IN  IF d1 < 0 THEN Back(q, x1, d1 + 1, h, p1)
      ELSE IF d1 > 0 THEN Fwd(q, x1, d1 - 1, h, p1)
      ELSE [x |-> x1, hp |-> p1]

OpSeqs == UNION {[1..n -> {"next", "insert", "delete"}] : n \in 0..MaxOps}

\* the tail of runGraphite's do-loop after findNDoRule
ControlM(q, x, h, p, c, ml) ==
  IF x # NULL /\ (x = h \/ p \/ (LoopLimit /\ c - 1 = 0))
  THEN LET forced == (x # h /\ ~p)                \* only then was --lc evaluated and reached 0
           x2 == IF forced THEN h ELSE x
       IN  [x |-> x2, hw |-> IF x2 # NULL THEN NextOf(q, x2) ELSE h, lc |-> ml]
  ELSE [x |-> x, hw |-> h, lc |-> IF x # NULL /\ x # h /\ ~p THEN c - 1 ELSE c]
Control(q, x, h, p, c) == ControlM(q, x, h, p, c, MaxLoop)

\* one iteration in which no rule fires: slot = slot->next()
NoRule ==
  /\ status = "run"
  /\ LET x == NextOf(stream, s)
         c == Control(stream, x, hw, hp, lc)
     IN  /\ s' = c.x /\ hw' = c.hw /\ lc' = c.lc
         /\ status' = IF c.x = NULL THEN "done" ELSE "run"
  /\ iter' = iter + 1
  /\ UNCHANGED <<stream, hp, budget, nextid>>

\* one iteration in which a rule fires with action `ops` and return value `delta`
Fire(ops, delta) ==
  /\ status = "run"
  /\ LET st == Run(ops, [q |-> stream, is |-> s, hw |-> hw, hp |-> FALSE, budget |-> budget, nextid |-> nextid,
                         died |-> FALSE, deleted |-> {}, after |-> NULL])
     IN  IF st.died
         THEN /\ status' = "failed" /\ iter' = iter + 1          \* died_early: the whole gr_make_seg returns NULL
              /\ UNCHANGED <<stream, s, hw, hp, lc, budget, nextid>>
         ELSE LET out0 == IF st.is \in st.deleted THEN st.after ELSE st.is     \* collectGarbage moves off a deleted slot
                  a == Adjust(st.q, out0, delta, st.hw, st.hp)
                  c == Control(st.q, a.x, st.hw, a.hp, lc)
              IN  /\ stream' = st.q /\ budget' = st.budget /\ nextid' = st.nextid
                  /\ s' = c.x /\ hw' = c.hw /\ lc' = c.lc /\ hp' = a.hp
                  /\ status' = IF c.x = NULL THEN "done" ELSE "run"
                  /\ iter' = iter + 1

Next == NoRule \/ \E ops \in OpSeqs, d \in Deltas : Fire(ops, d)
Spec == Init /\ [][Next]_vars /\ WF_vars(Next)

IterBound == iter <= MaxLoop * (N0 + Budget0 + 2)
Growth    == Len(stream) <= N0 + Budget0
CursorOK  == status = "run" => s # NULL /\ Pos(stream, s) > 0
Terminates == <>(status # "run")
=============================================================================
