SPECIFICATION Spec
CONSTANTS
  MaxItems = 3
  Fixed = TRUE
  NulStop = TRUE
  Emit = TRUE
INVARIANTS NoReadPastNul ContractHolds CountExact BasesIncrease RoundTrip EmitDone
