SPECIFICATION Spec
CONSTANTS
  Blocks <- BlocksValid
  Mutate = TRUE
  Emit = TRUE
INVARIANTS ReadsInBounds WritesInBounds ExactWhenAccepted AcceptsConforming EmitDone
