--------------------------- MODULE GdlRefTraceMC ---------------------------
EXTENDS GdlRefTrace
Cls4 == << <<1, 2>>, <<2, 3>>, <<4, 5>>, <<6>> >>
AdvF == [g \in 0..6 |-> CASE g = 0 -> 0 [] g = 1 -> 500 [] g = 2 -> 600 [] g = 3 -> 450 [] g = 4 -> 700 [] g = 5 -> 300 [] g = 6 -> 0]
GAttrF == [g \in 0..6 |-> IF g \in {2, 5} THEN 1 ELSE IF g = 3 THEN -1 ELSE 0]
OpsAll == {"keep", "glyph", "subs", "copy", "delete", "insert"}
=============================================================================
