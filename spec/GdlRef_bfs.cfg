SPECIFICATION Spec
CONSTANTS
  NG = 3
  Classes <- Cls4
  Adv <- AdvF
  GAttr <- GAttrF
  MaxRules = 1
  MaxPasses = 1
  MaxLen = 2
  MaxText = 3
  Rtl = 0
  NFeat = 0
  Ops <- OpsSub
  Emit = TRUE
INVARIANTS TypeOK StreamOK SkipSound EmitDone
