SPECIFICATION Spec
CONSTANTS
  Kinds = {"good", "noname", "badlabel", "badglyph", "compressed", "badsilf", "nocmap", "nogloc", "badlz4", "badlz4s", "hiddenfeat", "badfeat", "badfeat2", "badsill", "underflow", "emptyname", "emptyglyf", "fmt12", "charisfast"}
  OptSet = {0, 1, 2, 3, 4, 5, 6, 7}
  Srcs = {"ops"}
  Texts = {0, 1}
  ClientOps = {"label", "face_query", "featval", "edit_fval", "destroy_fval", "make_font", "destroy_font", "make_seg", "shape", "query_seg", "justify", "destroy_seg"}
  MaxOps = 4
  NameMemo = TRUE
  Emit = TRUE
INVARIANTS NoCallbackWhenPreloaded NothingHeldWhenGone HeldIsStable TypeOK EmitDone
