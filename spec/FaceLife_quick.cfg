SPECIFICATION Spec
CONSTANTS
  Kinds = {"good", "noname", "badlabel", "compressed", "badsilf", "nocmap", "nogloc"}
  MaxOps = 4
  NameMemo = TRUE
  Emit = TRUE
INVARIANTS NoCallbackWhenPreloaded NothingHeldWhenGone HeldIsStable TypeOK EmitDone
