SPECIFICATION Spec
CONSTANTS
  MaxLen = 8
  KeepLast = TRUE
  Emit = FALSE
INVARIANTS Correct Involution
