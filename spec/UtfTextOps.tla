--------------------------- MODULE UtfTextOps ---------------------------
(* Items, blobs, the declarative encoder applied to texts, and the ingestion contract
   (Expect / Explains) shared by UtfText (model checking + case generation) and
   UtfTextTrace (validation of char-infos recorded from the real gr_make_seg). *)
EXTENDS UtfOps

Scalars == {65, 127, 128, 2047, 2048, 55295, 57344, 65279, 65533, 65535, 65536, 1114111}    \* (65279 = U+FEFF: a byte-order mark is a character like any other)

\* ill-formed blobs per encoding (name -> units)
Ill8  == [lonecont |-> <<128>>, overlong2 |-> <<192, 128>>, overlong3 |-> <<224, 128, 128>>, trunc3 |-> <<226, 130>>,
          trunc4 |-> <<240, 144, 128>>, badlead |-> <<248>>, surrogate |-> <<237, 160, 128>>, toobig |-> <<244, 144, 128, 128>>,
          badlead4 |-> <<248, 144, 128, 128>>, badlead5 |-> <<251, 191, 191, 191>>]
Ill16 == [lonehigh |-> <<55296>>, lonelow |-> <<56320>>, lowhigh |-> <<57343, 56319>>]
Ill32 == [surrogate |-> <<55296>>, toobig |-> <<1114112>>, minusone |-> <<-1>>]
IllOf(e) == CASE e = 8 -> Ill8 [] e = 16 -> Ill16 [] e = 32 -> Ill32

\* items: a scalar, or "ill" standing for an ill-formed blob (instantiated per encoding by index)
ItemAlpha == Scalars \cup {-1, -2, -3, -4, -5}
IllName(e, k) ==   \* which blob of encoding e the abstract ill item k (-1,-2,-3) stands for
  CASE e = 8  -> (CASE k = -1 -> "lonecont" [] k = -2 -> "trunc3" [] k = -3 -> "surrogate" [] k = -4 -> "badlead4" [] k = -5 -> "toobig")
    [] e = 16 -> (CASE k = -1 -> "lonehigh" [] k = -2 -> "lonelow" [] k = -3 -> "lowhigh" [] k = -4 -> "lonehigh" [] k = -5 -> "lonelow")
    [] e = 32 -> (CASE k = -1 -> "surrogate" [] k = -2 -> "toobig" [] k = -3 -> "minusone" [] k = -4 -> "toobig" [] k = -5 -> "surrogate")

UnitsOf(e, it) == IF it >= 0 THEN EncodeOne(e, it) ELSE IllOf(e)[IllName(e, it)]

RECURSIVE Concat(_)
Concat(ss) == IF ss = << >> THEN << >> ELSE Head(ss) \o Concat(Tail(ss))
EncodeText(e, items) == Concat([k \in 1..Len(items) |-> UnitsOf(e, items[k])])

\* The contract's expectation: per item [usv, base (0-based unit offset), len (units), ill]
RECURSIVE Expect(_, _, _, _)
Expect(e, items, k, off) ==
  IF k > Len(items) THEN << >>
  ELSE LET u == UnitsOf(e, items[k]) IN
       <<[usv |-> IF items[k] >= 0 THEN items[k] ELSE 65533, base |-> off, len |-> Len(u), ill |-> items[k] < 0]>>
       \o Expect(e, items, k + 1, off + Len(u))

\* got[j..] explains exp[k..]: a scalar item is exactly one char-info; an ill-formed blob is one or more
\* U+FFFD char-infos whose bases lie inside the blob; stop when nChars char-infos have been produced.
RECURSIVE Explains(_, _, _, _, _)
Explains(exp, k, got, j, nCh) ==
  IF j > Len(got) THEN (k > Len(exp) \/ Len(got) = nCh)
  ELSE IF k > Len(exp) THEN FALSE
  ELSE LET x == exp[k] g == got[j] IN
       IF ~x.ill THEN g.usv = x.usv /\ g.base = x.base /\ Explains(exp, k + 1, got, j + 1, nCh)
       ELSE /\ g.usv = 65533 /\ g.base >= x.base /\ g.base < x.base + x.len
            /\ \/ Explains(exp, k + 1, got, j + 1, nCh)
               \/ (j < Len(got) /\ got[j+1].usv = 65533 /\ got[j+1].base > g.base /\ got[j+1].base < x.base + x.len
                   /\ Explains(exp, k, got, j + 1, nCh))

=============================================================================
