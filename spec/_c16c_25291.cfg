SPECIFICATION Spec
CONSTANTS
  Kinds = {"good", "noname", "badsilf", "badglyph", "compressed"}
  OptSet = {0, 1, 2, 3, 4, 5, 6, 7}
  Srcs = {"opsc"}
  Texts = {0}
  ClientOps = {"label", "shape", "make_font", "destroy_font"}
  MaxOps = 2
  NameMemo = TRUE
  Emit = TRUE
INVARIANTS NoCallbackWhenPreloaded NothingHeldWhenGone HeldIsStable TypeOK EmitDone
