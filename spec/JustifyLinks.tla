---------------------------- MODULE JustifyLinks ----------------------------
(***************************************************************************)
(* The link surgery inside one gr_seg_justify call, pointer by pointer     *)
(* (src/Justifier.cpp Segment::justify / addLineEnd / delLineEnd,          *)
(* src/Segment.cpp reverseSlots / freeSlot).  SegmentApi.tla states the    *)
(* contract "the line is left as it was"; this module is the design that   *)
(* has to meet it: the segment is narrowed to the line, the line is        *)
(* reversed when text and font directions differ, fonts that ask for       *)
(* line-end contextuals get a marker slot in front of the line and one     *)
(* behind the justified range while the justification passes run, the      *)
(* markers are unlinked and freed, the line is reversed back.              *)
(*                                                                         *)
(* One line of K slots 1..K (all bases), markers A = K+1 and B = K+2,      *)
(* 0 = NULL.  Every step of the call is one action (pc).  FullLink selects *)
(* the marker linking of the repaired code (f6b8e79a: both neighbours are  *)
(* pointed at the marker, and the marker is unlinked from both); FALSE is  *)
(* the code as it was (negative control: ChainRestored must be refuted).   *)
(***************************************************************************)
EXTENDS Integers, Sequences, FiniteSets, TLC

CONSTANTS N,          \* longest line explored
          FullLink    \* TRUE: marker linking as repaired; FALSE: as before the repair

VARIABLES K, nxt, prv, mfirst, mlast, pc,
          rev, le,           \* the line is reversed for the call; the font asks for line-end markers
          pSlot, pFirst, pLast, endp,
          freed, crashed
vars == <<K, nxt, prv, mfirst, mlast, pc, rev, le, pSlot, pFirst, pLast, endp, freed, crashed>>

Ids == 0..(N + 2)
A == K + 1
B == K + 2
Chain(k) == [i \in Ids |-> IF i >= 1 /\ i < k THEN i + 1 ELSE 0]
Back(k)  == [i \in Ids |-> IF i >= 2 /\ i <= k THEN i - 1 ELSE 0]

Init == /\ K \in 1..N /\ nxt = Chain(K) /\ prv = Back(K) /\ mfirst = 1 /\ mlast = K
        /\ pc = "reverse1" /\ rev \in BOOLEAN /\ le \in BOOLEAN
        /\ pSlot = 1 /\ pFirst \in 0..K /\ pLast \in 0..K /\ endp = 0
        /\ freed = {} /\ crashed = FALSE

\* Segment::reverseSlots over the chain from mfirst (all slots are bases); fuel exhausted = the walk does not end
RECURSIVE RevLoop(_, _, _, _, _)
RevLoop(nx, pv, curr, out, fuel) ==
  IF curr = 0 THEN [nxt |-> nx, prv |-> pv, out |-> out, ok |-> TRUE]
  ELSE IF fuel = 0 THEN [nxt |-> nx, prv |-> pv, out |-> out, ok |-> FALSE]
  ELSE LET t == nx[curr]
           nx2 == [nx EXCEPT ![curr] = out]
           pv2 == IF out # 0 THEN [pv EXCEPT ![out] = curr] ELSE pv
       IN  RevLoop(nx2, pv2, t, curr, fuel - 1)
Reversed ==
  IF mfirst = mlast THEN [nxt |-> nxt, prv |-> prv, first |-> mfirst, last |-> mlast, ok |-> TRUE]
  ELSE LET tfirst == prv[mfirst]
           r == RevLoop(nxt, prv, mfirst, 0, N + 4)
           pv3 == [r.prv EXCEPT ![r.out] = tfirst]
           nx3 == IF tfirst # 0 THEN [r.nxt EXCEPT ![tfirst] = r.out] ELSE r.nxt
       IN  [nxt |-> nx3, prv |-> pv3, first |-> IF tfirst # 0 THEN mfirst ELSE r.out, last |-> mfirst, ok |-> r.ok]

Keep(S) == UNCHANGED S

Reverse1 ==
  /\ pc = "reverse1" /\ pc' = "bounds"
  /\ IF rev THEN LET r == Reversed IN
                 /\ nxt' = r.nxt /\ prv' = r.prv /\ mfirst' = r.first /\ mlast' = r.last
                 /\ pFirst' = pLast /\ pLast' = pFirst /\ crashed' = ~r.ok
     ELSE Keep(<<nxt, prv, mfirst, mlast, pFirst, pLast, crashed>>)
  /\ Keep(<<K, rev, le, pSlot, endp, freed>>)

\* defaults of pFirst / pLast, trailing-white-space trimming of pLast (any number of steps back, not past pFirst,
\* possibly off the front of the line), end = the slot after the range
RECURSIVE Walk(_, _, _)
Walk(p, stop, j) == IF j = 0 \/ p = stop \/ p = 0 THEN p ELSE Walk(prv[p], stop, j - 1)
Bounds ==
  /\ pc = "bounds" /\ pc' = "addA"
  /\ \E j \in 0..K :
       LET pf == IF pFirst = 0 THEN pSlot ELSE pFirst
           pl == Walk(IF pLast = 0 THEN mlast ELSE pLast, pf, j)
       IN  /\ pFirst' = pf /\ pLast' = pl
           /\ endp' = IF pl # 0 THEN nxt[pl] ELSE mlast
  /\ Keep(<<K, nxt, prv, mfirst, mlast, rev, le, pSlot, freed, crashed>>)

\* Segment::addLineEnd(n): the marker goes in front of n, or behind the last slot when n is NULL
InsertBefore(m, n, nx, pv) ==
  LET p == pv[n]
      nx1 == [nx EXCEPT ![m] = n]
      pv1 == [pv EXCEPT ![m] = p, ![n] = m]
  IN  [nxt |-> IF FullLink /\ p # 0 THEN [nx1 EXCEPT ![p] = m] ELSE nx1, prv |-> pv1]
AddA ==
  /\ pc = "addA" /\ pc' = "addB"
  /\ IF le THEN LET r == InsertBefore(A, pSlot, nxt, prv) IN nxt' = r.nxt /\ prv' = r.prv /\ mfirst' = A /\ pSlot' = A
     ELSE mfirst' = pSlot /\ Keep(<<nxt, prv, pSlot>>)
  /\ Keep(<<K, mlast, rev, le, pFirst, pLast, endp, freed, crashed>>)
AddB ==
  /\ pc = "addB" /\ pc' = "delA"
  /\ IF le
     THEN /\ IF endp # 0 THEN LET r == InsertBefore(B, endp, nxt, prv) IN nxt' = r.nxt /\ prv' = r.prv
             ELSE nxt' = [nxt EXCEPT ![mlast] = B] /\ prv' = [prv EXCEPT ![B] = mlast]
          /\ mlast' = B /\ pLast' = B /\ crashed' = crashed
     ELSE /\ mlast' = pLast /\ Keep(<<nxt, prv, pLast, crashed>>)
  /\ Keep(<<K, mfirst, rev, le, pSlot, pFirst, endp, freed>>)

\* (the justification passes and the final positioning walk the chain from m_first; fonts without such passes
\*  change no link)

\* Segment::delLineEnd(s) followed by Segment::freeSlot(s)
Unlink(s, nx, pv) ==
  LET n == nx[s] p == pv[s] IN
  IF FullLink
  THEN [nxt |-> IF p # 0 THEN [nx EXCEPT ![p] = n] ELSE nx, prv |-> IF n # 0 THEN [pv EXCEPT ![n] = p] ELSE pv, ok |-> TRUE]
  ELSE IF n # 0 THEN [nxt |-> IF p # 0 THEN [nx EXCEPT ![p] = n] ELSE nx, prv |-> [pv EXCEPT ![n] = p], ok |-> TRUE]
       ELSE [nxt |-> IF p # 0 THEN [nx EXCEPT ![p] = 0] ELSE nx, prv |-> pv, ok |-> p # 0]
Del(s) ==
  LET r == Unlink(s, nxt, prv) IN
  /\ nxt' = [r.nxt EXCEPT ![s] = 0] /\ prv' = [r.prv EXCEPT ![s] = 0]
  /\ mlast' = IF mlast = s THEN prv[s] ELSE mlast
  /\ mfirst' = IF mfirst = s THEN nxt[s] ELSE mfirst
  /\ freed' = freed \cup {s}
  \* a NULL dereference, a marker freed twice, or a write through a neighbour that has already been freed
  /\ crashed' = (crashed \/ ~r.ok \/ s \in freed \/ nxt[s] \in freed \/ prv[s] \in freed)
DelA ==
  /\ pc = "delA" /\ pc' = "delB"
  /\ IF le /\ mfirst # 0 THEN Del(mfirst) ELSE Keep(<<nxt, prv, mfirst, mlast, freed, crashed>>)
  /\ Keep(<<K, rev, le, pSlot, pFirst, pLast, endp>>)
DelB ==
  /\ pc = "delB" /\ pc' = "restore"
  /\ IF le /\ mlast # 0 THEN Del(mlast) ELSE Keep(<<nxt, prv, mfirst, mlast, freed, crashed>>)
  /\ Keep(<<K, rev, le, pSlot, pFirst, pLast, endp>>)

\* m_first / m_last back to the ends of the (possibly reversed) line, then the line is reversed back
Restore ==
  /\ pc = "restore" /\ pc' = "reverse2"
  /\ mfirst' = (IF rev THEN K ELSE 1) /\ mlast' = (IF rev THEN 1 ELSE K)
  /\ Keep(<<K, nxt, prv, rev, le, pSlot, pFirst, pLast, endp, freed, crashed>>)
Reverse2 ==
  /\ pc = "reverse2" /\ pc' = "done"
  /\ IF rev /\ ~crashed THEN LET r == Reversed IN
                 /\ nxt' = r.nxt /\ prv' = r.prv /\ mfirst' = r.first /\ mlast' = r.last /\ crashed' = ~r.ok
     ELSE Keep(<<nxt, prv, mfirst, mlast, crashed>>)
  /\ Keep(<<K, rev, le, pSlot, pFirst, pLast, endp, freed>>)
Done == pc = "done" /\ UNCHANGED vars

Next == Reverse1 \/ Bounds \/ AddA \/ AddB \/ DelA \/ DelB \/ Restore \/ Reverse2 \/ Done
Spec == Init /\ [][Next]_vars /\ WF_vars(Next)

(***************************************************************************)
(* Properties                                                              *)
(***************************************************************************)
TypeOK == /\ K \in 1..N /\ pc \in {"reverse1", "bounds", "addA", "addB", "delA", "delB", "restore", "reverse2", "done"}
          /\ nxt \in [Ids -> Ids] /\ prv \in [Ids -> Ids]
\* the contract of SegmentApi.tla: when the call returns the line is the chain it was, in both directions
ChainRestored == pc = "done" => /\ ~crashed
                                /\ \A i \in 1..K : nxt[i] = Chain(K)[i] /\ prv[i] = Back(K)[i]
                                /\ mfirst = 1 /\ mlast = K
\* no slot of the line ever names a marker that has been freed
NoDangling == \A i \in 1..K : nxt[i] \notin freed /\ prv[i] \notin freed
\* while the markers are in (between addB and delA) the chain from m_first is doubly linked: what the passes walk
LinkedWhilePassesRun ==
  (pc = "delA" /\ ~crashed) => \A i \in 1..(K + 2) : (nxt[i] # 0 => prv[nxt[i]] = i)
\* ... and that chain leads from the leading marker to the trailing one (hook event 6 reports both facts from the real
\* call: SegmentApiTrace!TMarkers)
RECURSIVE Reach(_, _, _)
Reach(a, b, fuel) == IF a = b THEN TRUE ELSE IF a = 0 \/ fuel = 0 THEN FALSE ELSE Reach(nxt[a], b, fuel - 1)
\* (only for a line that is not reversed for the call: in a reversed line the code still puts the leading marker in front
\*  of pSlot, which is then the LAST slot, so the trailing marker precedes it - observation F11 in DESIGN.md, a matter of
\*  justification quality that no listed property speaks about; the links stay consistent and are restored)
MarkersReachable == (pc = "delA" /\ le /\ ~rev /\ ~crashed) => Reach(mfirst, mlast, N + 3)
\* every marker that went in came out again
MarkersFreed == (pc = "done" /\ le /\ ~crashed) => freed = {A, B}
Returns == <>(pc = "done")
=============================================================================
