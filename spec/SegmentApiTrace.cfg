SPECIFICATION TSpec
CONSTANTS
  N = 0
  MaxBreaks = 100000
  MaxJust = 100000
  Emit = FALSE
POSTCONDITION Accepted
