SPECIFICATION Spec
CONSTANTS
  N0 = 3
  Budget0 = 2
  MaxLoop = 2
  MaxOps = 3
  Deltas <- D5
  LoopLimit = TRUE
INVARIANTS IterBound Growth CursorOK
PROPERTY Terminates
