--------------------------- MODULE FaceLifeTrace ---------------------------
(***************************************************************************)
(* Validation of recorded executions against FaceLife: the harness logs,   *)
(* for every client call, Call / Get / Rel / Ret events (instrumented      *)
(* gr_face_ops; buffers get fresh ids; released buffers are made           *)
(* inaccessible so that a later dereference faults and is logged as Fault, *)
(* for which there is no action).  Each call's net effect must be the      *)
(* FaceLife action of that call; get_table may only be invoked where the   *)
(* protocol allows it; every buffer is released exactly once; a history    *)
(* ends with nothing borrowed and no library allocation alive.             *)
(***************************************************************************)
EXTENDS FaceLife

Log == ndJsonDeserialize(IOEnv.TRACE)

CONSTANT KeyByOpts   \* TRUE: results are compared per (options, source) - history independence (C08);
                     \* FALSE: across all options and sources as well (C10)

VARIABLES l,        \* next event
          incall,   \* operation in progress ("" = none)
          outb,     \* outstanding buffers: set of <<id, tag>>
          tkind,    \* font kind of the current history
          tnr,      \* 1: the face of this history is made without a release_table callback (nothing can be handed back)
          seen      \* results observed so far: function from call keys to result hashes (purity oracle)
tvars == <<vars, l, incall, outb, tkind, tnr, seen>>

Ev == Log[l]
IsEvent(e) == l <= Len(Log) /\ Ev.e = e /\ l' = l + 1

TInit == Init /\ l = 1 /\ incall = "" /\ outb = {} /\ tkind = "good" /\ tnr = 0 /\ seen = << >>

\* a new history: the previous one must have given everything back
TReset ==
  /\ IsEvent("Reset") /\ incall = "" /\ outb = {} /\ phase \in {"none", "dead"}
  /\ phase' = "none" /\ opts' = 0 /\ kind' = "good" /\ src' = "ops" /\ held' = {} /\ nameDone' = FALSE
  /\ nfonts' = 0 /\ nsegs' = 0 /\ nfvals' = 0 /\ afterMake' = 0 /\ hist' = << >>
  /\ tkind' = Ev.kind /\ tnr' = Ev.nr /\ UNCHANGED <<incall, outb, seen>>

TCall == /\ IsEvent("Call") /\ incall = "" /\ incall' = Ev.op
         /\ UNCHANGED <<vars, outb, tkind, tnr, seen>>

\* get_table: during gr_make_face; afterwards only for the name table, once, and never with gr_face_preloadAll
GetAllowed == \/ incall = "make_face"
              \/ incall = "label" /\ ~nameDone /\ Ev.tag = "name" /\ ~PreloadAll(opts)
TGet == /\ IsEvent("Get") /\ incall # "" /\ GetAllowed
        /\ outb' = IF Ev.buf >= 0 /\ tnr = 0 THEN outb \cup {<<Ev.buf, Ev.tag>>} ELSE outb
        /\ \A b \in outb : b[1] # Ev.buf                                   \* fresh id
        /\ UNCHANGED <<vars, incall, tkind, tnr, seen>>

\* release_table: exactly once per buffer
TRel == /\ IsEvent("Rel") /\ incall # "" /\ tnr = 0
        /\ \E b \in outb : b[1] = Ev.buf /\ outb' = outb \ {b}
        /\ UNCHANGED <<vars, incall, tkind, tnr, seen>>

Tags(S) == {b[2] : b \in S}

\* the call returns: its net effect is the FaceLife action of that operation
TRet ==
  /\ IsEvent("Ret") /\ incall = Ev.op
  /\ CASE Ev.op = "make_face"    -> MakeFace(Ev.arg % 8, tkind, IF Ev.arg >= 24 THEN "opsc" ELSE IF Ev.arg >= 16 THEN "opsnr" ELSE IF Ev.arg >= 8 THEN "file" ELSE "ops") /\ (phase' = "live") = (Ev.ok = 1)
       [] Ev.op = "label"        -> LabelQuery
       [] Ev.op = "face_query"   -> FaceQuery
       [] Ev.op = "featval"      -> FeatVal(Ev.arg)
       [] Ev.op = "destroy_fval" -> DestroyFval
       [] Ev.op = "edit_fval"    -> EditFval
       [] Ev.op = "make_font"    -> MakeFont(Ev.arg)
       [] Ev.op = "destroy_font" -> DestroyFont
       [] Ev.op = "make_seg"     -> MakeSeg(Ev.arg)
       [] Ev.op = "shape"        -> ShapeOnce(Ev.arg)
       [] Ev.op = "query_seg"    -> QuerySeg
       [] Ev.op = "justify"      -> JustifySeg
       [] Ev.op = "destroy_seg"  -> DestroySeg
       [] Ev.op = "destroy_face" -> DestroyFace
  /\ (src' \in {"ops", "opsc"} => /\ Tags(outb) = held'                       \* what is still borrowed is what the protocol says
                       /\ Cardinality(outb) = Cardinality(held'))  \* ... one buffer per table
  \* purity: the result of a call is a function of its arguments only (C08), and not of the face options or
  \* the table source either (C10)
  /\ IF Ev.h = "" THEN UNCHANGED seen
     ELSE LET key == <<tkind, Ev.op, Ev.key, IF KeyByOpts THEN opts' ELSE -1, IF KeyByOpts THEN src' ELSE "">> IN
          IF key \in DOMAIN seen THEN seen[key] = Ev.h /\ UNCHANGED seen
          ELSE seen' = [k \in DOMAIN seen \cup {key} |-> IF k = key THEN Ev.h ELSE seen[k]]
  /\ incall' = "" /\ UNCHANGED <<outb, tkind, tnr>>

\* end of a history: no library allocation is left
TQuiesce == /\ IsEvent("Quiesce") /\ incall = "" /\ outb = {} /\ Ev.live = 0
            /\ UNCHANGED <<vars, incall, outb, tkind, tnr, seen>>

TNext == TReset \/ TCall \/ TGet \/ TRel \/ TRet \/ TQuiesce
TSpec == TInit /\ [][TNext]_tvars

Accepted == TLCGet("stats").diameter - 1 = Len(Log)
\* the preloadAll clause, evaluated in every state of every real execution
NoCallbackTrace == NoCallbackWhenPreloaded
=============================================================================
