---- MODULE Lz4MC_TTrace_1790366000 ----
EXTENDS Sequences, TLCExt, Toolbox, Naturals, TLC, Lz4MC

_expression ==
    LET Lz4MC_TEExpression == INSTANCE Lz4MC_TEExpression
    IN Lz4MC_TEExpression!expression
----

_trace ==
    LET Lz4MC_TETrace == INSTANCE Lz4MC_TETrace
    IN Lz4MC_TETrace!trace
----

_inv ==
    ~(
        TLCGet("level") = Len(_TETrace)
        /\
        blk = ([seqs |-> <<>>, tail |-> 13])
        /\
        osize = (13)
        /\
        dst = (0)
        /\
        src = (0)
        /\
        in = (<<208, 1, 8, 15, 22, 29, 36, 43, 50, 57, 64, 71, 78, 85>>)
        /\
        reads = ({})
        /\
        out = ((0 :> -1 @@ 1 :> -1 @@ 2 :> -1 @@ 3 :> -1 @@ 4 :> -1 @@ 5 :> -1 @@ 6 :> -1 @@ 7 :> -1 @@ 8 :> -1 @@ 9 :> -1 @@ 10 :> -1 @@ 11 :> -1 @@ 12 :> -1))
        /\
        result = (-1)
        /\
        pc = ("done")
        /\
        left = (13)
        /\
        lit = (0)
        /\
        litlen = (0)
        /\
        mlen = (0)
        /\
        mdist = (0)
        /\
        writes = ({})
    )
----

_init ==
    /\ src = _TETrace[1].src
    /\ reads = _TETrace[1].reads
    /\ litlen = _TETrace[1].litlen
    /\ mdist = _TETrace[1].mdist
    /\ writes = _TETrace[1].writes
    /\ out = _TETrace[1].out
    /\ pc = _TETrace[1].pc
    /\ dst = _TETrace[1].dst
    /\ left = _TETrace[1].left
    /\ in = _TETrace[1].in
    /\ lit = _TETrace[1].lit
    /\ result = _TETrace[1].result
    /\ mlen = _TETrace[1].mlen
    /\ blk = _TETrace[1].blk
    /\ osize = _TETrace[1].osize
----

_next ==
    /\ \E i,j \in DOMAIN _TETrace:
        /\ \/ /\ j = i + 1
              /\ i = TLCGet("level")
        /\ src  = _TETrace[i].src
        /\ src' = _TETrace[j].src
        /\ reads  = _TETrace[i].reads
        /\ reads' = _TETrace[j].reads
        /\ litlen  = _TETrace[i].litlen
        /\ litlen' = _TETrace[j].litlen
        /\ mdist  = _TETrace[i].mdist
        /\ mdist' = _TETrace[j].mdist
        /\ writes  = _TETrace[i].writes
        /\ writes' = _TETrace[j].writes
        /\ out  = _TETrace[i].out
        /\ out' = _TETrace[j].out
        /\ pc  = _TETrace[i].pc
        /\ pc' = _TETrace[j].pc
        /\ dst  = _TETrace[i].dst
        /\ dst' = _TETrace[j].dst
        /\ left  = _TETrace[i].left
        /\ left' = _TETrace[j].left
        /\ in  = _TETrace[i].in
        /\ in' = _TETrace[j].in
        /\ lit  = _TETrace[i].lit
        /\ lit' = _TETrace[j].lit
        /\ result  = _TETrace[i].result
        /\ result' = _TETrace[j].result
        /\ mlen  = _TETrace[i].mlen
        /\ mlen' = _TETrace[j].mlen
        /\ blk  = _TETrace[i].blk
        /\ blk' = _TETrace[j].blk
        /\ osize  = _TETrace[i].osize
        /\ osize' = _TETrace[j].osize

\* Uncomment the ASSUME below to write the states of the error trace
\* to the given file in Json format. Note that you can pass any tuple
\* to `JsonSerialize`. For example, a sub-sequence of _TETrace.
    \* ASSUME
    \*     LET J == INSTANCE Json
    \*         IN J!JsonSerialize("Lz4MC_TTrace_1790366000.json", _TETrace)

=============================================================================

 Note that you can extract this module `Lz4MC_TEExpression`
  to a dedicated file to reuse `expression` (the module in the 
  dedicated `Lz4MC_TEExpression.tla` file takes precedence 
  over the module `Lz4MC_TEExpression` below).

---- MODULE Lz4MC_TEExpression ----
EXTENDS Sequences, TLCExt, Toolbox, Naturals, TLC, Lz4MC

expression == 
    [
        \* To hide variables of the `Lz4MC` spec from the error trace,
        \* remove the variables below.  The trace will be written in the order
        \* of the fields of this record.
        src |-> src
        ,reads |-> reads
        ,litlen |-> litlen
        ,mdist |-> mdist
        ,writes |-> writes
        ,out |-> out
        ,pc |-> pc
        ,dst |-> dst
        ,left |-> left
        ,in |-> in
        ,lit |-> lit
        ,result |-> result
        ,mlen |-> mlen
        ,blk |-> blk
        ,osize |-> osize
        
        \* Put additional constant-, state-, and action-level expressions here:
        \* ,_stateNumber |-> _TEPosition
        \* ,_srcUnchanged |-> src = src'
        
        \* Format the `src` variable as Json value.
        \* ,_srcJson |->
        \*     LET J == INSTANCE Json
        \*     IN J!ToJson(src)
        
        \* Lastly, you may build expressions over arbitrary sets of states by
        \* leveraging the _TETrace operator.  For example, this is how to
        \* count the number of times a spec variable changed up to the current
        \* state in the trace.
        \* ,_srcModCount |->
        \*     LET F[s \in DOMAIN _TETrace] ==
        \*         IF s = 1 THEN 0
        \*         ELSE IF _TETrace[s].src # _TETrace[s-1].src
        \*             THEN 1 + F[s-1] ELSE F[s-1]
        \*     IN F[_TEPosition - 1]
    ]

=============================================================================



Parsing and semantic processing can take forever if the trace below is long.
 In this case, it is advised to uncomment the module below to deserialize the
 trace from a generated binary file.

\*
\*---- MODULE Lz4MC_TETrace ----
\*EXTENDS IOUtils, TLC, Lz4MC
\*
\*trace == IODeserialize("Lz4MC_TTrace_1790366000.bin", TRUE)
\*
\*=============================================================================
\*

---- MODULE Lz4MC_TETrace ----
EXTENDS TLC, Lz4MC

trace == 
    <<
    ([blk |-> [seqs |-> <<>>, tail |-> 13],osize |-> 13,dst |-> 0,src |-> 0,in |-> <<208, 1, 8, 15, 22, 29, 36, 43, 50, 57, 64, 71, 78, 85>>,reads |-> {},out |-> (0 :> -1 @@ 1 :> -1 @@ 2 :> -1 @@ 3 :> -1 @@ 4 :> -1 @@ 5 :> -1 @@ 6 :> -1 @@ 7 :> -1 @@ 8 :> -1 @@ 9 :> -1 @@ 10 :> -1 @@ 11 :> -1 @@ 12 :> -1),result |-> -2,pc |-> "start",left |-> 13,lit |-> 0,litlen |-> 0,mlen |-> 0,mdist |-> 0,writes |-> {}]),
    ([blk |-> [seqs |-> <<>>, tail |-> 13],osize |-> 13,dst |-> 0,src |-> 0,in |-> <<208, 1, 8, 15, 22, 29, 36, 43, 50, 57, 64, 71, 78, 85>>,reads |-> {},out |-> (0 :> -1 @@ 1 :> -1 @@ 2 :> -1 @@ 3 :> -1 @@ 4 :> -1 @@ 5 :> -1 @@ 6 :> -1 @@ 7 :> -1 @@ 8 :> -1 @@ 9 :> -1 @@ 10 :> -1 @@ 11 :> -1 @@ 12 :> -1),result |-> -1,pc |-> "done",left |-> 13,lit |-> 0,litlen |-> 0,mlen |-> 0,mdist |-> 0,writes |-> {}])
    >>
----


=============================================================================

---- CONFIG Lz4MC_TTrace_1790366000 ----
CONSTANTS
    Blocks <- BlocksValid
    Mutate = FALSE
    Emit = TRUE

INVARIANT
    _inv

CHECK_DEADLOCK
    \* CHECK_DEADLOCK off because of PROPERTY or INVARIANT above.
    FALSE

INIT
    _init

NEXT
    _next

CONSTANT
    _TETrace <- _trace

ALIAS
    _expression
=============================================================================
\* Generated on Fri Sep 25 19:53:30 UTC 2026