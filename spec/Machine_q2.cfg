SPECIFICATION Spec
CONSTANTS
  Vals <- ValsSmall
  Masks <- MasksOne
  MaxLen = 4
  AllForms = FALSE
  BadLoads = FALSE
  Emit = TRUE
INVARIANTS LoaderSound Progress TypeOK StackSmall EmitDone
