SPECIFICATION Spec
CONSTANTS
  N = 8
  FullLink = TRUE
INVARIANTS TypeOK ChainRestored NoDangling LinkedWhilePassesRun MarkersReachable MarkersFreed
PROPERTY Returns
