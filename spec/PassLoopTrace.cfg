SPECIFICATION TSpec
CONSTANTS
  N0 = 1
  Budget0 = 0
  MaxLoop = 5
  MaxOps = 0
  Deltas = {0}
  LoopLimit = TRUE
POSTCONDITION Accepted
CHECK_DEADLOCK FALSE
