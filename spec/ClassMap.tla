------------------------------ MODULE ClassMap ------------------------------
(***************************************************************************)
(* The class map reader of the Silf table (Silf::readClassMap and          *)
(* readClassOffsets<uint16>, src/Silf.cpp) and the two run-time users of   *)
(* what it accepts (Silf::findClassIndex, Silf::getClassGlyph).            *)
(* Property C01 (reads stay inside the table; an accepted class map can    *)
(* be used by the engine without leaving m_classData) - the second reader  *)
(* model next to Readers.tla (the pass reader).                            *)
(*                                                                         *)
(* Layout (Silf versions < 4): numClass, numLinear, numClass + 1 byte      *)
(* offsets (16 bit, from the start of the class map), then 16-bit words:   *)
(* linear classes are glyph lists, lookup classes start with numIDs,       *)
(* searchRange, entrySelector, rangeShift followed by (glyph, index)       *)
(* pairs.  Every e.test(...) of the reader is one guarded step, in the     *)
(* order of the code, with the byte ranges it reads recorded in `reads`.   *)
(*                                                                         *)
(* Arithmetic: (offset - cls_off) / sizeof(uint16) is computed in size_t;  *)
(* a negative difference becomes a value far above every length.  HUGE     *)
(* stands for all such values.                                             *)
(***************************************************************************)
EXTENDS Integers, Sequences, FiniteSets, TLC, Json, IOUtils, CSV

CONSTANTS BaseNClass, BaseNLinear,
          BaseOffs,     \* numClass + 1 byte offsets
          BaseData,     \* the 16-bit words after the offsets
          DataLen,      \* bytes available to the reader
          MaxPerturb, Emit,
          DropNumIdsTest   \* negative control: TRUE drops the numIDs-fits test of the lookup classes

HUGE == 1000000000
Boundary(v) == {x \in {0, 1, v - 1, v + 1, v - 2, v + 2, 65535, 65534, DataLen, DataLen - 1, DataLen + 1, DataLen \div 2, v * 2, v + 4, v - 4} : x >= 0 /\ x <= 65535 /\ x # v}

VARIABLES nClass, nLinear, offs, data, npert, edits, phase, outcome, reads, dreads, maxOff, O
vars == <<nClass, nLinear, offs, data, npert, edits, phase, outcome, reads, dreads, maxOff, O>>

Init == /\ nClass = BaseNClass /\ nLinear = BaseNLinear /\ offs = BaseOffs /\ data = BaseData
        /\ npert = 0 /\ edits = << >> /\ phase = "perturb" /\ outcome = "none" /\ reads = {} /\ dreads = {} /\ maxOff = 0 /\ O = << >>

Ed(name, idx, val) == [name |-> name, idx |-> idx, val |-> val]
\* offsets worth rewriting: first, last linear, first lookup, last class, the end offset
OffIdx == {1, BaseNLinear, BaseNLinear + 1, BaseNClass, BaseNClass + 1} \cap (1..(BaseNClass + 1))
\* words worth rewriting: the four header words of every lookup class of the base layout
HdrIdx == UNION {{(BaseOffs[c] - (4 + 2 * (BaseNClass + 1))) \div 2 + k : k \in 1..4} : c \in (BaseNLinear + 1)..BaseNClass} \cap (1..Len(BaseData))

Perturb(name, i, v) ==
  /\ phase = "perturb" /\ npert < MaxPerturb
  /\ CASE name = "numClass"  -> v \in Boundary(nClass) /\ nClass' = v /\ UNCHANGED <<nLinear, offs, data>>
       [] name = "numLinear" -> v \in Boundary(nLinear) /\ nLinear' = v /\ UNCHANGED <<nClass, offs, data>>
       [] name = "offset"    -> i \in OffIdx /\ v \in Boundary(offs[i]) /\ offs' = [offs EXCEPT ![i] = v] /\ UNCHANGED <<nClass, nLinear, data>>
       [] name = "word"      -> i \in HdrIdx /\ v \in Boundary(data[i]) /\ data' = [data EXCEPT ![i] = v] /\ UNCHANGED <<nClass, nLinear, offs>>
  /\ npert' = npert + 1 /\ edits' = Append(edits, Ed(name, i, v))
  /\ UNCHANGED <<phase, outcome, reads, dreads, maxOff, O>>

StartRead == /\ phase = "perturb" /\ phase' = "size" /\ UNCHANGED <<nClass, nLinear, offs, data, npert, edits, outcome, reads, dreads, maxOff, O>>

Reject(why) == /\ phase' = "done" /\ outcome' = why /\ UNCHANGED <<nClass, nLinear, offs, data, npert, edits, maxOff, O, dreads>>
Go(p)       == /\ phase' = p /\ UNCHANGED <<nClass, nLinear, offs, data, npert, edits, outcome, dreads>>

\* the bytes the table really holds: 4 + 2 * (BaseNClass + 1) + 2 * Len(BaseData) = DataLen (fontgen puts the passes right behind)
\* values read through a rewritten numClass come from whatever bytes lie there
ByteWord(at) ==       \* the 16-bit word at byte offset `at` (even) of the class map as written
  IF at = 0 THEN nClass ELSE IF at = 2 THEN nLinear
  ELSE IF at < 4 + 2 * (BaseNClass + 1) THEN offs[(at - 4) \div 2 + 1]
  ELSE IF (at - 4 - 2 * (BaseNClass + 1)) \div 2 + 1 <= Len(data) THEN data[(at - 4 - 2 * (BaseNClass + 1)) \div 2 + 1]
  ELSE 0
ClsOff == 4 + 2 * (nClass + 1)
Off(x) == IF x >= ClsOff THEN (x - ClsOff) \div 2 ELSE HUGE          \* (x - cls_off) / sizeof(uint16) in size_t
RawOff(i) == ByteWord(4 + 2 * (i - 1))                                  \* i-th offset as the reader sees it
Word(k) == ByteWord(ClsOff + 2 * k)                                     \* m_classData[k], k 0-based

Size ==      \* data_len < 4; numLinear > numClass; (numClass + 1) * 2 > data_len - 4
  /\ phase = "size"
  /\ IF DataLen < 4 THEN Reject("E_BADCLASSSIZE") /\ UNCHANGED reads
     ELSE /\ reads' = reads \cup (0..3)
          /\ IF nLinear > nClass THEN Reject("E_TOOMANYLINEAR")
             ELSE IF (nClass + 1) * 2 > DataLen - 4 THEN Reject("E_CLASSESTOOBIG")
             ELSE Go("offsets") /\ UNCHANGED <<maxOff, O>>

Offsets ==   \* readClassOffsets<uint16>
  /\ phase = "offsets"
  /\ LET last == RawOff(nClass + 1)
         mo == Off(last)
         os == [i \in 1..(nClass + 1) |-> Off(RawOff(i))]
         firstBad == {i \in 1..(nClass + 1) : os[i] > mo}
         upto == IF firstBad = {} THEN nClass + 1 ELSE CHOOSE i \in firstBad : \A j \in firstBad : i <= j
     IN  IF RawOff(1) # ClsOff THEN Reject("E_MISALIGNEDCLASSES") /\ reads' = reads \cup ((4 + 2 * nClass)..(5 + 2 * nClass)) \cup (4..5)
         ELSE IF mo > (DataLen - ClsOff) \div 2 THEN Reject("E_HIGHCLASSOFFSET") /\ reads' = reads \cup ((4 + 2 * nClass)..(5 + 2 * nClass)) \cup (4..5)
         ELSE /\ reads' = reads \cup (4..(3 + 2 * upto))
              /\ IF firstBad # {} THEN Reject("E_HIGHCLASSOFFSET")
                 ELSE /\ maxOff' = mo /\ O' = os /\ phase' = "check"
                      /\ UNCHANGED <<nClass, nLinear, offs, data, npert, edits, outcome, dreads>>

Check ==     \* size of the lookup classes, monotone linear offsets, the class data itself
  /\ phase = "check"
  /\ IF maxOff < nLinear + (nClass - nLinear) * 6 THEN Reject("E_CLASSESTOOBIG") /\ UNCHANGED reads
     ELSE IF \E i \in 1..nLinear : O[i] > O[i + 1] THEN Reject("E_BADCLASSOFFSET") /\ UNCHANGED reads
     ELSE /\ reads' = reads \cup (ClsOff..(ClsOff + 2 * maxOff - 1))
          /\ Go("lookups") /\ UNCHANGED <<maxOff, O>>

\* first lookup class that fails one of the tests (0 = none), and what was read of m_classData up to there
LookupBad(c) == \/ O[c] + 4 > maxOff
                \/ Word(O[c]) = 0 \/ (~DropNumIdsTest /\ Word(O[c]) * 2 + O[c] + 4 > maxOff) \/ Word(O[c] + 3) + Word(O[c] + 1) # Word(O[c])
                \/ (O[c + 1] - O[c]) % 2 # 0
Lookups ==
  /\ phase = "lookups"
  /\ LET cs == (nLinear + 1)..nClass
         bad == {c \in cs : LookupBad(c)}
         stop == IF bad = {} THEN nClass + 1 ELSE CHOOSE c \in bad : \A d \in bad : c <= d
     IN  /\ dreads' = dreads \cup UNION {IF O[c] + 4 > maxOff THEN {} ELSE {O[c], O[c] + 1, O[c] + 3} : c \in {x \in cs : x <= stop}}
         /\ IF bad # {} THEN /\ phase' = "done" /\ outcome' = "E_BADCLASSLOOKUPINFO"
            ELSE /\ phase' = "done" /\ outcome' = "accept"
         /\ UNCHANGED <<nClass, nLinear, offs, data, npert, edits, reads, maxOff, O>>

Next == \/ \E v \in Boundary(nClass) : Perturb("numClass", 0, v)
        \/ \E v \in Boundary(nLinear) : Perturb("numLinear", 0, v)
        \/ \E i \in OffIdx : \E v \in Boundary(offs[i]) : Perturb("offset", i, v)
        \/ \E i \in HdrIdx : \E v \in Boundary(data[i]) : Perturb("word", i, v)
        \/ StartRead \/ Size \/ Offsets \/ Check \/ Lookups
Spec == Init /\ [][Next]_vars

(***************************************************************************)
(* Properties                                                              *)
(***************************************************************************)
ReadsInBounds == \A b \in reads : b >= 0 /\ b < DataLen
DataReadsInBounds == \A k \in dreads : k >= 0 /\ k < maxOff
\* what the engine touches in m_classData (maxOff words) for a class id the bytecode loader lets through (cid < numClass)
FindIdx(c) == IF c <= nLinear THEN O[c]..(O[c + 1] - 1)
              ELSE {O[c]} \cup ((O[c] + 4)..(O[c] + 3 + 2 * Word(O[c])))
GetGlyph(c) == IF c <= nLinear THEN O[c]..(O[c + 1] - 1)
               ELSE UNION {{i, i + 1} : i \in {j \in (O[c] + 4)..(O[c + 1] - 1) : (j - O[c]) % 2 = 0}}
AcceptedIsUsable == outcome = "accept" => \A c \in 1..nClass : \A k \in FindIdx(c) \cup GetGlyph(c) : k >= 0 /\ k < maxOff

CaseRecord == [edits |-> edits, outcome |-> outcome]
EmitDone == (Emit /\ phase = "done") => CSVWrite("%1$s", <<ToJson(CaseRecord)>>, IOEnv.OUT)
=============================================================================
