-------------------------------- MODULE Merge --------------------------------
(***************************************************************************)
(* ShiftCollider::mergeSlot (src/Collider.cpp): for each of the four       *)
(* movement axes the range of target displacements along that axis for     *)
(* which the target's octabox would overlap a neighbour's octabox.         *)
(* Property C17 ("mergeSlot computes per-axis overlap interval [vmin,vmax]  *)
(* by separating-axis projections").                                       *)
(*                                                                         *)
(* Coordinates are those of the code: everything is relative to the        *)
(* target's anchor (its origin without the accumulated collision offset).  *)
(*   t  = <<tx, ty>>  current displacement of the target (offset + shift)  *)
(*   n  = <<sx, sy>>  position of the neighbour (its own shift included)   *)
(*   tb, nb           octaboxes of target and neighbour (Octabox.tla)      *)
(* Axis 0 moves in x (y stays ty), axis 1 in y, axis 2 along x + y (the    *)
(* coordinate is the new x + y, x - y stays), axis 3 along x - y.          *)
(*                                                                         *)
(* VMin/VMax/OMin/.. transcribe the twelve formulas of the main-box loop.  *)
(* ExclusionSound / ExclusionTight relate them to the geometry: the open   *)
(* range (vmin, vmax) is excluded exactly where the two (nominal)          *)
(* octaboxes overlap.  MergeMC.tla has TLC check this on a grid; the       *)
(* recorded exclusions of the real collider are compared with VMin/VMax in *)
(* CollideTrace.tla.                                                       *)
(***************************************************************************)
EXTENDS Octabox

VMin(axis, tb, nb, t, n) ==
  LET sx == n[1] sy == n[2] sd == n[1] - n[2] ss == n[1] + n[2]
      tx == t[1] ty == t[2] td == t[1] - t[2] ts == t[1] + t[2]
  IN  CASE axis = 0 -> Max(Max(nb.xi - tb.xa + sx, nb.di - tb.da + ty + sd), nb.si - tb.sa - ty + ss)
        [] axis = 1 -> Max(Max(nb.yi - tb.ya + sy, tb.di - nb.da + tx - sd), nb.si - tb.sa - tx + ss)
        [] axis = 2 -> Max(Max(nb.si - tb.sa + ss, 2 * (nb.yi - tb.ya + sy) + td), 2 * (nb.xi - tb.xa + sx) - td)
        [] axis = 3 -> Max(Max(nb.di - tb.da + sd, 2 * (nb.xi - tb.xa + sx) - ts), -2 * (nb.ya - tb.yi + sy) + ts)
VMax(axis, tb, nb, t, n) ==
  LET sx == n[1] sy == n[2] sd == n[1] - n[2] ss == n[1] + n[2]
      tx == t[1] ty == t[2] td == t[1] - t[2] ts == t[1] + t[2]
  IN  CASE axis = 0 -> Min(Min(nb.xa - tb.xi + sx, nb.da - tb.di + ty + sd), nb.sa - tb.si - ty + ss)
        [] axis = 1 -> Min(Min(nb.ya - tb.yi + sy, tb.da - nb.di + tx - sd), nb.sa - tb.si - tx + ss)
        [] axis = 2 -> Min(Min(nb.sa - tb.si + ss, 2 * (nb.ya - tb.yi + sy) + td), 2 * (nb.xa - tb.xi + sx) - td)
        [] axis = 3 -> Min(Min(nb.da - tb.di + sd, 2 * (nb.xa - tb.xi + sx) - ts), -2 * (nb.yi - tb.ya + sy) + ts)
\* the projections on the axis orthogonal to the movement: target [OTMin, OTMax], neighbour [OMin, OMax]
OTMin(axis, tb, t) == CASE axis = 0 -> tb.yi + t[2] [] axis = 1 -> tb.xi + t[1] [] axis = 2 -> tb.di + t[1] - t[2] [] axis = 3 -> tb.si + t[1] + t[2]
OTMax(axis, tb, t) == CASE axis = 0 -> tb.ya + t[2] [] axis = 1 -> tb.xa + t[1] [] axis = 2 -> tb.da + t[1] - t[2] [] axis = 3 -> tb.sa + t[1] + t[2]
OMin(axis, nb, n) == CASE axis = 0 -> nb.yi + n[2] [] axis = 1 -> nb.xi + n[1] [] axis = 2 -> nb.di + n[1] - n[2] [] axis = 3 -> nb.si + n[1] + n[2]
OMax(axis, nb, n) == CASE axis = 0 -> nb.ya + n[2] [] axis = 1 -> nb.xa + n[1] [] axis = 2 -> nb.da + n[1] - n[2] [] axis = 3 -> nb.sa + n[1] + n[2]

\* with no margin the loop excludes (vmin, vmax) unless the orthogonal projections are apart
Excludes(axis, tb, nb, t, n, p) ==
  /\ VMin(axis, tb, nb, t, n) < p /\ p < VMax(axis, tb, nb, t, n)
  /\ OMax(axis, nb, n) >= OTMin(axis, tb, t) /\ OMin(axis, nb, n) <= OTMax(axis, tb, t)

\* where the target is when its coordinate on `axis` is p (for the diagonals p and the fixed coordinate must have
\* the same parity for the position to be on the grid)
OnGrid(axis, t, p) == axis \in {0, 1} \/ (axis = 2 /\ (p - (t[1] - t[2])) % 2 = 0) \/ (axis = 3 /\ (p - (t[1] + t[2])) % 2 = 0)
PosAt(axis, t, p) == CASE axis = 0 -> <<p, t[2]>> [] axis = 1 -> <<t[1], p>>
                       [] axis = 2 -> <<(p + (t[1] - t[2])) \div 2, (p - (t[1] - t[2])) \div 2>>
                       [] axis = 3 -> <<((t[1] + t[2]) + p) \div 2, ((t[1] + t[2]) - p) \div 2>>
\* all four nominal projections of the two placed octaboxes overlap in more than a point
NominalOverlap(a, b) == /\ Max(a.xi, b.xi) < Min(a.xa, b.xa) /\ Max(a.yi, b.yi) < Min(a.ya, b.ya)
                        /\ Max(a.si, b.si) < Min(a.sa, b.sa) /\ Max(a.di, b.di) < Min(a.da, b.da)
ExclusionSound(axis, tb, nb, t, n, p) ==
  (OnGrid(axis, t, p) /\ NominalOverlap(Move(tb, PosAt(axis, t, p)), Move(nb, n))) => Excludes(axis, tb, nb, t, n, p)
ExclusionTight(axis, tb, nb, t, n, p) ==
  (OnGrid(axis, t, p) /\ Excludes(axis, tb, nb, t, n, p) /\ OMax(axis, nb, n) > OTMin(axis, tb, t) /\ OMin(axis, nb, n) < OTMax(axis, tb, t))
     => NominalOverlap(Move(tb, PosAt(axis, t, p)), Move(nb, n))
=============================================================================
