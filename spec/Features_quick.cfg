SPECIFICATION Spec
CONSTANTS
  NoWordJump = FALSE
  FeatDefs <- DefsQuick
  MaxFeats = 3
  MaxOps = 2
  SetVals = {}
  Fixed = TRUE
  Emit = TRUE
INVARIANTS PackingOk Refines LastOpOk DefaultsOk EmitDone
