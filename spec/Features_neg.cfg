SPECIFICATION Spec
CONSTANTS
  NoWordJump = TRUE
  FeatDefs <- DefsQuick
  MaxFeats = 3
  MaxOps = 2
  SetVals = {}
  Fixed = TRUE
  Emit = FALSE
INVARIANTS PackingOk Refines LastOpOk DefaultsOk EmitDone
