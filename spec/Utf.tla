------------------------------- MODULE Utf -------------------------------
(***************************************************************************)
(* gr_count_unicode_characters as a state machine over a buffer chosen in  *)
(* Init (operators: UtfOps.tla).  Invariants = clauses of C11, sentence 1. *)
(***************************************************************************)
EXTENDS UtfOps

CONSTANTS MaxLen,        \* longest buffer explored
          Encs,          \* subset of {8,16,32}
          Emit           \* TRUE: write terminal states to IOEnv.OUT

(***************************************************************************)
(* STATE MACHINE: count_unicode_chars                                      *)
(***************************************************************************)
VARIABLES enc, buf, endGiven, pc, i, n, err, reads
vars == <<enc, buf, endGiven, pc, i, n, err, reads>>

Init ==
  /\ enc \in Encs
  /\ endGiven \in BOOLEAN
  /\ buf \in IF endGiven THEN SeqsUpTo(Alpha(enc), MaxLen)
             ELSE {Append(s, 0) : s \in SeqsUpTo(Alpha(enc) \ {0}, MaxLen - 1)}
  /\ pc = "validate" /\ i = 1 /\ n = 0 /\ err = 0 /\ reads = {}

\* Boundary-structured longer buffers: [ASCII] lead/any unit, then three units drawn from the classes that
\* decide continuation / range tests, then optionally one more unit.  (UTF-8 sequences of 4 units and their
\* near misses; surrogate pairs surrounded by context for UTF-16.)
Tail8  == {0, 65, 128, 143, 144, 159, 160, 191, 192}
Tail16 == {0, 65, 55296, 56319, 56320, 57343}
Tail32 == {0, 65, 55296, 1114111, 1114112, -1}
TailOf(e) == CASE e = 8 -> Tail8 [] e = 16 -> Tail16 [] e = 32 -> Tail32
Structured(e) ==
  {pre \o <<a>> \o <<b, c, d>> \o suf :
      pre \in {<< >>, <<65>>}, a \in Alpha(e), b \in TailOf(e), c \in TailOf(e), d \in TailOf(e), suf \in {<< >>, <<65>>, <<128>>}}

InitStructured ==
  /\ enc \in Encs
  /\ endGiven \in BOOLEAN
  /\ buf \in IF endGiven THEN Structured(enc)
             ELSE {Append(SelectSeq(s, LAMBDA x : x # 0), 0) : s \in Structured(enc)}
  /\ pc = "validate" /\ i = 1 /\ n = 0 /\ err = 0 /\ reads = {}

DoValidate ==
  /\ pc = "validate"
  /\ IF endGiven
     THEN LET v == Validate(enc, buf) IN
          /\ reads' = v.rd
          /\ IF v.ok THEN pc' = "loop" /\ UNCHANGED <<n, err>>
             ELSE pc' = "done" /\ n' = 0 /\ err' = Len(buf)      \* *error = last - 1
     ELSE pc' = "loop" /\ UNCHANGED <<reads, n, err>>
  /\ UNCHANGED <<enc, buf, endGiven, i>>

\* one iteration of either loop
DoStep ==
  /\ pc = "loop"
  /\ IF endGiven /\ i > Len(buf)
     THEN pc' = "done" /\ err' = 0 /\ UNCHANGED <<i, n, reads>>      \* first == last, no error
     ELSE LET g == Get(enc, buf, i) IN
          /\ reads' = reads \cup {i + k : k \in g.rd}
          /\ IF g.usv = 0 \/ g.l < 1
             THEN pc' = "done" /\ err' = (IF g.l < 1 THEN i ELSE 0) /\ UNCHANGED <<i, n>>
             ELSE pc' = "loop" /\ i' = i + Abs(g.l) /\ n' = n + 1 /\ UNCHANGED err
  /\ UNCHANGED <<enc, buf, endGiven>>

Done == pc = "done" /\ UNCHANGED vars

Next == DoValidate \/ DoStep \/ Done
Spec == Init /\ [][Next]_vars /\ WF_vars(DoValidate \/ DoStep)
SpecStructured == InitStructured /\ [][Next]_vars /\ WF_vars(DoValidate \/ DoStep)

(***************************************************************************)
(* PROPERTIES (C11, first sentence)                                        *)
(***************************************************************************)
TextScan == Scan(enc, buf, 1, 0)
TextWF   == TextScan.why # "ill"

\* never reads outside [begin, end); without an end, never beyond the terminating NUL
ReadsInBounds == \A r \in reads : r >= 1 /\ r <= Len(buf)

\* well-formed text, no truncated tail => exact count, no error
ExactWhenWellFormed ==
  (pc = "done" /\ TextWF /\ ~(endGiven /\ TruncTail(enc, buf))) => (n = TextScan.n /\ err = 0)

\* ill-formed text => an error is reported
ErrorWhenIllFormed == (pc = "done" /\ ~TextWF) => err # 0

\* a reported error points inside the buffer, the count is at most the well-formed prefix
ErrorIsSound == (pc = "done" /\ err # 0) => (err >= 1 /\ err <= Len(buf) /\ n <= TextScan.n)

\* decoder agrees with the declarative definition on every position of every buffer
GetAgrees ==
  \A k \in 1..Len(buf) :
    LET g == Get(enc, buf, k) w == WFLen(enc, buf, k) IN
      /\ (w > 0 => (g.l = w /\ g.usv = WFVal(enc, buf, k)))
      /\ (w = 0 => (g.l < 0 /\ g.usv = 65533 /\ Abs(g.l) >= 1))
      /\ (\A r \in g.rd : k + r <= Len(buf) \/ w = 0)   \* well-formed decodes stay inside

Terminates == <>(pc = "done")

(***************************************************************************)
(* Emission of explored cases for replay (L2).                             *)
(***************************************************************************)
CaseRecord ==
  [enc |-> enc, buf |-> buf, endGiven |-> endGiven,
   wf |-> TextWF, trunc |-> (endGiven /\ TruncTail(enc, buf)), nwf |-> TextScan.n,
   mcount |-> n, merr |-> err]

EmitDone == (Emit /\ pc = "done") => CSVWrite("%1$s", <<ToJson(CaseRecord)>>, IOEnv.OUT)
=============================================================================
