SPECIFICATION Spec
CONSTANTS
  NG = 2
  Pts <- MCPts
  Boxes <- MCBoxes
  Rects <- MCRects
  Tol = 0
  Fixable = {1}
  Guarded = TRUE
INVARIANT AccumInLimit
CONSTRAINT Bound
