SPECIFICATION Spec
CONSTANTS
  N0 = 2
  Budget0 = 3
  MaxLoop = 3
  MaxOps = 2
  Deltas <- D5
  LoopLimit = TRUE
INVARIANTS IterBound Growth CursorOK
PROPERTY Terminates
