-------------------------- MODULE UtfTextTrace --------------------------
(* Validation of char-infos recorded from the real gr_make_seg against the ingestion
   contract of UtfTextOps: one state per recorded call, the invariant is the contract. *)
EXTENDS UtfTextOps

Records == ndJsonDeserialize(IOEnv.TRACE)

VARIABLE k
Init == k = 1
Next == k < Len(Records) /\ k' = k + 1
Spec == Init /\ [][Next]_k

Got(r) == [j \in 1..Len(r.usv) |-> [usv |-> r.usv[j], base |-> r.base[j]]]

RecordOk ==
  LET r == Records[k] IN
    /\ Explains(Expect(r.enc, r.items, 1, 0), 1, Got(r), 1, r.nChars)
    /\ \A j \in 1..(Len(r.usv) - 1) : r.base[j] < r.base[j+1]

AllSeen == TLCGet("stats").diameter = Len(Records)
=============================================================================
