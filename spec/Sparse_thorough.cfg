SPECIFICATION Spec
CONSTANTS
  Keys = {0, 1, 2, 46, 47, 48, 49, 95, 96, 250}
  Vals = {0, 7}
  MaxRuns = 3
  MaxRun = 3
  Emit = TRUE
  CheckOrder = TRUE
INVARIANTS WritesInBounds LookupsInBounds LookupsRight EmitDone
