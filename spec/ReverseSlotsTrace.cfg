SPECIFICATION TSpec
CONSTANTS
  MaxLen = 100
  KeepLast = TRUE
  Emit = FALSE
POSTCONDITION Accepted
CHECK_DEADLOCK FALSE
