SPECIFICATION Spec
CONSTANTS
  NG = 3
  Pts <- MCPts
  Boxes <- MCBoxes
  Rects <- MCRects
  Tol = 0
  Fixable = {1}
  Guarded = TRUE
INVARIANT AccumInLimit
CONSTRAINT Bound
