SPECIFICATION Spec
CONSTANTS
  N = 5
  FullLink = TRUE
INVARIANTS TypeOK ChainRestored NoDangling LinkedWhilePassesRun MarkersReachable MarkersFreed
PROPERTY Returns
