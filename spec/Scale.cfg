SPECIFICATION Spec
INVARIANTS StructureSame PositionsScale
POSTCONDITION AllSeen
