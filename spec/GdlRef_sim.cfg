SPECIFICATION Spec
CONSTANTS
  NG = 6
  Classes <- Cls4
  Adv <- AdvF
  GAttr <- GAttrF
  MaxRules = 3
  MaxPasses = 3
  MaxLen = 4
  MaxText = 6
  Rtl = 0
  NFeat = 2
  Ops <- OpsAll
  Emit = TRUE
INVARIANTS TypeOK StreamOK SkipSound EmitDone
