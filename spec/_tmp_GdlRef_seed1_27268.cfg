SPECIFICATION SpecSeeded
CONSTANTS
  NG = 6
  Classes <- Cls4
  Adv <- AdvF
  GAttr <- GAttrF
  MaxRules = 4
  MaxPasses = 4
  MaxLen = 4
  MaxText = 4
  Rtl = 1
  NFeat = 0
  Ops <- OpsAll
  Emit = TRUE
INVARIANTS TypeOK StreamOK SkipSound EmitDone
