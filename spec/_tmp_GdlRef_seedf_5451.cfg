SPECIFICATION SpecSeededF
CONSTANTS
  NG = 6
  Classes <- Cls4
  Adv <- AdvF
  GAttr <- GAttrF
  MaxRules = 4
  MaxPasses = 4
  MaxLen = 4
  MaxText = 3
  Rtl = 0
  NFeat = 2
  Ops <- OpsAll
  Emit = TRUE
INVARIANTS TypeOK StreamOK SkipSound EmitDone
