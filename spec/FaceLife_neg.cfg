SPECIFICATION Spec
CONSTANTS
  Kinds = {"good", "noname", "badlabel", "compressed", "badsilf", "nocmap", "nogloc"}
  MaxOps = 4
  NameMemo = FALSE
  Emit = FALSE
INVARIANTS NoCallbackWhenPreloaded NothingHeldWhenGone HeldIsStable TypeOK EmitDone
