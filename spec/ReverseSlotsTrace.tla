------------------------- MODULE ReverseSlotsTrace -------------------------
(* Validation of the real Segment::reverseSlots against ReverseSlots.tla.  The harness (grv revslots) shapes every
   sequence of bases and marks against the direction of a font whose only rule changes nothing; hook event 8 reports
   the stream (by original slot numbers) after every call of the routine, the public API reports the stream the client
   finally walks.  Each Rev event must be the specified reversal of the stream as it was, the final stream must be
   the state reached; a Case event starts the next sequence. *)
EXTENDS ReverseSlots

Log == ndJsonDeserialize(IOEnv.TRACE)
VARIABLES l, order        \* order: the stream as a sequence of original slot numbers
tvars == <<vars, l, order>>
Ev == Log[l]
IsEvent(e) == l <= Len(Log) /\ Ev.e = e /\ l' = l + 1

TInit == Init /\ l = 1 /\ order = << >>
TCase == /\ IsEvent("Case")
         /\ seq' = Ev.seq /\ done' = TRUE
         /\ order' = [i \in 1..Len(Ev.seq) |-> i]
\* classes of the stream as it is now, the specified reversal of that, expressed in original slot numbers
Now == [i \in 1..Len(order) |-> seq[order[i]]]
Reversed == LET e == Expected(Now) IN [i \in 1..Len(order) |-> order[e[i]]]
TRev == /\ IsEvent("Rev")
        /\ Ev.order = Reversed
        /\ order' = Reversed
        /\ UNCHANGED vars
TFinal == /\ IsEvent("Final")
          /\ Ev.ok = 1 /\ Ev.order = order
          /\ UNCHANGED <<vars, order>>
TNext == TCase \/ TRev \/ TFinal
TSpec == TInit /\ [][TNext]_tvars
Accepted == TLCGet("stats").diameter - 1 = Len(Log)
=============================================================================
