---------------------------- MODULE GdlRefTrace ----------------------------
(* Validation of the rule loop of the real engine against GdlRef.tla, step by step.  The harness (grv gdl ... trace)
   records, for every case, one event per call of Pass::findNDoRule - the rule that fired (0 = none) and the position
   of the cursor in the stream - and one event per finished pass (GRAPHITE2_VERIF hook events 2 and 1).  Each Step
   event must be the StepRun of the reference semantics at that cursor with that winning rule, each PassEnd its
   NextPass; a Case event starts the next (program, text, feature vector).
   The engine may leave a pass out altogether (the segment's pass-skip bits, Silf::runGraphite): hook event 5 says which
   pass it is about to run (PassBegin).  Leaving passes out is accepted only where it cannot be seen - no rule of a
   skipped pass has a winner at any position of the stream as it then is - also for the passes still outstanding
   when the call returns (CaseEnd). *)
EXTENDS GdlRef

Log == ndJsonDeserialize(IOEnv.TRACE)
VARIABLE l
tvars == <<vars, l>>
Ev == Log[l]
IsEvent(e) == l <= Len(Log) /\ Ev.e = e /\ l' = l + 1

TInit == Init /\ l = 1

TCase == /\ IsEvent("Case")
         /\ prog' = Ev.prog /\ text' = Ev.text /\ feats' = Ev.feats /\ cfeats' = Ev.feats
         /\ phase' = "run" /\ bpos' = "pass"
         /\ stream' = [i \in 1..Len(Ev.text) |-> i]
         /\ slot' = [i \in 1..Len(Ev.text) |-> [gid |-> Ev.text[i], adv |-> Adv[Ev.text[i]], user |-> 0, user2 |-> 0, shift |-> 0, par |-> 0, att |-> 0, with |-> 0]]
         /\ nextid' = Len(Ev.text) + 1 /\ pass' = 1 /\ cur' = 1 /\ fired' = 0 /\ stuck' = FALSE

TStep == /\ IsEvent("Step")
         /\ phase = "run" /\ pass <= Len(prog) /\ cur <= Len(stream)
         /\ Ev.pos = cur
         /\ Ev.rule = Winner(pass, cur)
         /\ StepRun

TPassEnd == IsEvent("PassEnd") /\ NextPass

\* running pass q on the present stream would change nothing
Invisible(q) == \A i \in 1..Len(stream) : Winner(q, i) = 0
TPassBegin == /\ IsEvent("PassBegin")
              /\ phase = "run" /\ cur = 1 /\ Ev.p >= pass /\ Ev.p <= Len(prog)
              /\ \A q \in pass..(Ev.p - 1) : Invisible(q)
              /\ pass' = Ev.p
              /\ UNCHANGED <<prog, text, phase, bpos, stream, slot, nextid, cur, fired, stuck, feats, cfeats>>
TCaseEnd == /\ IsEvent("CaseEnd")
            /\ phase = "run" /\ cur = 1
            /\ \A q \in pass..Len(prog) : Invisible(q)
            /\ UNCHANGED vars

TNext == TCase \/ TStep \/ TPassEnd \/ TPassBegin \/ TCaseEnd
TSpec == TInit /\ [][TNext]_tvars
Accepted == TLCGet("stats").diameter - 1 = Len(Log)
=============================================================================
