------------------------------ MODULE Threads ------------------------------
(***************************************************************************)
(* Concurrent shapers on one shared face and font.  Property C09.          *)
(*                                                                         *)
(* Shared locations reachable from gr_make_seg / label queries after the   *)
(* face has been returned (Appendix A of DESIGN.md, "Resources"):          *)
(*   glyph[g]   GlyphCache::_glyphs/_boxes entry  - written on first use   *)
(*              unless gr_face_preloadGlyphs loaded everything up front    *)
(*   names      Face::m_pNames                    - written on first label *)
(*              query unless preloaded with the glyphs                     *)
(*   adv[g]     Font::m_advances entry            - written on first use,  *)
(*              only consulted for fonts with advance callbacks (hinted)   *)
(*   cmap       CachedCmap blocks / DirectCmap table - read only           *)
(* Each thread repeatedly picks a job (shape a text = read/fill the glyph  *)
(* entries of its glyphs, or query a label) and performs its accesses one  *)
(* at a time; the two accesses of a "check then fill" are separate steps,  *)
(* so TLC explores every interleaving.                                     *)
(*                                                                         *)
(* NoRace: no state in which two threads are about to access the same      *)
(* location and at least one of them writes.                               *)
(***************************************************************************)
EXTENDS Integers, Sequences, FiniteSets, TLC

CONSTANTS Thr,            \* thread ids
          Glyphs,         \* glyph ids used by the texts
          TextsOf,        \* thread -> sequence of texts, a text = sequence of glyphs
          PreloadGlyphs, Hinted    \* configuration

VARIABLES loaded,   \* glyph entries present in the cache
          names,    \* name table copied
          advset,   \* font advances filled
          pc,       \* thread -> [job, text, pos, stage]
          gets      \* table callbacks invoked after the face was returned
vars == <<loaded, names, advset, pc, gets>>

Idle == [job |-> 0, pos |-> 0, stage |-> "idle"]

Init == /\ loaded = IF PreloadGlyphs THEN Glyphs ELSE {}
        /\ names = PreloadGlyphs
        /\ advset = {}
        /\ pc = [t \in Thr |-> Idle]
        /\ gets = 0

\* the access thread t is about to perform: [loc, rw] or NONE
NONE == [loc |-> <<"none", 0>>, rw |-> "R"]
CurGlyph(t) == TextsOf[t][pc[t].job][pc[t].pos]
Access(t) ==
  LET p == pc[t] IN
  CASE p.stage = "check"   -> [loc |-> <<"glyph", CurGlyph(t)>>, rw |-> "R"]
    [] p.stage = "fill"    -> [loc |-> <<"glyph", CurGlyph(t)>>, rw |-> "W"]
    [] p.stage = "adv"     -> [loc |-> <<"adv", CurGlyph(t)>>, rw |-> IF CurGlyph(t) \in advset THEN "R" ELSE "W"]
    [] p.stage = "ncheck"  -> [loc |-> <<"names", 0>>, rw |-> "R"]
    [] p.stage = "nfill"   -> [loc |-> <<"names", 0>>, rw |-> "W"]
    [] OTHER -> NONE

StartShape(t) == /\ pc[t].stage = "idle" /\ pc[t].job < Len(TextsOf[t])
                 /\ pc' = [pc EXCEPT ![t] = [job |-> pc[t].job + 1, pos |-> 1, stage |-> "check"]]
                 /\ UNCHANGED <<loaded, names, advset, gets>>
StartLabel(t) == /\ pc[t].stage = "idle"
                 /\ pc' = [pc EXCEPT ![t] = [@ EXCEPT !.stage = "ncheck"]]
                 /\ UNCHANGED <<loaded, names, advset, gets>>

NextGlyph(t, p) == IF p.pos < Len(TextsOf[t][p.job]) THEN [p EXCEPT !.pos = p.pos + 1, !.stage = "check"] ELSE [p EXCEPT !.stage = "idle"]

Step(t) ==
  LET p == pc[t] IN
  \/ /\ p.stage = "check"                         \* GlyphCache::glyph: p == 0 && _glyph_loader ?
     /\ pc' = [pc EXCEPT ![t] = IF CurGlyph(t) \in loaded THEN (IF Hinted THEN [p EXCEPT !.stage = "adv"] ELSE NextGlyph(t, p))
                                ELSE [p EXCEPT !.stage = "fill"]]
     /\ UNCHANGED <<loaded, names, advset, gets>>
  \/ /\ p.stage = "fill"                          \* lazy load writes the cache entry
     /\ loaded' = loaded \cup {CurGlyph(t)}
     /\ pc' = [pc EXCEPT ![t] = IF Hinted THEN [p EXCEPT !.stage = "adv"] ELSE NextGlyph(t, p)]
     /\ UNCHANGED <<names, advset, gets>>
  \/ /\ p.stage = "adv"                           \* Font::advance: fill on first use
     /\ advset' = advset \cup {CurGlyph(t)}
     /\ pc' = [pc EXCEPT ![t] = NextGlyph(t, p)]
     /\ UNCHANGED <<loaded, names, gets>>
  \/ /\ p.stage = "ncheck"
     /\ pc' = [pc EXCEPT ![t] = IF names THEN [p EXCEPT !.stage = "idle"] ELSE [p EXCEPT !.stage = "nfill"]]
     /\ UNCHANGED <<loaded, names, advset, gets>>
  \/ /\ p.stage = "nfill"                         \* Face::nameTable: get_table + copy + store pointer
     /\ names' = TRUE /\ gets' = gets + 1
     /\ pc' = [pc EXCEPT ![t] = [p EXCEPT !.stage = "idle"]]
     /\ UNCHANGED <<loaded, advset>>

Next == \E t \in Thr : StartShape(t) \/ StartLabel(t) \/ Step(t)
Spec == Init /\ [][Next]_vars

Conflict(a, b) == a.loc = b.loc /\ a.loc[1] # "none" /\ (a.rw = "W" \/ b.rw = "W")
NoRace == \A t, u \in Thr : t # u => ~Conflict(Access(t), Access(u))
NoCallback == gets = 0
\* the premise the conformance run checks on real executions: after the face is returned nothing shared is written
NoSharedWrite == \A t \in Thr : Access(t).rw = "R"
=============================================================================
