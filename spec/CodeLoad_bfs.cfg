SPECIFICATION Spec
CONSTANTS
  NClasses = 4
  NUser = 2
  NGAttr = 8
  MaxCode = 3
  Emit = TRUE
INVARIANTS Book EmitDone
