SPECIFICATION Spec
CONSTANTS
  Vals <- ValsFull
  Masks <- MasksFull
  MaxLen = 3
  AllForms = FALSE
  BadLoads = TRUE
  Emit = TRUE
INVARIANTS LoaderSound Progress TypeOK StackSmall ArithOK EmitDone
