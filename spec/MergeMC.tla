------------------------------- MODULE MergeMC -------------------------------
(* TLC checks the exclusion formulas of Merge.tla against the geometry for every pair of octaboxes of a small family,
   every relative position, current displacement and candidate coordinate of a grid. *)
EXTENDS Merge, TLC
CONSTANTS R, Mutant      \* Mutant = TRUE: negative control (axis 0 uses the target's xi where xa belongs)
VARIABLES tb, nb, t, n
Boxes == {Oct(0, 2, 0, 2, 0, 4, -2, 2), Oct(0, 2, 0, 2, 1, 3, -2, 2), Oct(0, 2, 0, 2, 0, 4, -1, 1), Oct(-1, 2, 0, 1, -1, 3, -2, 2), Oct(0, 1, 0, 3, 1, 3, -3, 0)}
Init == tb \in Boxes /\ nb \in Boxes /\ t \in (-1..1) \X (-1..1) /\ n \in (-R..R) \X (-R..R)
Next == UNCHANGED <<tb, nb, t, n>>
Spec == Init /\ [][Next]_<<tb, nb, t, n>>
Ps == (-3 * R - 6)..(3 * R + 6)
VMinM(axis) == IF Mutant /\ axis = 0
               THEN Max(Max(nb.xi - tb.xi + n[1], nb.di - tb.da + t[2] + n[1] - n[2]), nb.si - tb.sa - t[2] + n[1] + n[2])
               ELSE VMin(axis, tb, nb, t, n)
Sound == \A axis \in 0..3, p \in Ps : ExclusionSound(axis, tb, nb, t, n, p)
Tight == \A axis \in 0..3, p \in Ps : ExclusionTight(axis, tb, nb, t, n, p)
SoundM == \A p \in Ps : (NominalOverlap(Move(tb, <<p, t[2]>>), Move(nb, n)) => VMinM(0) < p)
=============================================================================
