------------------------------- MODULE Readers -------------------------------
(***************************************************************************)
(* Table readers as guarded cursors over a byte buffer of known length.    *)
(* Property C01 (and the assume/guarantee interface to C02: an accepted    *)
(* table is usable).  This module models Pass::readPass with readRanges,   *)
(* readRules' rule map and readStates (src/Pass.cpp): every block of reads *)
(* is an action guarded by the e.test(...) conditions that precede it, in  *)
(* the order of the code, and records the byte ranges it touches           *)
(* (including the peeks the guards themselves perform).                    *)
(*                                                                         *)
(* A pass is given by its header fields and arrays (constants Base*, taken *)
(* from a pass fontgen built, so that the assignment can be written back   *)
(* into real bytes); a behaviour perturbs one or two fields to boundary    *)
(* values (0, 1, v-1, v+1, the type's maximum, values around the table     *)
(* length) and runs the reader.                                            *)
(*                                                                         *)
(* ReadsInBounds: no read outside [0, len).                                *)
(* ColsInBounds:  readRanges writes m_cols only inside [0, numGlyphs).     *)
(* AcceptedIsUsable: what the run-time engine indexes with is in range.    *)
(***************************************************************************)
EXTENDS Integers, Sequences, FiniteSets, TLC, Json, IOUtils, CSV

CONSTANTS BaseHdr,      \* record of header scalars of a valid pass
          BaseRanges,   \* Seq([first, last, col])
          BaseORM,      \* oRuleMap (numSuccess + 1 entries)
          BaseRM,       \* ruleMap
          BaseStarts, BaseSorts, BasePres, BaseOCon, BaseOAct, BaseTrans,
          PLen,         \* pass length in bytes
          SubBase,      \* offset of the pass in its Silf subtable (pcCode etc. are subtable relative)
          MaxPerturb,   \* how many fields a behaviour rewrites (1 or 2)
          Emit

ScalarNames == {"numRules", "pcCode", "rcCode", "aCode", "numRows", "numTransitional", "numSuccess", "numColumns", "numRange",
                "minPre", "maxPre", "pConstraintLen"}
ArrNames == {"range.first", "range.last", "range.col", "oRuleMap", "ruleMap", "start", "sort", "pre", "oCon", "oAct", "trans"}

Max16 == 65535
Boundary(v, w) == LET mx == IF w = 1 THEN 255 ELSE IF w = 2 THEN 65535 ELSE 1073741823 IN
                  {x \in {0, 1, v - 1, v + 1, mx, mx - 1, PLen, PLen - 1, PLen + 1, PLen \div 2, v * 2} : x >= 0 /\ x <= mx /\ x # v}
Width(n) == IF n \in {"minPre", "maxPre", "pre"} THEN 1 ELSE IF n \in {"pcCode", "rcCode", "aCode"} THEN 4 ELSE 2

VARIABLES hdr, ranges, orm, rm, starts, sorts, pres, ocon, oact, trans, npert, edits, phase, outcome, reads, colw
vars == <<hdr, ranges, orm, rm, starts, sorts, pres, ocon, oact, trans, npert, edits, phase, outcome, reads, colw>>

Init == /\ hdr = BaseHdr /\ ranges = BaseRanges /\ orm = BaseORM /\ rm = BaseRM /\ starts = BaseStarts /\ sorts = BaseSorts
        /\ pres = BasePres /\ ocon = BaseOCon /\ oact = BaseOAct /\ trans = BaseTrans
        /\ npert = 0 /\ edits = << >> /\ phase = "perturb" /\ outcome = "none" /\ reads = {} /\ colw = {}

Ed(name, idx, val) == [name |-> name, idx |-> idx, val |-> val]
Ends(s) == {1, Len(s)} \cap (1..Len(s))

PerturbScalar(n, v) ==
  /\ phase = "perturb" /\ npert < MaxPerturb /\ v \in Boundary(hdr[n], Width(n))
  /\ hdr' = [hdr EXCEPT ![n] = v] /\ npert' = npert + 1 /\ edits' = Append(edits, Ed(n, 0, v))
  /\ UNCHANGED <<ranges, orm, rm, starts, sorts, pres, ocon, oact, trans, phase, outcome, reads, colw>>

PerturbArr(n, i, v) ==
  /\ phase = "perturb" /\ npert < MaxPerturb
  /\ CASE n = "range.first" -> i \in Ends(ranges) /\ v \in Boundary(ranges[i].first, 2) /\ ranges' = [ranges EXCEPT ![i].first = v] /\ UNCHANGED <<orm, rm, starts, sorts, pres, ocon, oact, trans>>
       [] n = "range.last"  -> i \in Ends(ranges) /\ v \in Boundary(ranges[i].last, 2) /\ ranges' = [ranges EXCEPT ![i].last = v] /\ UNCHANGED <<orm, rm, starts, sorts, pres, ocon, oact, trans>>
       [] n = "range.col"   -> i \in Ends(ranges) /\ v \in Boundary(ranges[i].col, 2) /\ ranges' = [ranges EXCEPT ![i].col = v] /\ UNCHANGED <<orm, rm, starts, sorts, pres, ocon, oact, trans>>
       [] n = "oRuleMap"    -> i \in Ends(orm) /\ v \in Boundary(orm[i], 2) /\ orm' = [orm EXCEPT ![i] = v] /\ UNCHANGED <<ranges, rm, starts, sorts, pres, ocon, oact, trans>>
       [] n = "ruleMap"     -> i \in Ends(rm) /\ v \in Boundary(rm[i], 2) /\ rm' = [rm EXCEPT ![i] = v] /\ UNCHANGED <<ranges, orm, starts, sorts, pres, ocon, oact, trans>>
       [] n = "start"       -> i \in Ends(starts) /\ v \in Boundary(starts[i], 2) /\ starts' = [starts EXCEPT ![i] = v] /\ UNCHANGED <<ranges, orm, rm, sorts, pres, ocon, oact, trans>>
       [] n = "sort"        -> i \in Ends(sorts) /\ v \in Boundary(sorts[i], 2) /\ sorts' = [sorts EXCEPT ![i] = v] /\ UNCHANGED <<ranges, orm, rm, starts, pres, ocon, oact, trans>>
       [] n = "pre"         -> i \in Ends(pres) /\ v \in Boundary(pres[i], 1) /\ pres' = [pres EXCEPT ![i] = v] /\ UNCHANGED <<ranges, orm, rm, starts, sorts, ocon, oact, trans>>
       [] n = "oCon"        -> i \in Ends(ocon) /\ v \in Boundary(ocon[i], 2) /\ ocon' = [ocon EXCEPT ![i] = v] /\ UNCHANGED <<ranges, orm, rm, starts, sorts, pres, oact, trans>>
       [] n = "oAct"        -> i \in Ends(oact) /\ v \in Boundary(oact[i], 2) /\ oact' = [oact EXCEPT ![i] = v] /\ UNCHANGED <<ranges, orm, rm, starts, sorts, pres, ocon, trans>>
       [] n = "trans"       -> i \in Ends(trans) /\ v \in Boundary(trans[i], 2) /\ trans' = [trans EXCEPT ![i] = v] /\ UNCHANGED <<ranges, orm, rm, starts, sorts, pres, ocon, oact>>
  /\ npert' = npert + 1 /\ edits' = Append(edits, Ed(n, i, v))
  /\ UNCHANGED <<hdr, phase, outcome, reads, colw>>

\* ---- the reader ------------------------------------------------------------------------------
\* Arrays are laid out at the positions the BASE sizes give them (the bytes do not move when a count field is
\* rewritten); the reader computes its own positions from the (possibly rewritten) counts - that is the point.
Rng(a, n) == IF n <= 0 THEN {} ELSE a..(a + n - 1)

\* value of the 16-bit word the reader finds at pass offset `at` (only used for the words it peeks at); unknown
\* content (bytes of another array, code bytes) is modelled as 0 - the guards must hold for any content, and the
\* conformance run uses the real bytes
Reader ==
  LET nr == hdr["numRules"] ns == hdr["numSuccess"] nt == hdr["numTransitional"] nst == hdr["numRows"] nc == hdr["numColumns"] nrng == hdr["numRange"]
      R0 == Rng(0, 40)
  IN
  IF PLen < 40 THEN [out |-> "E_BADPASSLENGTH", rd |-> {}, usable |-> TRUE]
  ELSE IF nt > nst \/ ns > nst \/ ns + nt < nst \/ (nr # 0 /\ nrng = 0) \/ nc > 32767 THEN [out |-> "E_BADNUM", rd |-> R0, usable |-> TRUE]
  ELSE IF nr = 0 THEN [out |-> "E_BADEMPTYPASS", rd |-> R0, usable |-> TRUE]
  ELSE IF 40 + nrng * 6 - 2 > PLen THEN [out |-> "E_BADPASSLENGTH", rd |-> R0, usable |-> TRUE]
  ELSE LET R1 == R0 \cup Rng(40 + nrng * 6 - 4, 2)                      \* m_numGlyphs = peek(last range's `last`) + 1
           lastIdx == IF nrng <= Len(ranges) THEN nrng ELSE 0
           numGlyphs == (IF lastIdx > 0 THEN ranges[lastIdx].last ELSE 0) + 1
           orm0 == 40 + nrng * 6
           p1 == orm0 + (ns + 1) * 2
       IN
       IF orm0 + ns * 2 > PLen \/ p1 > PLen THEN [out |-> "E_BADRULEMAPLEN", rd |-> R1, usable |-> TRUE]
       ELSE LET R2 == R1 \cup Rng(orm0 + ns * 2, 2)
                numEntries == IF ns + 1 <= Len(orm) /\ nrng = Len(ranges) THEN orm[ns + 1] ELSE 0
                p2 == p1 + numEntries * 2
            IN
            IF p2 + 2 > PLen THEN [out |-> "E_BADPASSLENGTH", rd |-> R2, usable |-> TRUE]
            ELSE LET R3 == R2 \cup Rng(p2, 2)
                     minp == hdr["minPre"] maxp == hdr["maxPre"]
                 IN
                 IF minp > maxp THEN [out |-> "E_BADCTXTLENBOUNDS", rd |-> R3, usable |-> TRUE]
                 ELSE LET p3 == p2 + 2 + (maxp - minp + 1) * 2 + nr * 2 + nr IN
                      IF p3 + 3 > PLen THEN [out |-> "E_BADCTXTLENS", rd |-> R3, usable |-> TRUE]
                      ELSE LET R4 == R3 \cup Rng(p3, 3)
                               pcl == hdr["pConstraintLen"]
                               ocon0 == p3 + 3
                               oact0 == ocon0 + (nr + 1) * 2
                               states == oact0 + (nr + 1) * 2
                           IN
                           IF 2 * nt * nc >= PLen - states \/ states >= PLen THEN [out |-> "E_BADPASSLENGTH", rd |-> R4, usable |-> TRUE]
                           ELSE LET p4 == states + nt * nc * 2 + 1
                                    pc == hdr["pcCode"] - SubBase rc == hdr["rcCode"] - SubBase ac == hdr["aCode"] - SubBase
                                IN
                                IF p4 # pc THEN [out |-> "E_BADPASSCCODEPTR", rd |-> R4, usable |-> TRUE]
                                ELSE IF p4 + pcl # rc \/ rc - pc # pcl THEN [out |-> "E_BADRULECCODEPTR", rd |-> R4, usable |-> TRUE]
                                ELSE LET R5 == R4 \cup Rng(ocon0 + nr * 2, 2)
                                         conLen == IF nr + 1 <= Len(ocon) /\ nr = Len(sorts) THEN ocon[nr + 1] ELSE 0
                                         p5 == rc + conLen
                                     IN
                                     IF p5 # ac THEN [out |-> "E_BADACTIONCODEPTR", rd |-> R5, usable |-> TRUE]
                                     ELSE LET R6 == R5 \cup Rng(oact0 + nr * 2, 2)
                                              actLen == IF nr + 1 <= Len(oact) /\ nr = Len(sorts) THEN oact[nr + 1] ELSE 0
                                          IN
                                          IF ac + actLen > PLen THEN [out |-> "E_BADPASSLENGTH", rd |-> R6, usable |-> TRUE]
                                          ELSE [out |-> "layout-ok", rd |-> R6 \cup Rng(40, nrng * 6) \cup Rng(p1, numEntries * 2)
                                                                           \cup Rng(p2 + 2, (maxp - minp + 1) * 2 + nr * 3) \cup Rng(ocon0, (nr + 1) * 4)
                                                                           \cup Rng(states, nt * nc * 2),
                                                usable |-> TRUE, numGlyphs |-> numGlyphs, numEntries |-> numEntries]

\* readRanges / rule map / readStates on a layout-ok pass whose counts equal the base (content checks)
ContentOutcome ==
  LET ng == (IF ranges = << >> THEN 0 ELSE ranges[Len(ranges)].last) + 1
      badRange == \E i \in 1..Len(ranges) : ranges[i].first >= ranges[i].last + 1 \/ ranges[i].last + 1 > ng \/ ranges[i].col >= hdr["numColumns"]
      overlap == \E i, j \in 1..Len(ranges) : i < j /\ ranges[j].first <= ranges[i].last /\ ranges[i].first <= ranges[j].last
      badRule == \E i \in 1..Len(sorts) : sorts[i] > 63 \/ pres[i] >= sorts[i] \/ pres[i] > hdr["maxPre"] \/ pres[i] < hdr["minPre"]
      badRuleNum == \E i \in 1..Len(rm) : rm[i] >= hdr["numRules"]
      badStart == \E i \in 1..Len(starts) : starts[i] >= hdr["numRows"]
      badTrans == \E i \in 1..Len(trans) : trans[i] >= hdr["numRows"]
      nEnt == orm[Len(orm)]
      badMap == \E i \in 1..(Len(orm) - 1) : orm[i] >= nEnt \/ orm[i + 1] > nEnt \/ orm[i] > orm[i + 1]
  IN  IF badRange \/ overlap THEN "E_BADRANGE" ELSE IF badRule THEN "rule-rejected" ELSE IF badRuleNum THEN "E_BADRULENUM"
      ELSE IF badStart \/ badTrans THEN "E_BADSTATE" ELSE IF badMap THEN "E_BADRULEMAPPING" ELSE "accept"

CountsAsBase == hdr["numRules"] = Len(sorts) /\ hdr["numRange"] = Len(ranges) /\ hdr["numSuccess"] + 1 = Len(orm)
                /\ hdr["numTransitional"] * hdr["numColumns"] = Len(trans) /\ hdr["maxPre"] - hdr["minPre"] + 1 = Len(starts)

Run ==
  /\ phase = "perturb"
  /\ LET r == Reader IN
     /\ reads' = r.rd
     /\ outcome' = IF r.out # "layout-ok" THEN r.out ELSE IF CountsAsBase THEN ContentOutcome ELSE "layout-ok"
     \* m_cols writes of readRanges: each range fills [first, last] while ci != ci_end, guarded by ci_end <= m_cols + numGlyphs
     /\ colw' = IF r.out = "layout-ok" /\ CountsAsBase
                THEN UNION {IF ranges[i].first >= ranges[i].last + 1 \/ ranges[i].last + 1 > r.numGlyphs THEN {} ELSE ranges[i].first..ranges[i].last : i \in 1..Len(ranges)}
                ELSE {}
  /\ phase' = "done"
  /\ UNCHANGED <<hdr, ranges, orm, rm, starts, sorts, pres, ocon, oact, trans, npert, edits>>

Next == \/ \E n \in ScalarNames : \E v \in Boundary(hdr[n], Width(n)) : PerturbScalar(n, v)
        \/ \E n \in {"range.first", "range.last", "range.col"} : \E i \in Ends(ranges) : \E v \in Boundary(IF n = "range.first" THEN ranges[i].first ELSE IF n = "range.last" THEN ranges[i].last ELSE ranges[i].col, 2) : PerturbArr(n, i, v)
        \/ \E i \in Ends(orm) : \E v \in Boundary(orm[i], 2) : PerturbArr("oRuleMap", i, v)
        \/ \E i \in Ends(rm) : \E v \in Boundary(rm[i], 2) : PerturbArr("ruleMap", i, v)
        \/ \E i \in Ends(starts) : \E v \in Boundary(starts[i], 2) : PerturbArr("start", i, v)
        \/ \E i \in Ends(sorts) : \E v \in Boundary(sorts[i], 2) : PerturbArr("sort", i, v)
        \/ \E i \in Ends(pres) : \E v \in Boundary(pres[i], 1) : PerturbArr("pre", i, v)
        \/ \E i \in Ends(ocon) : \E v \in Boundary(ocon[i], 2) : PerturbArr("oCon", i, v)
        \/ \E i \in Ends(oact) : \E v \in Boundary(oact[i], 2) : PerturbArr("oAct", i, v)
        \/ \E i \in Ends(trans) : \E v \in Boundary(trans[i], 2) : PerturbArr("trans", i, v)
        \/ Run
Spec == Init /\ [][Next]_vars

ReadsInBounds == \A r \in reads : r >= 0 /\ r < PLen
ColsInBounds == \A c \in colw : c >= 0 /\ c <= 65535 /\ (phase = "done" => c < (IF ranges = << >> THEN 0 ELSE ranges[Len(ranges)].last) + 1)
\* an accepted pass is usable by the engine: every index the run-time follows is in range
AcceptedIsUsable ==
  (phase = "done" /\ outcome = "accept") =>
     /\ \A i \in 1..Len(rm) : rm[i] < hdr["numRules"]
     /\ \A i \in 1..Len(starts) : starts[i] < hdr["numRows"]
     /\ \A i \in 1..Len(trans) : trans[i] < hdr["numRows"]
     /\ \A i \in 1..Len(ranges) : ranges[i].col < hdr["numColumns"]
     /\ \A i \in 1..Len(sorts) : sorts[i] <= 63 /\ pres[i] < sorts[i]

CaseRecord == [edits |-> edits, outcome |-> outcome]
EmitDone == (Emit /\ phase = "done") => CSVWrite("%1$s", <<ToJson(CaseRecord)>>, IOEnv.OUT)
=============================================================================
