SPECIFICATION Spec
CONSTANTS
  Thr <- T2
  Glyphs <- G
  TextsOf <- Texts2
  PreloadGlyphs = TRUE
  Hinted = FALSE
INVARIANTS NoRace NoCallback NoSharedWrite
