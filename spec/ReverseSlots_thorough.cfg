SPECIFICATION Spec
CONSTANTS
  MaxLen = 12
  KeepLast = TRUE
  Emit = FALSE
INVARIANTS Correct Involution
