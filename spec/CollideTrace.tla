---------------------------- MODULE CollideTrace ----------------------------
(* Validation of the collision-fixing steps recorded from the real positioning pass (harness `grv collide`, hook
   events 10-14 of Pass::resolveCollisions / resolveKern / collisionFinish) against the step conditions of
   Collide.tla.  Coordinates are in 1/16 font units relative to the fixed glyph's origin.
     Fix   lim, s0, o0 (shift and offset before), s1 (shift after), called (a shift was computed), stored, col
           (collision-remains flag), rtl, tb (target octabox), nb (neighbours handed to the collider: bounding
           octabox bb and sub-octaboxes sub, at their current shifted position)
     Kern  lim (x bounds), o0, s0, s1, rtl
     Fold  s, o0, o1 *)
EXTENDS Merge, Json, IOUtils, TLC, Sequences, Integers

CONSTANTS Tol,           \* 1/16 units
          SkipLtrOffset  \* TRUE: left-to-right steps with a non-zero x offset carry no obligation (known finding F3)

Log == ndJsonDeserialize(IOEnv.TRACE)
VARIABLE l
Ev == Log[l]

Rect(q) == [blx |-> q[1], bly |-> q[2], trx |-> q[3], try |-> q[4]]
WellFormed(r) == r.blx <= r.trx /\ r.bly <= r.try
LimitKept(r, o0, s0, s1) ==
  WellFormed(r) => /\ (s1[1] = s0[1] \/ (r.blx - Tol <= o0[1] + s1[1] /\ o0[1] + s1[1] <= r.trx + Tol))
                   /\ (s1[2] = s0[2] \/ (r.bly - Tol <= o0[2] + s1[2] /\ o0[2] + s1[2] <= r.try + Tol))
InReach(nbb, r, o0) == \/ (nbb.xa + o0[1] >= r.blx /\ nbb.xi + o0[1] <= r.trx)
                       \/ (nbb.ya + o0[2] >= r.bly /\ nbb.yi + o0[2] <= r.try)
Clear(t, n) == IF n.sub = << >> THEN ~Overlap(t, OctOfSeq(n.bb), Tol)
               ELSE \A k \in 1..Len(n.sub) : ~Overlap(t, Meet(OctOfSeq(n.sub[k]), OctOfSeq(n.bb)), Tol)    \* the part of a sub-octabox inside the bounding octabox
InDomain(rtl, r, o0) == rtl \/ (r.blx = -r.trx /\ (SkipLtrOffset => o0[1] = 0))
Obliged(e) == e.called /\ e.stored /\ InDomain(e.rtl, Rect(e.lim), e.o0)

FixPost(e) ==
  LET r == Rect(e.lim)
      t == Move(OctOfSeq(e.tb), e.s1)
  IN  Obliged(e) =>
        /\ LimitKept(r, e.o0, e.s0, e.s1)
        /\ (~e.col /\ WellFormed(r)) => \A k \in 1..Len(e.nb) : InReach(OctOfSeq(e.nb[k].bb), r, e.o0) => Clear(t, e.nb[k])
KernPost(e) == e.lim[1] <= e.lim[2] => e.lim[1] - Tol <= e.o0 + e.s1 /\ e.o0 + e.s1 <= e.lim[2] + Tol
Near(a, b) == a - b <= 1 /\ b - a <= 1
FoldPost(e) == Near(e.o1[1], e.o0[1] + e.s[1]) /\ Near(e.o1[2], e.o0[2] + e.s[2])

\* counters (TLC registers; the validation runs with one worker): fixes, obliged resolved fixes, neighbour pairs in reach
\* the overlap ranges the real mergeSlot computed for the bounding octabox (hook event 15) against Merge.tla; the
\* neighbour boxes are recorded relative to the target's origin, the formulas want them relative to its anchor
MxNear(a, b) == a - b <= Tol /\ b - a <= Tol
MxAgree(e, nb) == \A j \in 1..Len(nb.mx) :
                    LET t == <<e.o0[1] + e.s0[1], e.o0[2] + e.s0[2]>> IN
                    /\ MxNear(nb.mx[j][2], VMin(nb.mx[j][1], OctOfSeq(e.tb), OctOfSeq(nb.bb), t, e.o0))
                    /\ MxNear(nb.mx[j][3], VMax(nb.mx[j][1], OctOfSeq(e.tb), OctOfSeq(nb.bb), t, e.o0))
MxCount(e) == LET RECURSIVE C(_)
                  C(k) == IF k > Len(e.nb) THEN <<0, 0>> ELSE LET r == C(k + 1) IN <<r[1] + Len(e.nb[k].mx), r[2] + (IF MxAgree(e, e.nb[k]) THEN 0 ELSE 1)>>
              IN  C(1)
TInit == l = 1 /\ TLCSet(1, 0) /\ TLCSet(2, 0) /\ TLCSet(3, 0) /\ TLCSet(4, 0) /\ TLCSet(5, 0)
Step(name) == l <= Len(Log) /\ Ev.e = name /\ l' = l + 1
TCase == Step("Case")
TFix  == /\ Step("Fix") /\ FixPost(Ev)
         /\ TLCSet(1, TLCGet(1) + 1)
         /\ TLCSet(2, TLCGet(2) + (IF Obliged(Ev) /\ ~Ev.col THEN 1 ELSE 0))
         /\ TLCSet(3, TLCGet(3) + (IF Obliged(Ev) /\ ~Ev.col /\ WellFormed(Rect(Ev.lim))
                                    THEN Len(SelectSeq(Ev.nb, LAMBDA n : InReach(OctOfSeq(n.bb), Rect(Ev.lim), Ev.o0))) ELSE 0))
         \* agreement of the recorded overlap ranges with Merge.tla is model conformance, not part of the property
         /\ TLCSet(4, TLCGet(4) + MxCount(Ev)[1]) /\ TLCSet(5, TLCGet(5) + MxCount(Ev)[2])
TKern == Step("Kern") /\ KernPost(Ev)
TFold == Step("Fold") /\ FoldPost(Ev)
TNext == TCase \/ TFix \/ TKern \/ TFold
TSpec == TInit /\ [][TNext]_l
Accepted == /\ TLCGet("stats").diameter - 1 = Len(Log)
            /\ PrintT(<<"counters", TLCGet(1), TLCGet(2), TLCGet(3), TLCGet(4), TLCGet(5)>>)
=============================================================================
