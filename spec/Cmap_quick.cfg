SPECIFICATION Spec
CONSTANTS
  FixedCache = FALSE
  Emit = FALSE
INVARIANTS DirectOk CachedOk FillTerminates EmitDone
