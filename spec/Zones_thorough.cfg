SPECIFICATION Spec
CONSTANTS
  G = 4
  DegInit = FALSE
  MaxSpan = 99
  MaxOps = 4
  Weights <- W3
  Emit = TRUE
INVARIANTS Sorted NonEmpty InBounds NoExcluded OfferOk NoLoss EmitDone
