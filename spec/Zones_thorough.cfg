SPECIFICATION Spec
CONSTANTS
  G = 4
  MaxOps = 5
  Weights <- W1
  Emit = TRUE
INVARIANTS Sorted NonEmpty InBounds NoExcluded OfferOk NoLoss EmitDone
