------------------------------- MODULE Collide -------------------------------
(***************************************************************************)
(* Collision fixing (property C17, first two clauses).                     *)
(*                                                                         *)
(* Implementation shape (src/Pass.cpp, src/Collider.cpp): a positioning    *)
(* pass with collision runs calls, per fixable glyph, resolveCollisions =  *)
(* ShiftCollider::initSlot (limit, margin, current shift and offset),      *)
(* mergeSlot for every neighbour that is handed over, resolve -> new shift *)
(* and the collision-remains flag; collisionKern = KernCollider for        *)
(* kernable glyphs; collisionFinish folds every shift into the slot's      *)
(* accumulated offset.  Rules of later passes may change limits.           *)
(*                                                                         *)
(* The specification does not transcribe the search (that is Zones.tla);   *)
(* it states what each step is allowed to do:                              *)
(*   Fix(i, s, c)  the new shift s keeps offset + s inside the limit       *)
(*                 rectangle in force (when well formed), and c = FALSE    *)
(*                 (resolved) only if the glyph at its shifted position    *)
(*                 overlaps no handed-over neighbour within reach;         *)
(*   Kern(i, s)    the kerning shift keeps offset.x + s inside the limit;  *)
(*   Fold          offset' = offset + shift, shift' = 0;                   *)
(*   SetLimit      a rule changes the limit between passes.                *)
(* FixPost / KernPost / FoldPost are the same conditions on one recorded   *)
(* step; CollideTrace.tla evaluates them on every step recorded from the   *)
(* real pass (hook events 10-14).                                          *)
(***************************************************************************)
EXTENDS Octabox, FiniteSets, TLC

CONSTANTS NG,        \* glyphs 1..NG
          Pts,       \* coordinate values of anchors, shifts
          Boxes,     \* octaboxes relative to a glyph's origin
          Rects,     \* limit rectangles [blx, bly, trx, try]
          Tol,       \* tolerance (grid units)
          Fixable,   \* the glyphs that are fixed / kerned / re-limited (the others stand still)
          Guarded    \* TRUE: Fix obeys its post-condition; FALSE: negative control

VARIABLES pos, box, lim, shift, off, col, inlim
vars == <<pos, box, lim, shift, off, col, inlim>>

Rect(blx, bly, trx, try) == [blx |-> blx, bly |-> bly, trx |-> trx, try |-> try]
WellFormed(r) == r.blx <= r.trx /\ r.bly <= r.try
Inside(p, r, tol) == r.blx - tol <= p[1] /\ p[1] <= r.trx + tol /\ r.bly - tol <= p[2] /\ p[2] <= r.try + tol
Add(p, q) == <<p[1] + q[1], p[2] + q[2]>>

(***************************************************************************)
(* The post-conditions of one step.                                        *)
(***************************************************************************)
\* first clause: the accumulated offset after the shift lies inside the limit rectangle; a coordinate that the
\* step leaves as it was is not the step's doing (a rule or an earlier kern may have put it outside)
LimitKept(r, o0, s0, s1, tol) ==
  WellFormed(r) => /\ (s1[1] = s0[1] \/ (r.blx - tol <= o0[1] + s1[1] /\ o0[1] + s1[1] <= r.trx + tol))
                   /\ (s1[2] = s0[2] \/ (r.bly - tol <= o0[2] + s1[2] /\ o0[2] + s1[2] <= r.try + tol))

\* "within reach of its limit rectangle": the neighbour's bounding box lies in the column or in the row of the limit
\* rectangle placed at the glyph's anchor (anchor = origin - offset; nb is given relative to the origin)
InReach(nbb, r, o0) == \/ (nbb.xa + o0[1] >= r.blx /\ nbb.xi + o0[1] <= r.trx)
                       \/ (nbb.ya + o0[2] >= r.bly /\ nbb.yi + o0[2] <= r.try)

\* second clause, for one neighbour given by its bounding octabox and its sub-octaboxes (all relative to the
\* target's origin, own shift included)
Clear(tb, s1, nbb, subs, tol) ==
  LET t == Move(tb, s1)
  IN  IF subs = << >> THEN ~Overlap(t, nbb, tol)
      ELSE \A k \in 1..Len(subs) : ~Overlap(t, Meet(subs[k], nbb), tol)

\* the quantifier of the property: right-to-left runs with any limits, left-to-right runs with x-symmetric limits
InDomain(rtl, r) == rtl \/ r.blx = -r.trx

(***************************************************************************)
(* Abstract machine on a small grid                                        *)
(***************************************************************************)
G == 1..NG
Zero == <<0, 0>>
Placed(j) == Move(box[j], Add(pos[j], Add(off[j], shift[j])))

Init == /\ pos \in {f \in [G -> Pts \X Pts] : f[1] = Zero} /\ box \in [G -> Boxes] /\ lim \in {f \in [G -> Rects] : \A j \in G \ Fixable : f[j] = CHOOSE r \in Rects : TRUE}
        /\ shift = [i \in G |-> Zero] /\ off = [i \in G |-> Zero] /\ col = [i \in G |-> FALSE]
        /\ inlim = [i \in G |-> WellFormed(lim[i]) /\ Inside(Zero, lim[i], 0)]

FixAllowed(i, s, c) ==
  /\ LimitKept(lim[i], off[i], shift[i], s, 0)
  /\ ~c => \A j \in G \ {i} :
             LET rel == Move(box[j], Add(Add(pos[j], Add(off[j], shift[j])), <<-pos[i][1] - off[i][1], -pos[i][2] - off[i][2]>>))
             IN  InReach(rel, lim[i], off[i]) => Clear(box[i], s, rel, << >>, 0)

Fix(i, s, c) == /\ Guarded => FixAllowed(i, s, c)
                /\ shift' = [shift EXCEPT ![i] = s] /\ col' = [col EXCEPT ![i] = c]
                /\ UNCHANGED <<pos, box, lim, off, inlim>>

Kern(i, sx) == /\ Guarded => (lim[i].blx <= lim[i].trx => lim[i].blx <= off[i][1] + sx /\ off[i][1] + sx <= lim[i].trx)
               /\ shift' = [shift EXCEPT ![i] = <<sx, shift[i][2]>>]
               /\ UNCHANGED <<pos, box, lim, off, col, inlim>>

Fold == /\ off' = [i \in G |-> Add(off[i], shift[i])] /\ shift' = [i \in G |-> Zero]
        /\ UNCHANGED <<pos, box, lim, col, inlim>>

SetLimit(i, r) == /\ shift[i] = Zero
                  /\ lim' = [lim EXCEPT ![i] = r]
                  /\ inlim' = [inlim EXCEPT ![i] = WellFormed(r) /\ Inside(off[i], r, 0)]
                  /\ UNCHANGED <<pos, box, shift, off, col>>

Next == \/ \E i \in Fixable, s \in Pts \X Pts, c \in BOOLEAN : Fix(i, s, c)
        \/ \E i \in Fixable, sx \in Pts : Kern(i, sx)
        \/ Fold
        \/ \E i \in Fixable, r \in Rects : SetLimit(i, r)
Spec == Init /\ [][Next]_vars

\* What a user relies on: a glyph whose offset was inside its limit rectangle when the rectangle was set never
\* accumulates an offset outside it, however many passes fix, kern and fold.
AccumInLimit == \A i \in G : inlim[i] => Inside(Add(off[i], shift[i]), lim[i], 0)
\* state constraint for TLC: offsets stay on a small grid
Bound == \A i \in G : off[i][1] \in -2..2 /\ off[i][2] \in -2..2
=============================================================================
