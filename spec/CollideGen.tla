----------------------------- MODULE CollideGen -----------------------------
(* Arrangements for the collision fixer (property C17: "all arrangements of a target glyph and up to k neighbours,
   arbitrary relative origins, margins, limits, current shifts/offsets").  An arrangement is built in stages - one
   glyph at a time: shape and placement, collision flags and limit rectangle, margin and sub-boxes - then the
   collision passes of the font, the text (a sequence of the glyphs) and the direction.  fontgen/collfont.py turns
   each emitted arrangement into a collision-enabled font (glyf bounding boxes, Glat v3 octaboxes, collision glyph
   attributes, positioning passes with collision runs); shaping the text runs the real Pass::collisionShift /
   collisionKern / collisionFinish on exactly that arrangement.  Current shifts and offsets other than zero arise
   from the repeated phases of one pass and from a second collision pass. *)
EXTENDS Integers, Sequences, TLC, Json, IOUtils, CSV

CONSTANTS Shapes,     \* [bbox |-> <<xi, yi, xa, ya>>, octa |-> <<smin, smax, dmin, dmax>>]  (fractions 0..255)
          DYs, Advs, FlagSets, Limits, Margins, Weights, SubSets,
          CollRuns, Kerns, Thresholds,
          MinG, MaxG, MaxT, Emit

VARIABLES glyphs, stage, passes, text, rtl
vars == <<glyphs, stage, passes, text, rtl>>

Init == glyphs = << >> /\ stage = "shape" /\ passes = << >> /\ text = << >> /\ rtl = 0

AddShape(sh, dy, adv) ==
  /\ stage = "shape" /\ Len(glyphs) < MaxG
  /\ glyphs' = Append(glyphs, [bbox |-> <<sh.bbox[1], sh.bbox[2] + dy, sh.bbox[3], sh.bbox[4] + dy>>, octa |-> sh.octa, adv |-> adv,
                               flags |-> 0, limit |-> <<0, 0, 0, 0>>, margin |-> 0, marginwt |-> 0, subs |-> << >>])
  /\ stage' = "coll" /\ UNCHANGED <<passes, text, rtl>>
SetColl(fl, lim) ==
  /\ stage = "coll"
  /\ glyphs' = [glyphs EXCEPT ![Len(glyphs)].flags = fl, ![Len(glyphs)].limit = lim]
  /\ stage' = "margin" /\ UNCHANGED <<passes, text, rtl>>
SetMargin(m, w, sb) ==
  /\ stage = "margin"
  /\ glyphs' = [glyphs EXCEPT ![Len(glyphs)].margin = m, ![Len(glyphs)].marginwt = w, ![Len(glyphs)].subs = sb]
  /\ stage' = "shape" /\ UNCHANGED <<passes, text, rtl>>
GlyphsDone == /\ stage = "shape" /\ Len(glyphs) >= MinG /\ stage' = "passes" /\ UNCHANGED <<glyphs, passes, text, rtl>>
AddPass(cr, k, th) == /\ stage = "passes" /\ Len(passes) < 2
                      /\ passes' = Append(passes, [collruns |-> cr, kern |-> k, threshold |-> th])
                      /\ UNCHANGED <<glyphs, stage, text, rtl>>
PassesDone == /\ stage = "passes" /\ Len(passes) >= 1 /\ stage' = "text" /\ UNCHANGED <<glyphs, passes, text, rtl>>
AddText(g) == /\ stage = "text" /\ Len(text) < MaxT /\ text' = Append(text, g - 1) /\ UNCHANGED <<glyphs, stage, passes, rtl>>
Finish(d) == /\ stage = "text" /\ Len(text) >= 2 /\ rtl' = d /\ stage' = "done" /\ UNCHANGED <<glyphs, passes, text>>

Next == \/ \E sh \in Shapes, dy \in DYs, adv \in Advs : AddShape(sh, dy, adv)
        \/ \E fl \in FlagSets, lim \in Limits : SetColl(fl, lim)
        \/ \E m \in Margins, w \in Weights, sb \in SubSets : SetMargin(m, w, sb)
        \/ GlyphsDone
        \/ \E cr \in CollRuns, k \in Kerns, th \in Thresholds : AddPass(cr, k, th)
        \/ PassesDone
        \/ \E g \in 1..Len(glyphs) : AddText(g)
        \/ \E d \in {0, 1} : Finish(d)
Spec == Init /\ [][Next]_vars

TypeOK == stage \in {"shape", "coll", "margin", "passes", "text", "done"} /\ Len(glyphs) <= MaxG /\ Len(text) <= MaxT
CaseRecord == [glyphs |-> glyphs, passes |-> passes, text |-> text, rtl |-> rtl]
EmitDone == (Emit /\ stage = "done") => CSVWrite("%1$s", <<ToJson(CaseRecord)>>, IOEnv.OUT)
=============================================================================
