SPECIFICATION Spec
CONSTANTS
  MaxLen = 5
  KeepLast = FALSE
  Emit = FALSE
INVARIANTS Correct
