SPECIFICATION Spec
POSTCONDITION Accepted
