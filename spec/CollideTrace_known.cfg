SPECIFICATION TSpec
CONSTANTS
  Tol = 24
  SkipLtrOffset = TRUE
POSTCONDITION Accepted
CHECK_DEADLOCK FALSE
