SPECIFICATION Spec
CONSTANTS
  Thr <- T2
  Glyphs <- G
  TextsOf <- Texts2
  PreloadGlyphs = FALSE
  Hinted = FALSE
INVARIANTS NoRace NoCallback NoSharedWrite
