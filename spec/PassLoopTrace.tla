---------------------------- MODULE PassLoopTrace ----------------------------
(* Validation of the cursor bookkeeping at the end of every iteration of Pass::runGraphite's rule loop, as recorded
   from the real engine (GRAPHITE2_VERIF hook events 3 and 4: cursor, high-water slot, highpassed, loop counter before
   and after), against Control of PassLoop.tla - the same operator whose iteration bound TLC establishes there.  Slots
   are named by their position in the stream (0 = none). *)
EXTENDS PassLoop, Json, IOUtils

Log == ndJsonDeserialize(IOEnv.TRACE)
VARIABLE l
Ev == Log[l]
TInit == l = 1 /\ Init          \* the variables of PassLoop itself play no part in the validation
TStep == /\ l <= Len(Log)
         /\ LET e == Ev
                q == [i \in 1..e.n |-> i]
                c == ControlM(q, e.s, e.hw, e.hp = 1, e.lc, e.ml)
            IN  c.x = e.s2 /\ c.hw = e.hw2 /\ c.lc = e.lc2
         /\ l' = l + 1 /\ UNCHANGED vars
TSpec == TInit /\ [][TStep]_<<l, vars>>
Accepted == TLCGet("stats").diameter - 1 = Len(Log)
=============================================================================
