"""C03 - structural invariants of returned segments (see checks/engine_common.py and harness/common.cpp: project)."""
from checks import engine_common, utfcommon


def run(ck, tier, seed):
    engine_common.run_engine(ck, tier, seed, pids=("C03",))
    # texts in all three encodings, with NULs before nChars and ill-formed sequences (spec/UtfText.tla): same invariant
    utfcommon.utftext(ck, tier, seed, props=("C03",))
    ck.assumptions += ["the invariant is evaluated through the public API on every segment of wild programs, GDL-lite programs (all 8 direction values) and the corpus"]
