"""C03 - structural invariants of returned segments (see checks/engine_common.py and harness/common.cpp: project)."""
import json, os, random
import vlib
from checks import engine_common, utfcommon


def reverse_slots(ck, tier, seed):
    """spec/ReverseSlots.tla: the in-place reversal every segment shaped against its font's direction goes through,
    checked by TLC on every sequence of bases and marks, replayed on the real routine (hook event 8) and validated."""
    tmp = vlib.tmpdir("C03rev")
    q = tier == "quick"
    r = vlib.tlc("ReverseSlots.tla", "ReverseSlots.cfg" if q else "ReverseSlots_thorough.cfg", timeout=3000, coverage=False)
    if r.violation:
        ck.violation("TLC: %s violated in ReverseSlots" % r.violation, {"why": "ReverseSlots model", "trace": vlib.tlc_error_trace(r.out)})
        return
    ck.add_tlc("ReverseSlots(all sequences of bases and marks up to %d)" % (8 if q else 12), r)
    rn = vlib.tlc("ReverseSlots.tla", "ReverseSlots_neg.cfg", timeout=900, coverage=False)
    if rn.violation != "Correct":
        raise vlib.Broken("negative control ReverseSlots_neg (tail not updated) not refuted: %r" % rn.violation)
    out = os.path.join(tmp, "cases.ndjson")
    re = vlib.tlc("ReverseSlots.tla", "ReverseSlots_emit.cfg" if q else "ReverseSlots_emit_thorough.cfg", out_file=out, timeout=3000, coverage=False)
    if re.violation or not re.emitted:
        raise vlib.Broken("ReverseSlots emitted no sequences (%r)" % re.violation)
    # the font: glyph 'f' has bidi class 16, the single rule changes nothing; left-to-right
    from fontgen import gfont, gdl
    keep = dict(op="keep", cls=0, ref=0, adv=-1, user=-1, user2=-1, shift=-1, att=-1, attref=-1, sf=0, sv=0)
    none = {"kind": "none", "item": 0, "val": 0, "f": 0}
    traces = []
    for kind in ("sub", "pos"):
        prog = [{"kind": kind, "rules": [{"pre": 0, "ctx": [1], "items": [keep], "con": none, "ret": 0}]}]
        m = gdl.font_model(prog, [[1]], [0, 500, 600, 450, 700, 300, 0], [0] * 7, 0)
        m["glyphs"][6]["attrs"][gfont.A_BIDI] = 16
        font = os.path.join(tmp, "rev_%s.ttf" % kind)
        open(font, "wb").write(gfont.build_font(m))
        trace = os.path.join(tmp, "rev_%s.ndjson" % kind)
        exe = vlib.build_harness("san")
        h = vlib.run_harness(exe, ["revslots", out, font, trace], timeout=3000)
        vlib.absorb(ck, h, pid="C03")
        if h.fault or not h.summary:
            return
        if h.summary["extra"]["reverse_calls"] == 0:
            raise vlib.Broken("vacuous: Segment::reverseSlots was never called in the replay")
        ck.traces += h.summary["extra"]["segments"]
        ck.extra.setdefault("impl", {})["reverse_slots/" + kind] = h.summary["extra"]
        rv = vlib.tlc("ReverseSlotsTrace.tla", "ReverseSlotsTrace.cfg", workers=1, env={"TRACE": trace}, timeout=3000, coverage=False)
        if rv.violation:
            lines = open(trace).read().splitlines()
            k = min(max(rv.states - 1, 0), len(lines) - 1)
            s0 = max(j for j in range(k + 1) if lines[j].startswith('{"e":"Case"'))
            ck.violation("the stream after Segment::reverseSlots is not the specified reversal: %s then %s" % (lines[s0][:120], lines[k][:120]),
                         {"why": "trace rejected by ReverseSlotsTrace", "events": lines[s0:k + 1]})
            return
        ck.add_tlc("ReverseSlotsTrace(%s pass font, %d events)" % (kind, rv.states - 1), rv)
        traces.append(trace)
    # binding: swap two slots in one recorded reversal -> rejected
    lines = open(traces[0]).read().splitlines()
    cand = [i for i, l in enumerate(lines) if l.startswith('{"e":"Rev"') and len(json.loads(l)["order"]) >= 3]
    if cand:
        i = random.Random(seed).choice(cand)
        o = json.loads(lines[i]); o["order"][0], o["order"][1] = o["order"][1], o["order"][0]
        s0 = max(j for j in range(i + 1) if lines[j].startswith('{"e":"Case"'))
        bad = os.path.join(tmp, "corrupt.ndjson")
        open(bad, "w").write("\n".join(lines[s0:i] + [json.dumps(o, separators=(",", ":"))]) + "\n")
        rb = vlib.tlc("ReverseSlotsTrace.tla", "ReverseSlotsTrace.cfg", workers=1, env={"TRACE": bad}, timeout=900, coverage=False)
        if not rb.violation:
            raise vlib.Broken("binding lost: a recorded reversal with two slots swapped was accepted")
        ck.extra["binding_demo_reverse"] = "a Rev event with two slots swapped is rejected by ReverseSlotsTrace"


def run(ck, tier, seed):
    engine_common.run_engine(ck, tier, seed, pids=("C03",))
    # texts in all three encodings, with NULs before nChars and ill-formed sequences (spec/UtfText.tla): same invariant
    utfcommon.utftext(ck, tier, seed, props=("C03",))
    if not ck.violations:
        reverse_slots(ck, tier, seed)
    ck.assumptions += ["the invariant is evaluated through the public API on every segment of wild programs, GDL-lite programs (all 8 direction values) and the corpus"]
