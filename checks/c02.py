"""C02 - Shaping any accepted font with any text is safe, terminating and bounded.  DESIGN.md 4.10 / 5 (C02)."""
import json, os
import vlib, corpus
from checks import engine_common, utfcommon


def hooks_are_neutral(ck, tier, seed):
    """The GRAPHITE2_VERIF hooks only observe: the library compiled with and without the define shapes identically."""
    tmp = vlib.tmpdir("C02hn")
    js = corpus.random_jobs(n=40 if tier == "quick" else 400, seed=seed, dirs=[0, 1]) + corpus.collision_jobs(tmp, n=20 if tier == "quick" else 200)
    js += [dict(j, ppm=14) for j in js[:200]]
    p = os.path.join(tmp, "jobs.ndjson")
    open(p, "w").write("\n".join(json.dumps(j) for j in js if "cps" in j) + "\n")
    same, n = vlib.hook_neutrality(p)
    if same is None:
        jobs = [j for j in js if "cps" in j]
        k = min(n["after_lines"], len(jobs) - 1)
        ck.violation("the library crashed (rc %s) while shaping %s dir=%s" % (n["signal_or_rc"], jobs[k]["id"], jobs[k]["dir"]),
                     {"why": "crash in gr_make_seg or a query (plain g++ -O1 build, public API only)", "job": jobs[k], "detail": n})
        return
    if not same:
        raise vlib.Broken("the library built with -DGRAPHITE2_VERIF shapes differently from the library built without it: a hook is not neutral")
    ck.extra["hook_neutrality"] = "%d segments identical with and without -DGRAPHITE2_VERIF (public-API dumper, g++ -O1)" % n


def run(ck, tier, seed):
    hooks_are_neutral(ck, tier, seed)
    engine_common.run_engine(ck, tier, seed, pids=("C02",), with_passloop=True)
    # texts that end exactly at an inaccessible page, all three encodings, ill-formed tails, over-estimated nChars
    if not ck.violations:
        utfcommon.utftext(ck, tier, seed, props=("C02",))
    # the control step whose iteration bound PassLoop.tla establishes is the one the engine executes
    engine_common.controller_trace(ck, tier, seed, vlib.tmpdir("C02ctl"), vlib.build_harness("san"), as_violation=False)
    ck.assumptions += ["bounded work is decided by the GRAPHITE2_VERIF iteration counter against maxRuleLoop x (slots + insert budget + 2), the formula TLC establishes on PassLoop.tla",
                       "memory safety / UB / leaks: ASan+UBSan+LSan on every executed case (sensors, DESIGN.md 1.4)"]
