"""C02 - Shaping any accepted font with any text is safe, terminating and bounded.  DESIGN.md 4.10 / 5 (C02)."""
import vlib
from checks import engine_common


def run(ck, tier, seed):
    engine_common.run_engine(ck, tier, seed, pids=("C02",), with_passloop=True)
    ck.assumptions += ["bounded work is decided by the GRAPHITE2_VERIF iteration counter against maxRuleLoop x (slots + insert budget + 2), the formula TLC establishes on PassLoop.tla",
                       "memory safety / UB / leaks: ASan+UBSan+LSan on every executed case (sensors, DESIGN.md 1.4)"]
