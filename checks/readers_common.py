"""C01, L1+L2 on synthesised fonts: spec/Readers.tla is instantiated with the pass layout of a font fontgen built,
TLC enumerates boundary perturbations of its fields (checking ReadsInBounds / ColsInBounds / AcceptedIsUsable on the
reader model) and every assignment is written back into the font's bytes and loaded by the real library."""
import json, os
import vlib
from fontgen import gfont, gdl, sfnt, fields
from checks import c06


def base_font():
    prog = [{"kind": "sub", "rules": [
        {"pre": 1, "ctx": [1, 2, 3], "items": [{"op": "subs", "cls": 3, "ref": 0, "adv": -1, "user": -1, "user2": -1, "shift": -1, "att": -1, "attref": -1},
                                                {"op": "keep", "cls": 0, "ref": 0, "adv": -1, "user": 7, "user2": -1, "shift": -1, "att": -1, "attref": -1}],
         "con": {"kind": "gattr", "item": 0, "val": 1}, "ret": 0},
        {"pre": 1, "ctx": [2, 1], "items": [{"op": "glyph", "cls": 4, "ref": 0, "adv": -1, "user": -1, "user2": -1, "shift": -1, "att": -1, "attref": -1}],
         "con": {"kind": "none", "item": 0, "val": 0}, "ret": 0},
        {"pre": 1, "ctx": [3, 3, 1], "items": [{"op": "delete", "cls": 0, "ref": 0, "adv": -1, "user": -1, "user2": -1, "shift": -1, "att": -1, "attref": -1},
                                                {"op": "keep", "cls": 0, "ref": 0, "adv": -1, "user": -1, "user2": -1, "shift": -1, "att": -1, "attref": -1}],
         "con": {"kind": "none", "item": 0, "val": 0}, "ret": 0}]},
            {"kind": "pos", "rules": [
        {"pre": 0, "ctx": [1, 4], "items": [{"op": "keep", "cls": 0, "ref": 0, "adv": -1, "user": -1, "user2": -1, "shift": -1, "att": -1, "attref": -1},
                                             {"op": "keep", "cls": 0, "ref": 0, "adv": -1, "user": -1, "user2": -1, "shift": -1, "att": 30, "attref": -1}],
         "con": {"kind": "none", "item": 0, "val": 0}, "ret": 0}]}]
    m = gdl.font_model(prog, c06.CLS, c06.ADV, c06.GATTR, 0)
    return gfont.build_font(m)


def tla_seq(xs):
    return "<<" + ", ".join(str(x) for x in xs) + ">>"


def model_cases(ck, tier, seed, tmp):
    fb = base_font()
    S = sfnt.Sfnt(data=fb)
    silf = S.table("Silf")
    F = {name: (off, w) for (t, off, w, name) in fields.silf_fields(silf)}
    def val(name):
        off, w = F[name]
        return int.from_bytes(silf[off:off + w], "big")
    # locate pass 0 and read its arrays completely (fields.py only lists array edges)
    sub = int.from_bytes(silf[12:16], "big") if int.from_bytes(silf[:4], "big") >= 0x00030000 else int.from_bytes(silf[8:12], "big")
    p0 = sub + val("s0.oPass0")
    p1 = sub + val("s0.oPass1")
    plen = p1 - p0
    pb = silf[p0:p1]
    u16 = lambda o: int.from_bytes(pb[o:o + 2], "big")
    nr, nrows, ntr, nsucc, ncols, nrng = u16(4), u16(24), u16(26), u16(28), u16(30), u16(32)
    o = 40
    ranges = [(u16(o + 6 * i), u16(o + 6 * i + 2), u16(o + 6 * i + 4)) for i in range(nrng)]; o += 6 * nrng
    orm_at = o
    orm = [u16(o + 2 * i) for i in range(nsucc + 1)]; o += 2 * (nsucc + 1)
    rm_at = o
    rm = [u16(o + 2 * i) for i in range(orm[-1])]; o += 2 * orm[-1]
    minp, maxp = pb[o], pb[o + 1]; mm_at = o; o += 2
    st_at = o
    starts = [u16(o + 2 * i) for i in range(maxp - minp + 1)]; o += 2 * (maxp - minp + 1)
    so_at = o
    sorts = [u16(o + 2 * i) for i in range(nr)]; o += 2 * nr
    pr_at = o
    pres = [pb[o + i] for i in range(nr)]; o += nr
    o += 1
    pcl_at = o
    pcl = u16(o); o += 2
    oc_at = o
    ocon = [u16(o + 2 * i) for i in range(nr + 1)]; o += 2 * (nr + 1)
    oa_at = o
    oact = [u16(o + 2 * i) for i in range(nr + 1)]; o += 2 * (nr + 1)
    tr_at = o
    trans = [u16(o + 2 * i) for i in range(ntr * ncols)]
    hdr = {"numRules": nr, "pcCode": int.from_bytes(pb[8:12], "big"), "rcCode": int.from_bytes(pb[12:16], "big"), "aCode": int.from_bytes(pb[16:20], "big"),
           "numRows": nrows, "numTransitional": ntr, "numSuccess": nsucc, "numColumns": ncols, "numRange": nrng, "minPre": minp, "maxPre": maxp, "pConstraintLen": pcl}
    where = {"numRules": (4, 2), "pcCode": (8, 4), "rcCode": (12, 4), "aCode": (16, 4), "numRows": (24, 2), "numTransitional": (26, 2), "numSuccess": (28, 2),
             "numColumns": (30, 2), "numRange": (32, 2), "minPre": (mm_at, 1), "maxPre": (mm_at + 1, 1), "pConstraintLen": (pcl_at, 2)}
    arr = {"range.first": (40, 6, 2), "range.last": (42, 6, 2), "range.col": (44, 6, 2), "oRuleMap": (orm_at, 2, 2), "ruleMap": (rm_at, 2, 2), "start": (st_at, 2, 2),
           "sort": (so_at, 2, 2), "pre": (pr_at, 1, 1), "oCon": (oc_at, 2, 2), "oAct": (oa_at, 2, 2), "trans": (tr_at, 2, 2)}
    name = "ReadersGen%d" % os.getpid()
    rec = "[" + ", ".join('%s |-> %d' % (k, v) for k, v in hdr.items()) + "]"
    rng_s = "<<" + ", ".join("[first |-> %d, last |-> %d, col |-> %d]" % r for r in ranges) + ">>"
    mod = """---- MODULE %s ----
EXTENDS Readers
GHdr == %s
GRanges == %s
GORM == %s
GRM == %s
GStarts == %s
GSorts == %s
GPres == %s
GOCon == %s
GOAct == %s
GTrans == %s
====
""" % (name, rec, rng_s, tla_seq(orm), tla_seq(rm), tla_seq(starts), tla_seq(sorts), tla_seq(pres), tla_seq(ocon), tla_seq(oact), tla_seq(trans))
    cfg = """SPECIFICATION Spec
CONSTANTS
  BaseHdr <- GHdr
  BaseRanges <- GRanges
  BaseORM <- GORM
  BaseRM <- GRM
  BaseStarts <- GStarts
  BaseSorts <- GSorts
  BasePres <- GPres
  BaseOCon <- GOCon
  BaseOAct <- GOAct
  BaseTrans <- GTrans
  PLen = %d
  SubBase = %d
  MaxPerturb = %d
  Emit = TRUE
INVARIANTS ReadsInBounds ColsInBounds AcceptedIsUsable EmitDone
""" % (plen, p0 - sub, 1 if tier == "quick" else 2)
    mp, cp = os.path.join(vlib.SPEC, name + ".tla"), os.path.join(vlib.SPEC, name + ".cfg")
    open(mp, "w").write(mod)
    open(cp, "w").write(cfg)
    out = os.path.join(tmp, "readers.ndjson")
    try:
        r = vlib.tlc(name + ".tla", name + ".cfg", out_file=out, timeout=6000, coverage=False, heap="24g")
    finally:
        for f in (mp, cp):
            try:
                os.remove(f)
            except OSError:
                pass
    if r.violation:
        ck.violation("TLC: %s violated in Readers (pass reader model)" % r.violation, {"why": "Readers model", "trace": vlib.tlc_error_trace(r.out)})
        return None
    ck.add_tlc("Readers(pass layout of a synthesised font, %d field(s) rewritten)" % (1 if tier == "quick" else 2), r)
    cases = []
    hexfont = fb.hex()
    import random
    rnd = random.Random(seed)
    em = r.emitted
    if len(em) > (4000 if tier == "quick" else 60000):
        rnd.shuffle(em)
        em = em[:(4000 if tier == "quick" else 60000)]
    for k, e in enumerate(em):
        patches = []
        for ed in e["edits"]:
            if ed["idx"] == 0:
                off, w = where[ed["name"]]
            else:
                base, stride, w = arr[ed["name"]]
                off = base + stride * (ed["idx"] - 1)
            patches.append(["Silf", p0 + off, w, ed["val"]])
        cases.append({"id": "rd%d:%s" % (k, "+".join("%s[%d]=%d" % (ed["name"], ed["idx"], ed["val"]) for ed in e["edits"]) or "base"), "font_hex": hexfont,
                      "patches": patches, "opts": [k % 8], "text": [97, 98, 99, 100, 102, 98, 99],
                      "expect": "accept" if e["outcome"] == "accept" else ("reject" if e["outcome"] not in ("layout-ok",) else "unknown")})
    ck.sample({"module": "Readers", "edits": em[len(em) // 2]["edits"], "outcome": em[len(em) // 2]["outcome"]})
    return cases


def classmap_cases(ck, tier, seed, tmp):
    """spec/ClassMap.tla instantiated with the class map of a synthesised font (two linear, two lookup classes, Silf v3)."""
    prog = [{"kind": "sub", "rules": [
        {"pre": 0, "ctx": [3, 4], "items": [{"op": "subs", "cls": 1, "ref": 0, "adv": -1, "user": -1, "user2": -1, "shift": -1, "att": -1, "attref": -1},
                                             {"op": "glyph", "cls": 2, "ref": 0, "adv": -1, "user": -1, "user2": -1, "shift": -1, "att": -1, "attref": -1}],
         "con": {"kind": "none", "item": 0, "val": 0}, "ret": 0}]}]
    m = gdl.font_model(prog, c06.CLS, c06.ADV, c06.GATTR, 0, nlinear=2)
    fb = gfont.build_font(m, silf_version=0x00030000)
    S = sfnt.Sfnt(data=fb)
    silf = S.table("Silf")
    F = {name: (off, w) for (t, off, w, name) in fields.silf_fields(silf)}
    sub = int.from_bytes(silf[12:16], "big")
    u16 = lambda o: int.from_bytes(silf[o:o + 2], "big")
    pseudo_at = sub + u16(sub + 6)
    cm = pseudo_at + 8 + 6 * u16(pseudo_at)
    passes_start = sub + int.from_bytes(silf[F["s0.oPass0"][0]:F["s0.oPass0"][0] + 4], "big")
    dlen = passes_start - cm
    ncls, nlin = u16(cm), u16(cm + 2)
    offs = [u16(cm + 4 + 2 * i) for i in range(ncls + 1)]
    cls_off = 4 + 2 * (ncls + 1)
    data = [u16(cm + cls_off + 2 * i) for i in range((dlen - cls_off) // 2)]
    name = "ClassMapGen%d" % os.getpid()
    mod = "---- MODULE %s ----\nEXTENDS ClassMap\nGOffs == %s\nGData == %s\n====\n" % (name, tla_seq(offs), tla_seq(data))
    cfg = """SPECIFICATION Spec
CONSTANTS
  BaseNClass = %d
  BaseNLinear = %d
  BaseOffs <- GOffs
  BaseData <- GData
  DataLen = %d
  MaxPerturb = %d
  Emit = TRUE
  DropNumIdsTest = FALSE
INVARIANTS ReadsInBounds DataReadsInBounds AcceptedIsUsable EmitDone
""" % (ncls, nlin, dlen, 1 if tier == "quick" else 2)
    mp, cp = os.path.join(vlib.SPEC, name + ".tla"), os.path.join(vlib.SPEC, name + ".cfg")
    ncp = os.path.join(vlib.SPEC, name + "_neg.cfg")
    open(mp, "w").write(mod)
    open(cp, "w").write(cfg)
    open(ncp, "w").write(cfg.replace("DropNumIdsTest = FALSE", "DropNumIdsTest = TRUE").replace("Emit = TRUE", "Emit = FALSE").replace("MaxPerturb = 2", "MaxPerturb = 1"))
    out = os.path.join(tmp, "classmap.ndjson")
    try:
        r = vlib.tlc(name + ".tla", name + ".cfg", out_file=out, timeout=6000, coverage=False, heap="24g")
        rn = vlib.tlc(name + ".tla", name + "_neg.cfg", timeout=6000, coverage=False)
        if rn.violation not in ("AcceptedIsUsable", "DataReadsInBounds", "ReadsInBounds"):
            raise vlib.Broken("negative control of ClassMap (numIDs-fits test dropped) not refuted: %r" % rn.violation)
    finally:
        try:
            os.remove(ncp)
        except OSError:
            pass
        for f in (mp, cp):
            try:
                os.remove(f)
            except OSError:
                pass
    if r.violation:
        ck.violation("TLC: %s violated in ClassMap (class map reader model)" % r.violation, {"why": "ClassMap model", "trace": vlib.tlc_error_trace(r.out)})
        return None
    ck.add_tlc("ClassMap(class map of a synthesised font, %d field(s) rewritten)" % (1 if tier == "quick" else 2), r)
    import random
    rnd = random.Random(seed)
    em = r.emitted
    if len(em) > (3000 if tier == "quick" else 50000):
        rnd.shuffle(em)
        em = em[:(3000 if tier == "quick" else 50000)]
    cases = []
    hexfont = fb.hex()
    for k, e in enumerate(em):
        patches = []
        for ed in e["edits"]:
            off = {"numClass": 0, "numLinear": 2}.get(ed["name"])
            if ed["name"] == "offset":
                off = 4 + 2 * (ed["idx"] - 1)
            elif ed["name"] == "word":
                off = cls_off + 2 * (ed["idx"] - 1)
            patches.append(["Silf", cm + off, 2, ed["val"]])
        cases.append({"id": "cm%d:%s" % (k, "+".join("%s[%d]=%d" % (ed["name"], ed["idx"], ed["val"]) for ed in e["edits"]) or "base"), "font_hex": hexfont,
                      "patches": patches, "opts": [k % 8], "text": [100, 102, 101, 102, 97], "expect": "accept" if e["outcome"] == "accept" else "reject"})
    if em:
        ck.sample({"module": "ClassMap", "edits": em[len(em) // 2]["edits"], "outcome": em[len(em) // 2]["outcome"]})
    return cases


def sparse_cases(ck, tier, seed, tmp, exe):
    """spec/Sparse.tla: every list of attribute runs of the bounded family is written into a font's Glat table and read back."""
    from fontgen import sparsefont
    q = tier == "quick"
    out = os.path.join(tmp, "sparse.ndjson")
    r = vlib.tlc("Sparse.tla", "Sparse_quick.cfg" if q else "Sparse_thorough.cfg", out_file=out, timeout=6000, coverage=False, heap="24g", parse=False)
    if r.violation:
        ck.violation("TLC: %s violated in Sparse (glyph attribute storage model)" % r.violation, {"why": "Sparse model", "trace": vlib.tlc_error_trace(r.out)})
        return False
    ck.add_tlc("Sparse(attribute runs -> packed array, lookups)", r)
    rn = vlib.tlc("Sparse.tla", "Sparse_neg.cfg", timeout=3000, coverage=False)
    if rn.violation not in ("LookupsInBounds", "WritesInBounds", "LookupsRight"):
        raise vlib.Broken("negative control of Sparse (key order not checked) not refuted: %r" % rn.violation)
    stride = 9 if q else 61
    cf = os.path.join(tmp, "sparse_cases.ndjson")
    n = 0
    with open(cf, "w") as fo:
        for k, line in enumerate(open(out)):
            if (k + seed) % stride:
                continue
            c = json.loads(line)
            runs = [(x["k"], x["vals"]) for x in c["runs"]]
            fo.write(json.dumps({"id": "sp%d" % k, "font_hex": sparsefont.build(runs).hex(), "gid": 1, "valid": c["valid"], "nchunks": c["nchunks"],
                                 "attrs": c["attrs"], "numattrs": sparsefont.NUM_ATTRS}) + "\n")
            n += 1
            if n == 500:
                ck.sample({"module": "Sparse", "runs": c["runs"], "valid": c["valid"]})
    h = vlib.run_harness(exe, ["sparse", cf], timeout=6000)
    vlib.absorb(ck, h)
    if h.summary:
        ck.traces += h.summary["extra"]["loads"]
        ck.extra.setdefault("impl", {})["sparse"] = dict(h.summary["extra"], model_drift=h.summary["drift"], cases=n, stride=stride)
    return True
