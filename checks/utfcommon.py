"""Shared pieces of C11 / C12 / C05: the UtfText pipeline (TLC cases -> gr_make_seg -> TLC validation)."""
import json, os, random
import vlib

FONTS = [os.path.join(vlib.REPO, "tests/fonts", f) for f in ("charis_r_gr.ttf", "Scheherazadegr.ttf", "Padauk.ttf")]      # the second one maps U+0000 to a glyph


def cfg_with(base, tmp, **consts):
    """Copy spec/<base> to a temp cfg with constants overridden; returns path relative to spec dir."""
    src = open(os.path.join(vlib.SPEC, base)).read()
    for k, v in consts.items():
        import re
        src = re.sub(r"(?m)^(\s*%s\s*=\s*).*$" % k, r"\g<1>%s" % v, src)
    name = "_tmp_%s_%d.cfg" % (base.replace(".cfg", ""), os.getpid())
    path = os.path.join(vlib.SPEC, name)
    open(path, "w").write(src)
    return name


def rm_cfg(name):
    try:
        os.remove(os.path.join(vlib.SPEC, name))
    except OSError:
        pass


def utftext(ck, tier, seed, props):
    """Run the ingestion pipeline; violations tagged with one of `props` are attributed to ck."""
    tmp = vlib.tmpdir(ck.pid + "text")
    cases = os.path.join(tmp, "cases.ndjson")
    rec = os.path.join(tmp, "rec.ndjson")
    cfg = cfg_with("UtfText_quick.cfg", tmp, MaxItems=3 if tier == "quick" else 4)
    try:
        r = vlib.tlc("UtfText.tla", cfg, out_file=cases, timeout=3000, coverage=(tier != "quick"), heap="16g")
    finally:
        rm_cfg(cfg)
    if r.violation:
        ck.violation("TLC: invariant %s of UtfText violated (design level)" % r.violation,
                     {"why": "UtfText model", "trace": vlib.tlc_error_trace(r.out)})
        return
    ck.add_tlc("UtfText(MaxItems=%d)" % (3 if tier == "quick" else 4), r)
    if not r.emitted:
        raise vlib.Broken("UtfText emitted no cases")
    # negative control of the model: the unrepaired loop (no NUL stop) must violate the contract
    rn = vlib.tlc("UtfText.tla", "UtfText_neg.cfg", timeout=600, coverage=False)
    if rn.violation not in ("ContractHolds", "NoReadPastNul", "CountExact"):
        raise vlib.Broken("negative control UtfText_neg did not violate the contract (got %r)" % rn.violation)
    exe = vlib.build_harness("san")
    fonts = FONTS if tier != "quick" else FONTS[:2]
    h = vlib.run_harness(exe, ["utftext", cases, rec] + fonts, timeout=3000)
    for p in props:
        vlib.absorb(ck, h, pid=p)
    if h.fault:
        return
    if not h.summary:
        raise vlib.Broken("utftext harness produced no summary")
    ck.traces += h.summary["extra"]["segments"]
    ck.extra.setdefault("impl", {})["utftext"] = h.summary["extra"]
    for s in r.emitted[1000:1003]:
        ck.sample({"module": "UtfText", "enc": s["enc"], "items": s["items"], "nChars": s["nChars"], "buf": s["buf"]})
    # the same cases on the library built with tracing support, a trace log attached to every face (C12 only: what the
    # call reads must not depend on whether somebody is listening)
    if "C12" in props:
        exet = vlib.build_harness("sant")
        ht = vlib.run_harness(exet, ["utftext", cases, "-"] + fonts[:1], timeout=3000, env={"GRV_LOG": "1"})
        for p in props:
            vlib.absorb(ck, ht, pid=p)
        if ht.fault:
            return
        if ht.summary:
            ck.traces += ht.summary["extra"]["segments"]
            ck.extra.setdefault("impl", {})["utftext_tracing_build"] = ht.summary["extra"]
    # L3: char-infos recorded from the real gr_make_seg, validated by TLC against the contract
    rv = vlib.tlc("UtfTextTrace.tla", "UtfTextTrace.cfg", workers=1, env={"TRACE": rec}, timeout=1200, coverage=False)
    if rv.violation:
        k = rv.states
        ck.violation("recorded gr_make_seg char-infos rejected by UtfTextTrace (%s)" % rv.violation,
                     {"why": "trace validation", "trace": vlib.tlc_error_trace(rv.out), "record_file": rec})
    else:
        ck.add_tlc("UtfTextTrace(validation of %d recorded calls)" % rv.states, rv)
        ck.traces += rv.states
    # binding demonstration: corrupt one recorded field -> must be rejected
    lines = open(rec).read().splitlines()
    rng = random.Random(seed)
    cand = [i for i, l in enumerate(lines) if '"usv":[]' not in l]
    if cand:
        i = rng.choice(cand)
        o = json.loads(lines[i]); o["usv"][0] = (o["usv"][0] + 1) % 0x10FFFF
        lines[i] = json.dumps(o, separators=(",", ":"))
        bad = os.path.join(tmp, "rec_corrupt.ndjson")
        open(bad, "w").write("\n".join(lines) + "\n")
        rb = vlib.tlc("UtfTextTrace.tla", "UtfTextTrace.cfg", workers=1, env={"TRACE": bad}, timeout=1200, coverage=False)
        if not rb.violation:
            raise vlib.Broken("binding lost: a corrupted recorded char-info was accepted by UtfTextTrace")
        ck.extra["binding_demo"] = "record %d with usv[0]+1 rejected by UtfTextTrace" % i
