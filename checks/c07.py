"""C07 - The stack machine follows the opcode spec; both interpreter builds agree.  DESIGN.md 4.8 / 5 (C07)."""
import json, os
import vlib, corpus


def _machine_cases(ck, tier, seed, tmp):
    runs = [("q1", "Machine_q1.cfg", None), ("q2", "Machine_q2.cfg", None)]
    files = []
    for name, cfg, _ in runs:
        out = os.path.join(tmp, name + ".ndjson")
        r = vlib.tlc("MachineMC.tla", cfg, out_file=out, timeout=3000, coverage=False, heap="16g")
        if r.violation:
            ck.violation("TLC: %s violated in Machine (%s)" % (r.violation, cfg), {"why": "Machine model", "trace": vlib.tlc_error_trace(r.out)})
            return None
        ck.add_tlc("Machine/" + cfg, r)
        files.append(out)
        if name == "q1":
            for s in r.emitted[2000:2003]:
                ck.sample({"module": "Machine", "prog": s["prog"], "status": s["status"], "ret": s["ret"]})
    # long random programs with every push encoding (simulation)
    out = os.path.join(tmp, "sim.ndjson")
    num = 3000 if tier == "quick" else 60000
    r = vlib.tlc("MachineMC.tla", "Machine_sim.cfg", out_file=out, simulate=num, depth=24, seed=seed, workers=8, timeout=3000, coverage=False)
    if r.violation:
        ck.violation("TLC: %s violated in Machine (simulation)" % r.violation, {"why": "Machine model", "trace": vlib.tlc_error_trace(r.out)})
        return None
    ck.add_tlc("Machine/simulate(num=%d x 8 workers, depth 24)" % num, r)
    files.append(out)
    if tier != "quick":
        out = os.path.join(tmp, "t1.ndjson")
        r = vlib.tlc("MachineMC.tla", "Machine_t1.cfg", out_file=out, timeout=6000, coverage=False, heap="24g")
        if r.violation:
            ck.violation("TLC: %s violated in Machine (t1)" % r.violation, {"why": "Machine model", "trace": vlib.tlc_error_trace(r.out)})
            return None
        ck.add_tlc("Machine/Machine_t1.cfg", r)
        files.append(out)
    # de-duplicate programs across runs
    allc = os.path.join(tmp, "all.ndjson")
    seen = set()
    with open(allc, "w") as fo:
        for f in files:
            for line in open(f):
                if line not in seen:
                    seen.add(line)
                    fo.write(line)
    # deep stacks: D pushes folded by D - 1 additions; every depth the machine supports (up to 1023 values) must give D
    with open(allc, "a") as fo:
        for d in (2, 3, 17, 255, 256, 600, 1000, 1019, 1020, 1021, 1022, 1023):
            prog = [1, 1] * d + [6] * (d - 1) + [48]
            fo.write(json.dumps({"prog": prog, "loads": True, "status": "finished", "ret": d, "note": "deep stack"}) + "\n")
    ck.extra["distinct_programs"] = len(seen) + 12
    return allc


def run(ck, tier, seed):
    tmp = vlib.tmpdir("C07")
    cases = _machine_cases(ck, tier, seed, tmp)
    if cases is None:
        return
    font = os.path.join(vlib.REPO, "tests/fonts/small.ttf")
    ck.extra["impl"] = {}
    for cfg in ("san", "sand", "relc", "reld"):
        exe = vlib.build_harness(cfg)
        h = vlib.run_harness(exe, ["machine", cases, font], timeout=3000)
        vlib.absorb(ck, h)
        if h.summary:
            ck.traces += h.summary["extra"]["runs"]
            ck.extra.setdefault("impl", {})["machine/" + cfg] = dict(h.summary["extra"], model_drift=h.summary["drift"])
    # second clause: both interpreters shape the corpus identically (same compiler, same flags)
    js = corpus.jobs(maxlines=60 if tier == "quick" else 100000, chunk=0)
    js += corpus.jobs(maxlines=40 if tier == "quick" else 400, chunk=24, dirs=[0, 1, 3], with_fonttests=True)
    js += corpus.random_jobs(n=120 if tier == "quick" else 3000, seed=seed, dirs=[0, 1])
    jf = os.path.join(tmp, "jobs.ndjson")
    open(jf, "w").write("\n".join(json.dumps(j) for j in js) + "\n")
    for a, b in (("san", "sand"), ("relc", "reld")):
        outs = {}
        for cfg in (a, b):
            exe = vlib.build_harness(cfg)
            h = vlib.run_harness(exe, ["shape", jf], timeout=3000)
            vlib.absorb(ck, h, pid="*")
            if h.fault or not h.summary:
                outs[cfg] = None
                continue
            outs[cfg] = [json.loads(l) for l in h.out.splitlines() if l.startswith('{"id"')]
        if outs[a] is None or outs[b] is None:
            continue
        if len(outs[a]) != len(outs[b]):
            raise vlib.Broken("corpus runs of %s and %s produced different numbers of segments" % (a, b))
        ndiff = 0
        for x, y in zip(outs[a], outs[b]):
            if x != y:
                ndiff += 1
                ck.violation("call-threaded and direct-threaded interpreters shape %s segment %d differently (%s vs %s)" % (x["id"], x["seg"], a, b),
                             {"why": "interpreter builds disagree", "id": x["id"], "seg": x["seg"], "builds": [a, b]})
        ck.traces += len(outs[a])
        ck.extra.setdefault("impl", {})["corpus %s=%s" % (a, b)] = {"segments": len(outs[a]), "differing": ndiff}
    ck.assumptions += ["opcode specification = doc/OpCodes.adoc as formalised in spec/Machine.tla on 32-bit two's complement; "
                       "BITOR/BITAND numbering follows src/inc/Machine.h (see DESIGN.md 7.2 F10)",
                       "cross-interpreter comparison uses the same compiler and flags for both builds"]
