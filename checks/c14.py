"""C14 - Compressed tables are transparent; the LZ4 decoder is exact and bounded.  DESIGN.md 4.6 / 5 (C14)."""
import json, os, random, struct
import vlib, corpus
from fontgen import sfnt, lz4


def decoder_clause(ck, tier, seed, tmp, exe):
    cfgs = ["Lz4_valid.cfg", "Lz4_mut.cfg"] if tier == "quick" else ["Lz4_validbig.cfg", "Lz4_mut.cfg"]
    for cfg in cfgs:
        out = os.path.join(tmp, cfg + ".ndjson")
        r = vlib.tlc("Lz4MC.tla", cfg, out_file=out, timeout=7000, coverage=False, heap="24g")
        if r.violation:
            ck.violation("TLC: %s violated in Lz4 (%s)" % (r.violation, cfg), {"why": "Lz4 model", "trace": vlib.tlc_error_trace(r.out)})
            return False
        ck.add_tlc("Lz4/" + cfg, r)
        if cfg.startswith("Lz4_valid"):
            for s in r.emitted[300:302]:
                ck.sample({"module": "Lz4", "in": s["in"][:40], "osize": s["osize"], "must_accept": s["must"]})
        h = vlib.run_harness(exe, ["lz4", out], timeout=3000)
        vlib.absorb(ck, h)
        if h.summary:
            ck.traces += h.summary["extra"]["calls"]
            ck.extra.setdefault("impl", {})["lz4/" + cfg] = h.summary["extra"]
    return True


def font_clause(ck, tier, seed, tmp, exe):
    rng = random.Random(seed)
    bases = ["Awami_compressed_test.ttf"] + (["AwamiNastaliq-Regular.ttf"] if tier != "quick" else [])
    modes = ["greedy", "lazy_random", "overlap", "sparse"]
    jobs, groups = [], {}
    text = os.path.join(vlib.REPO, "tests/texts/awami_tests.txt")
    maxlines = 25 if tier == "quick" else 200
    for base in bases:
        S = sfnt.Sfnt(os.path.join(vlib.REPO, "tests/fonts", base))
        tabs = {t: S.table(t) for t in S.order}
        plain = {t: lz4.decompress_table(tabs[t]) for t in ("Silf", "Glat")}
        if plain["Silf"] is None or plain["Glat"] is None:
            raise vlib.Broken("%s is not compressed" % base)
        variants = {"shipped": dict(tabs), "plain": dict(tabs, Silf=plain["Silf"], Glat=plain["Glat"])}
        for m in modes:
            cs, cg = lz4.compress_table(plain["Silf"], m, seed), lz4.compress_table(plain["Glat"], m, seed)
            if cs and cg:
                variants["both-" + m] = dict(tabs, Silf=cs, Glat=cg)
                if m in ("lazy_random", "overlap"):
                    variants["silf-" + m] = dict(tabs, Silf=cs, Glat=plain["Glat"])
                    variants["glat-" + m] = dict(tabs, Silf=plain["Silf"], Glat=cg)
        # valid encodings that are only just shorter than the data (1, 2, 8, 9 bytes saved): still "shorter than the data"
        for saved in ((1, 8) if tier == "quick" else (1, 2, 5, 8, 9, 64)):
            cs, cg = lz4.compress_table_to(plain["Silf"], saved), lz4.compress_table_to(plain["Glat"], saved)
            if cs and cg:
                variants["both-saved%d" % saved] = dict(tabs, Silf=cs, Glat=cg)
                variants["glat-saved%d" % saved] = dict(tabs, Silf=plain["Silf"], Glat=cg)
        for name, tb in variants.items():
            path = os.path.join(tmp, "%s.%s.ttf" % (base, name))
            open(path, "wb").write(sfnt.build_sfnt(tb))
            jid = "%s|%s" % (base, name)
            jobs.append({"font": path, "file": text, "dir": 1, "maxlines": maxlines, "id": jid, "prop": "C14"})
            jobs.append({"font": path, "file": text, "dir": 1, "maxlines": max(5, maxlines // 5), "opts": 7, "ppm": 20, "id": jid + "|o7"})
            # ... and served through the table callbacks (what the library decompressed is its own: the client gets back
            # the buffers it handed out and nothing else)
            jobs.append({"font": path, "file": text, "dir": 1, "maxlines": 3, "src": "ops", "opts": 0 if len(jobs) % 2 else 3, "id": jid + "|ops", "prop": "C14"})
            groups.setdefault(base, []).append(jid)
        # arbitrary bytes: single-byte rewrites of the compressed payloads
        for t in ("Silf", "Glat"):
            orig = tabs[t]
            nmut = 12 if tier == "quick" else 80
            for k in range(nmut):
                pos = rng.choice([8, 9, 10, 11]) if k < 4 else rng.randrange(8, len(orig))
                val = rng.choice([0, 1, 15, 16, 240, 255, orig[pos] ^ 1, orig[pos] ^ 0x80]) & 0xFF
                if val == orig[pos]:
                    continue
                mut = orig[:pos] + bytes([val]) + orig[pos + 1:]
                try:
                    ref = lz4.decode(mut[8:])
                    refused = len(ref) != (struct.unpack(">I", mut[4:8])[0] & 0x07FFFFFF) or ref[:4] != mut[:4]
                    same = (not refused) and ref == plain[t]
                except ValueError:
                    refused, same = True, False
                path = os.path.join(tmp, "%s.mut-%s-%d.ttf" % (base, t, k))
                open(path, "wb").write(sfnt.build_sfnt(dict(tabs, **{t: mut})))
                jid = "%s|mut-%s-%d@%d=%d" % (base, t, k, pos, val)
                if refused:
                    jobs.append({"font": path, "file": text, "dir": 1, "maxlines": 3, "id": jid, "noload": "C14"})
                elif same:
                    jobs.append({"font": path, "file": text, "dir": 1, "maxlines": maxlines, "id": jid, "prop": "C14"})
                    groups[base].append(jid)
                # (a rewrite that decodes to different bytes of the right size may load or not: only safety is observed)
                else:
                    jobs.append({"font": path, "file": text, "dir": 1, "maxlines": 3, "id": jid, "prop": "none"})
        # a valid block under a header that announces more bytes than the block decodes to: the table cannot be complete
        for t in ("Silf", "Glat"):
            orig = tabs[t]
            size = struct.unpack(">I", orig[4:8])[0]
            for k, inc in enumerate((1, 4, 256) if tier == "quick" else (1, 2, 4, 7, 8, 256, 70000)):
                if (size & 0x07FFFFFF) + inc > 0x07FFFFFF:
                    continue
                mut = orig[:4] + struct.pack(">I", size + inc) + orig[8:]
                path = os.path.join(tmp, "%s.big-%s-%d.ttf" % (base, t, k))
                open(path, "wb").write(sfnt.build_sfnt(dict(tabs, **{t: mut})))
                jobs.append({"font": path, "file": text, "dir": 1, "maxlines": 3, "id": "%s|announce-%s+%d" % (base, t, inc), "noload": "C14"})
    jf = os.path.join(tmp, "fontjobs.ndjson")
    open(jf, "w").write("\n".join(json.dumps(j) for j in jobs) + "\n")
    h = vlib.run_harness(exe, ["shape", jf], timeout=6000)
    vlib.absorb(ck, h)
    vlib.absorb(ck, h, pid="C03"); vlib.absorb(ck, h, pid="C04"); vlib.absorb(ck, h, pid="C05")
    if h.fault or not h.summary:
        return
    rows = [json.loads(l) for l in h.out.splitlines() if l.startswith('{"id"')]
    by = {}
    for r in rows:
        by.setdefault(r["id"], []).append((r["seg"], r["h"]))
    ndiff = 0
    for base, ids in groups.items():
        for suffix in ("", "|o7"):
            ref = by.get("%s|plain%s" % (base, suffix))
            if ref is None:
                raise vlib.Broken("uncompressed variant of %s produced no segments" % base)
            for jid in ids:
                got = by.get(jid + suffix)
                if got is None:
                    if suffix == "" or not jid.split("|")[1].startswith("mut"):
                        continue
                    continue
                if got != ref[:len(got)] and got != ref:
                    ndiff += 1
                    ck.violation("font variant %s shapes differently from the uncompressed font" % (jid + suffix),
                                 {"why": "compressed table not transparent", "variant": jid + suffix})
    ck.traces += len(rows)
    ck.extra.setdefault("impl", {})["fonts"] = {"variants": sum(len(v) for v in groups.values()), "jobs": len(jobs), "segments": len(rows), "differing": ndiff}


def run(ck, tier, seed):
    tmp = vlib.tmpdir("C14")
    exe = vlib.build_harness("san")
    if not decoder_clause(ck, tier, seed, tmp, exe):
        return
    font_clause(ck, tier, seed, tmp, exe)
    ck.assumptions += ["LZ4 block format as written in spec/Lz4.tla (Parse / Apply / Encode)",
                       "fontgen/lz4.py reference decoder and encoders (every encoding is checked against the decoder before use)"]
