"""C16 - Table callbacks follow strict borrow discipline; nothing is leaked.  DESIGN.md 4.13 / 5 (C16)."""
import json, os, random
import vlib
from checks import utfcommon


def histories(ck, tier, tmp):
    out = os.path.join(tmp, "hist.ndjson")
    # thorough: four operations over every font kind (five over all of them is a matter of hours since the kinds and the
    # operations grew; the deep histories run on a core of kinds below)
    cfg = utfcommon.cfg_with("FaceLife_quick.cfg", tmp, MaxOps=3 if tier == "quick" else 4)
    try:
        r = vlib.tlc("FaceLife.tla", cfg, out_file=out, timeout=6000, coverage=(tier != "quick"), heap="16g")
    finally:
        utfcommon.rm_cfg(cfg)
    if r.violation:
        ck.violation("TLC: %s violated in FaceLife (design level)" % r.violation, {"why": "FaceLife model", "trace": vlib.tlc_error_trace(r.out)})
        return None, None
    ck.add_tlc("FaceLife(MaxOps=%d)" % (3 if tier == "quick" else 4), r)
    rn = vlib.tlc("FaceLife.tla", "FaceLife_neg.cfg", timeout=900, coverage=False)
    if rn.violation != "NoCallbackWhenPreloaded":
        raise vlib.Broken("negative control FaceLife_neg not refuted: %r" % rn.violation)
    return out, r


def validate(ck, trace, what):
    from checks import flcommon
    viol, k, accepted, rv = flcommon.validate_trace(trace, "FaceLifeTrace.cfg")
    if viol:
        rv.violation = viol
        lines = open(trace).read().splitlines()
        # find the history this event belongs to
        start = k - 1
        while start > 0 and '"Reset"' not in lines[start]:
            start -= 1
        ck.violation("%s: recorded table-callback trace rejected by FaceLifeTrace at event %d: %s" % (what, k, lines[min(k, len(lines) - 1)][:160]),
                     {"why": "trace rejected (%s)" % rv.violation, "event_index": k, "rejected_event": lines[min(k, len(lines) - 1)],
                      "history_events": lines[start:k + 1][-60:]})
        return False
    ck.add_tlc("FaceLifeTrace(%s, %d events)" % (what, rv.states - 1), rv)
    return True


def run(ck, tier, seed):
    tmp = vlib.tmpdir("C16")
    hist, r = histories(ck, tier, tmp)
    if hist is None:
        return
    for s in r.emitted[200:203]:
        ck.sample({"module": "FaceLife", "kind": s["kind"], "opts": s["opts"], "history": [o["op"] for o in s["hist"]]})
    exe = vlib.build_harness("san")
    trace = os.path.join(tmp, "trace.ndjson")
    h = vlib.run_harness(exe, ["facelife", hist, trace, os.path.join(vlib.REPO, "tests/fonts"), os.path.join(vlib.VERIF, "data")], timeout=6000)
    vlib.absorb(ck, h)
    if h.fault or not h.summary:
        return
    ck.traces += h.summary["extra"]["histories"]
    ck.extra["impl"] = {"facelife": h.summary["extra"]}
    if not validate(ck, trace, "TLC histories"):
        return
    if tier != "quick":
        from checks import flcommon as fl5
        cfg5 = fl5.write_cfg("_c16d_%d.cfg" % os.getpid(), Kinds='{"good", "badglyph", "noname", "compressed"}', Srcs='{"ops"}', Texts="{0}", OptSet="{0, 3, 4, 7}", MaxOps=5,
                             ClientOps='{"label", "featval", "destroy_fval", "make_font", "destroy_font", "make_seg", "destroy_seg", "shape", "justify"}')
        ok5, _ = fl5.run_histories(ck, tmp, "five-operation histories (core kinds)", cfg5, "FaceLifeTrace.cfg", exe)
        if not ok5:
            return
    # the deprecated entry point that takes the same callbacks (gr_make_face_with_seg_cache_and_ops): same discipline
    from checks import flcommon as fl
    cfgc = fl.write_cfg("_c16c_%d.cfg" % os.getpid(), Kinds='{"good", "noname", "badsilf", "badglyph", "compressed"}', Srcs='{"opsc"}', Texts="{0}",
                        ClientOps='{"label", "shape", "make_font", "destroy_font"}', MaxOps=2)
    okc, _ = fl.run_histories(ck, tmp, "seg-cache-entry-point", cfgc, "FaceLifeTrace.cfg", exe)
    if not okc:
        return
    # binding demonstration: drop one release event -> the trace must be rejected
    lines = open(trace).read().splitlines()
    rng = random.Random(seed)
    rel = [i for i, l in enumerate(lines) if l.startswith('{"e":"Rel"')]
    if rel:
        i = rng.choice(rel)
        bad = os.path.join(tmp, "trace_dropped.ndjson")
        # (only the history the event belongs to, and the one after it: the rest of a long trace adds nothing)
        a = max(j for j in range(i + 1) if '"Reset"' in lines[j])
        nxt = [j for j in range(i + 1, min(len(lines), i + 4000)) if '"Reset"' in lines[j]]
        b = nxt[1] if len(nxt) > 1 else (nxt[0] if nxt else len(lines))
        open(bad, "w").write("\n".join(lines[a:i] + lines[i + 1:b]) + "\n")
        rb = vlib.tlc("FaceLifeTrace.tla", "FaceLifeTrace.cfg", workers=1, env={"TRACE": bad}, timeout=3000, coverage=False, heap="16g")
        if not rb.violation:
            raise vlib.Broken("binding lost: a trace with a dropped release event was accepted")
        ck.extra["binding_demo"] = "trace with release event %d removed is rejected by FaceLifeTrace" % i
    ck.assumptions += ["instrumented gr_face_ops: every get_table returns a fresh guarded copy, release makes it inaccessible",
                       "library allocation at quiescence measured with the sanitizer allocator's byte counter (plus LeakSanitizer at exit)"]
