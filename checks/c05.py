"""C05 - structural invariants of returned segments (see checks/engine_common.py and harness/common.cpp: project)."""
from checks import engine_common, utfcommon


def run(ck, tier, seed):
    # first sentence (char-infos = decoded characters, strictly increasing bases): the UtfText ingestion contract
    utfcommon.utftext(ck, tier, seed, props=("C05",))
    engine_common.run_engine(ck, tier, seed, pids=("C05",))
    ck.assumptions += ["the invariant is evaluated through the public API on every segment of wild programs, GDL-lite programs (all 8 direction values) and the corpus"]
