"""C10 - Face options change resource behaviour, never results.  DESIGN.md 4.13 / 5 (C10)."""
import json, os
import vlib, corpus
from checks import flcommon as fl


def run(ck, tier, seed):
    tmp = vlib.tmpdir("C10")
    exe = vlib.build_harness("san")
    q = tier == "quick"
    cfg = fl.write_cfg("_c10_%d.cfg" % os.getpid(), Kinds='{"good", "compressed", "awami", "name1"}', Srcs='{"ops", "file", "opsnr"}',
                       Texts="{0, 1, 2, 3, 4, 5, 6, 7}", ClientOps='{"face_query", "label", "make_seg", "destroy_seg", "make_font"}', MaxOps=2 if q else 3)
    ok, info = fl.run_histories(ck, tmp, "option-sweep", cfg, "FaceLifeTrace_c10.cfg", exe)
    if not ok:
        return
    # corpus sweep: every shipped font x text lines x 8 option values x {file, callbacks}: identical dumps
    pairs = corpus.PAIRS
    maxlines = 600
    ref = None
    ndiff = nseg = 0
    for src in ("file", "ops"):
        for opts in range(8):
            if q and src == "ops" and opts not in (0, 3, 6):
                continue
            js = corpus.jobs(maxlines=maxlines, pairs=pairs, opts=opts, with_fonttests=True)
            js += corpus.collision_jobs(tmp, n=40 if q else 400, opts=opts)
            js += corpus.random_jobs(n=60 if q else 1500, seed=seed, opts=opts)
            js += corpus.manytables_jobs(tmp, opts=opts)
            js += corpus.smp_start_jobs(tmp, opts=opts)
            js += corpus.cmap_jobs(n=6 if q else 60, seed=seed, opts=opts, dirs=(0, 1))
            for j in js:
                j["src"] = src
            jf = os.path.join(tmp, "jobs_%s_%d.ndjson" % (src, opts))
            open(jf, "w").write("\n".join(json.dumps(j) for j in js) + "\n")
            h = vlib.run_harness(exe, ["shape", jf], timeout=6000)
            for p in ("C03", "C04", "C05", "C10"):
                vlib.absorb(ck, h, pid=p)
            if h.fault or not h.summary:
                return
            rows = [(r["id"], r["seg"], r["h"]) for r in (json.loads(l) for l in h.out.splitlines() if l.startswith('{"id"'))]
            nseg += len(rows)
            if ref is None:
                ref = rows
                continue
            if len(rows) != len(ref):
                ck.violation("faces with options %d (%s) produce %d segments, options 0 (file) produce %d" % (opts, src, len(rows), len(ref)),
                             {"why": "segment count differs", "opts": opts, "src": src})
                continue
            for a, b in zip(ref, rows):
                if a != b:
                    ndiff += 1
                    ck.violation("%s segment %d shapes differently with face options %d (%s) than with options 0 (file)" % (b[0], b[1], opts, src),
                                 {"why": "options change results", "id": b[0], "seg": b[1], "opts": opts, "src": src})
    ck.traces += nseg
    ck.extra.setdefault("impl", {})["corpus_option_sweep"] = {"segments": nseg, "differing": ndiff}
    ck.assumptions += ["well-formed fonts only (shipped corpus); equality is on the full public-API dump"]
