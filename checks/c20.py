"""C20 - Tag/string conversions honour their documented buffer contracts.  DESIGN.md 4.3 / 5 (C20)."""
import os
import vlib
from checks import utfcommon


def run(ck, tier, seed):
    tmp = vlib.tmpdir("C20")
    cases = os.path.join(tmp, "tags.ndjson")
    maxlen = 5 if tier == "quick" else 6
    cfg = utfcommon.cfg_with("Tags_quick.cfg", tmp, MaxLen=maxlen)
    try:
        r = vlib.tlc("Tags.tla", cfg, out_file=cases, timeout=3000, coverage=False, heap="16g")
    finally:
        utfcommon.rm_cfg(cfg)
    if r.violation:
        ck.violation("TLC: invariant %s of Tags violated (design level)" % r.violation,
                     {"why": "Tags model", "trace": vlib.tlc_error_trace(r.out)})
        return
    ck.add_tlc("Tags(MaxLen=%d)" % maxlen, r)
    rn = vlib.tlc("Tags.tla", "Tags_neg.cfg", timeout=600, coverage=False)
    if rn.violation not in ("StrOk", "TagOk"):
        raise vlib.Broken("negative control Tags_neg not refuted (got %r)" % rn.violation)
    # Padauk with the tags of its first Sill languages rewritten to every length a tag can have: the empty tag (0: asking
    # for it, or for four spaces, means the font's defaults), one, two and three characters
    import struct
    from fontgen import sfnt
    import corpus
    S = sfnt.Sfnt(os.path.join(corpus.F, "Padauk.ttf"))
    t = {k: S.table(k) for k in S.order}
    sill = bytearray(t["Sill"])
    nl = struct.unpack(">H", sill[4:6])[0]
    for i, tag in enumerate([0, 0x6B000000, 0x6B730000, 0x6B737A00][:nl]):
        sill[12 + 8 * i:16 + 8 * i] = struct.pack(">I", tag)
    t["Sill"] = bytes(sill)
    # ... and the ids of its first features rewritten to short tags that begin with a digit or a punctuation mark
    ft = bytearray(t["Feat"])
    v2 = struct.unpack(">H", ft[0:2])[0] >= 2
    nf = struct.unpack(">H", ft[4:6])[0]
    for i, tag in enumerate([0x33640000, 0x39707400, 0x2B000000][:nf]):          # "3d", "9pt", "+"
        at = 12 + (16 if v2 else 12) * i
        if v2:
            ft[at:at + 4] = struct.pack(">I", tag)
    if v2:
        t["Feat"] = bytes(ft)
    staged = os.path.join(tmp, "padauk_shorttags.ttf")
    open(staged, "wb").write(sfnt.build_sfnt(t))
    exe = vlib.build_harness("san")
    h = vlib.run_harness(exe, ["tags", cases, 2 if tier == "quick" else 3, seed] + utfcommon.FONTS + [staged], timeout=3000)
    vlib.absorb(ck, h)
    if h.summary:
        ck.traces += h.summary["extra"]["calls"]
        ck.extra.setdefault("impl", {})["tags"] = h.summary["extra"]
        ck.exhaustive = True
        ck.extra["exhaustive_note"] = "all C strings of length <= %d over all byte values executed in exact-size guarded buffers" % (2 if tier == "quick" else 3)
    for s in r.emitted[100:103]:
        ck.sample(s)
    ck.assumptions += ["contract = include/graphite2/Font.h comments as written in spec/Tags.tla"]
