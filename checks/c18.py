"""C18 - Feature values are an isolated, range-checked map with font defaults.  DESIGN.md 4.7 / 5 (C18)."""
import json, os
import vlib
from fontgen import feat


def run(ck, tier, seed):
    tmp = vlib.tmpdir("C18")
    raw = os.path.join(tmp, "raw.ndjson")
    cfg = "Features_quick.cfg" if tier == "quick" else "Features_thorough.cfg"
    r = vlib.tlc("FeaturesMC.tla", cfg, out_file=raw, timeout=6000, coverage=False, heap="24g", parse=False)
    if r.violation:
        ck.violation("TLC: %s violated in Features (design level)" % r.violation, {"why": "Features model", "trace": vlib.tlc_error_trace(r.out)})
        return
    ck.add_tlc("Features/" + cfg, r)
    # negative control: a packing that lets a field straddle a word boundary must break the refinement
    rn = vlib.tlc("FeaturesMC.tla", "Features_neg.cfg", timeout=900, coverage=False)
    if rn.violation not in ("PackingOk", "Refines"):
        raise vlib.Broken("negative control Features_neg not refuted: %r" % rn.violation)
    # the emitted behaviours are streamed (the thorough configuration emits millions): every `stride`-th one is replayed,
    # grouped by feature definitions (the lines start with "defs", so a textual sort groups them)
    stride = 1 if tier == "quick" else 8
    picked = os.path.join(tmp, "picked.ndjson")
    n = 0
    with open(picked, "w") as fo:
        for k, line in enumerate(open(raw)):
            if (k + seed) % stride == 0:
                fo.write(line)
                n += 1
    if n == 0:
        raise vlib.Broken("Features emitted no behaviours")
    srt = os.path.join(tmp, "sorted.ndjson")
    rc, out, _ = vlib.sh("LC_ALL=C sort -S 2G -T %s -o %s %s" % (tmp, srt, picked), timeout=3000)
    if rc != 0:
        raise vlib.Broken("sort failed: " + out[-500:])
    os.remove(raw)
    os.remove(picked)
    cf = os.path.join(tmp, "cases.ndjson")
    ncases = 0
    with open(cf, "w") as fo:
        for line in open(srt):
            c = json.loads(line)
            c.update(feat.from_case(c))
            fo.write(json.dumps(c) + "\n")
            ncases += 1
            if ncases in (1000, 1001, 1002):
                ck.sample({"module": "Features", "defs": c["defs"], "log": c["log"]})
    os.remove(srt)
    ck.extra["replayed_behaviours"] = ncases
    ck.extra["replay_stride"] = stride
    host = os.path.join(vlib.REPO, "tests/fonts/small.ttf")
    exe = vlib.build_harness("san")
    h = vlib.run_harness(exe, ["features", cf, host, 1], timeout=6000)
    vlib.absorb(ck, h)
    if h.summary:
        ck.traces += ncases
        ck.extra["impl"] = {"features": h.summary["extra"]}
        ck.exhaustive = (stride == 1)
        ck.extra["exhaustive_note"] = "every value 0..65535 set on every feature of every synthesised font (acceptance, read-back, isolation)"
    # shipped fonts: self-consistency of set/get/clone over all features (values from the Feat table itself)
    fonts = [os.path.join(vlib.REPO, "tests/fonts", f) for f in ("Padauk.ttf", "charis_r_gr.ttf", "Scheherazadegr.ttf", "MagyarLinLibertineG.ttf", "Annapurnarc2.ttf")]
    from fontgen import sfnt
    ff = os.path.join(tmp, "fonts.ndjson")
    with open(ff, "w") as fo:
        for f in fonts:
            m = sfnt.read_feat_sill_name(sfnt.Sfnt(f))
            if m:
                m["font"] = f
                fo.write(json.dumps(m) + "\n")
    h2 = vlib.run_harness(exe, ["featfonts", ff], timeout=3000)
    vlib.absorb(ck, h2)
    if h2.summary:
        ck.traces += h2.summary["extra"]["fonts"]
        ck.extra.setdefault("impl", {})["shipped"] = h2.summary["extra"]
    ck.assumptions += ["the abstract map of spec/Features.tla is the oracle; fontgen/feat.py writes Feat v2 / Sill / name tables for it",
                       "host font tests/fonts/small.ttf supplies the non-feature tables"]
