"""C11 - UTF-8/16/32 text is decoded exactly and never read past its end.  DESIGN.md 4.2 / 5 (C11)."""
import os
import vlib
from checks import utfcommon


def run(ck, tier, seed):
    tmp = vlib.tmpdir("C11")
    cases = os.path.join(tmp, "count.ndjson")
    maxlen = 3 if tier == "quick" else 4
    cfg = utfcommon.cfg_with("Utf_quick.cfg", tmp, MaxLen=maxlen)
    try:
        r = vlib.tlc("Utf.tla", cfg, out_file=cases, timeout=3000, coverage=(tier != "quick"), heap="24g")
    finally:
        utfcommon.rm_cfg(cfg)
    if r.violation:
        ck.violation("TLC: invariant %s of Utf violated (design level)" % r.violation,
                     {"why": "Utf model", "trace": vlib.tlc_error_trace(r.out)})
        return
    ck.add_tlc("Utf(MaxLen=%d)" % maxlen, r)
    # negative control: the pre-fix decoder (surrogates accepted) must be refuted by the model
    rn = vlib.tlc("Utf.tla", "Utf_neg.cfg", timeout=600, coverage=False)
    if rn.violation not in ("GetAgrees", "ErrorWhenIllFormed", "ErrorIsSound"):
        raise vlib.Broken("negative control Utf_neg not refuted (got %r)" % rn.violation)
    exe = vlib.build_harness("san")
    h = vlib.run_harness(exe, ["utfcount", cases, 3, seed], timeout=3000)
    vlib.absorb(ck, h)
    if h.summary:
        ck.traces += h.summary["extra"]["calls"]
        ck.extra.setdefault("impl", {})["utfcount"] = dict(h.summary["extra"], model_drift=h.summary["drift"])
        ck.exhaustive = True
        ck.extra["exhaustive_note"] = ("all UTF-8 strings of <= 3 bytes (with buffer_end and NUL-terminated) were executed: "
                                       "class strings from TLC expanded over every concrete byte; 16/32-bit strings by class edges + seeded samples")
    # boundary-structured longer buffers (4..6 units)
    cases2 = os.path.join(tmp, "count_struct.ndjson")
    r2 = vlib.tlc("Utf.tla", "Utf_struct.cfg", out_file=cases2, timeout=3000, coverage=False, heap="24g")
    if r2.violation:
        ck.violation("TLC: invariant %s of Utf (structured buffers) violated" % r2.violation,
                     {"why": "Utf model", "trace": vlib.tlc_error_trace(r2.out)})
        return
    ck.add_tlc("Utf(structured 4..6 units)", r2)
    h2 = vlib.run_harness(exe, ["utfcount", cases2, 0, seed], timeout=3000)
    vlib.absorb(ck, h2)
    if h2.summary:
        ck.traces += h2.summary["extra"]["calls"]
        ck.extra.setdefault("impl", {})["utfcount_structured"] = dict(h2.summary["extra"], model_drift=h2.summary["drift"])
    for s in r.emitted[500:503]:
        ck.sample({"module": "Utf", "enc": s["enc"], "buf": s["buf"], "endGiven": s["endGiven"], "wf": s["wf"], "nwf": s["nwf"]})
    # second sentence: encoding equivalence + U+FFFD resynchronisation on shaped segments
    utfcommon.utftext(ck, tier, seed, props=("C11",))
    ck.assumptions += ["Unicode well-formedness as transcribed in spec/UtfOps.tla (Table 3-7, D90, D91)",
                       "guard pages / ASan observe every out-of-bounds read on the executed cases"]
