"""C08 - Shaping is a pure function of its arguments (history-independent).  DESIGN.md 4.13 / 5 (C08)."""
import json, os, random
import vlib
from checks import flcommon as fl


def run(ck, tier, seed):
    tmp = vlib.tmpdir("C08")
    exe = vlib.build_harness("san")
    q = tier == "quick"
    # (a) segment-making histories: every text shaped cold and after other texts, on lazy and preloaded faces
    cfg = fl.write_cfg("_c08a_%d.cfg" % os.getpid(), Kinds='{"good", "badglyph", "awami", "underflow"}', Texts="{0, 1, 2, 3, 4, 5, 6, 7, 8, 9}",
                       ClientOps='{"shape"}' if q else '{"shape", "make_font"}', MaxOps=2 if q else 3)
    ok, info = fl.run_histories(ck, tmp, "segment-histories", cfg, "FaceLifeTrace.cfg", exe)
    if not ok:
        return
    # (b) mixed histories: labels, feature values, justification, fonts, queries between the shaping calls
    cfg = fl.write_cfg("_c08b_%d.cfg" % os.getpid(), Kinds='{"good", "compressed"}', Texts="{0, 1}", MaxOps=3 if q else 5)
    ok, info2 = fl.run_histories(ck, tmp, "mixed-histories", cfg, "FaceLifeTrace.cfg", exe)
    if not ok:
        return
    # (b') feature-value objects come and go between the shaping calls (their addresses are reused): five operations
    cfg = fl.write_cfg("_c08f_%d.cfg" % os.getpid(), Kinds='{"good", "charisfast"}', OptSet="{0, 7}", Texts="{1}", MaxOps=5,
                       ClientOps='{"featval", "edit_fval", "destroy_fval", "make_seg", "destroy_seg", "shape"}')
    ok, info3 = fl.run_histories(ck, tmp, "feature-object-histories", cfg, "FaceLifeTrace.cfg", exe)
    if not ok:
        return
    # (c) corpus orders: every line of every corpus text shaped on one shared face in file order, in reverse order,
    #     and on a face of its own (cold); the three must agree line by line
    import corpus
    outs = {}
    for mode in ("forward", "reverse", "fresh"):
        js = corpus.jobs(maxlines=600 if mode != "fresh" else (60 if q else 600), with_fonttests=False)
        # a font with application-supplied advances caches them per gr_font: shared, reversed and cold must still agree
        js += [dict(j, hinted=1, ppm=13, id=j["id"] + ":hinted") for j in corpus.jobs(maxlines=60, with_fonttests=False)]
        # lines over each font's own cmap, with glyphs whose ids agree modulo a power of two next to each other, on
        # hinted fonts (both constructors) and on a plain one
        for hinted in (1, 2, 0):
            js += [dict(j, hinted=hinted, ppm=13, id=j["id"] + ":h%d" % hinted) for j in corpus.cmap_text_jobs(tmp, nlines=30 if q else 200, seed=seed)]
        js.append(corpus.pseudo_font_job(tmp))      # duplicate entries in the pseudo-glyph map: the first one wins, always
        for j in js:
            j["opts"] = 0
            if mode == "reverse":
                j["reverse"] = 1
            if mode == "fresh":
                j["fresh"] = 1
        jf = os.path.join(tmp, "order_%s.ndjson" % mode)
        open(jf, "w").write("\n".join(json.dumps(j) for j in js) + "\n")
        h = vlib.run_harness(exe, ["shape", jf], timeout=6000)
        for p in ("C03", "C04", "C05", "C08"):
            vlib.absorb(ck, h, pid=p)
        if h.fault or not h.summary:
            return
        by = {}
        for r in (json.loads(l) for l in h.out.splitlines() if l.startswith('{"id"')):
            by.setdefault(r["id"], []).append(r["h"])
        outs[mode] = by
        ck.traces += h.summary["extra"]["segments"]
    nd = 0
    for fid, fw in outs["forward"].items():
        rv = list(reversed(outs["reverse"].get(fid, [])))
        fr = outs["fresh"].get(fid, [])
        for k, hv in enumerate(fw):
            if (k < len(rv) and rv[k] != hv) or (k < len(fr) and fr[k] != hv):
                nd += 1
                ck.violation("%s line %d shapes differently depending on what the face shaped before (file order / reverse order / fresh face)" % (fid, k),
                             {"why": "history dependence on corpus", "id": fid, "line": k})
    ck.extra.setdefault("impl", {})["corpus_orders"] = {"fonts_x_texts": len(outs["forward"]), "differing": nd}
    # binding demonstration: change one recorded result hash -> rejected
    lines = open(info["trace"]).read().splitlines()
    idx = [i for i, l in enumerate(lines) if '"op":"make_seg"' in l and '"e":"Ret"' in l and '"h":""' not in l]
    if idx:
        i = random.Random(seed).choice(idx[len(idx) // 2:])
        o = json.loads(lines[i]); o["h"] = o["h"] + "1"
        lines[i] = json.dumps(o, separators=(",", ":"))
        bad = os.path.join(tmp, "corrupt.ndjson")
        open(bad, "w").write("\n".join(lines) + "\n")
        rb = vlib.tlc("FaceLifeTrace.tla", "FaceLifeTrace.cfg", workers=1, env={"TRACE": bad}, timeout=3000, coverage=False, heap="16g")
        if not rb.violation:
            raise vlib.Broken("binding lost: a trace with a changed segment hash was accepted")
        ck.extra["binding_demo"] = "trace with the result hash of event %d changed is rejected" % i
    ck.assumptions += ["a segment is compared through the full public-API dump (glyphs, positions, attachments, associations, char-infos)",
                       "purity oracle: FaceLifeTrace keeps the first result per (font kind, call, arguments, face options, source) and requires every later one to equal it"]
