"""C15 - Positions are design-unit results scaled linearly by the font size.  DESIGN.md 4.16 / 5 (C15)."""
import json, os, random
import vlib, corpus


def run(ck, tier, seed):
    tmp = vlib.tmpdir("C15")
    exe = vlib.build_harness("san")
    q = tier == "quick"
    p2s = [1, 16, 24, 33, 192, 8192] if q else [1, 2, 16, 24, 33, 192, 2000, 8192]     # P = 0.5, 8, 12, 16.5, 96, 4096
    jobs = []
    for font, text, rtl in corpus.PAIRS:
        for d in ([rtl] if q else [rtl, rtl ^ 1, rtl | 2]):
            jobs.append({"font": os.path.join(corpus.F, font), "file": os.path.join(corpus.T, text), "dir": d, "p2": p2s,
                         "maxlines": 600, "step": 6 if q else 1})
    # pseudo-random strings over each font's characters: clusters (attached glyphs with shifts) no corpus line has
    for k, rj in enumerate(corpus.random_jobs(n=80 if q else 1500, seed=seed)):
        jobs.append({"font": rj["font"], "cps": rj["cps"], "dir": rj["dir"], "p2": p2s[1:4] if q else p2s, "lineno": 100000 + k})
    # strings over each shipped font's own cmap (every font with a Silf table, also the small test fonts), in the font's
    # direction and the opposite one: the final positioning walks the slots in reverse order there
    for k, cj in enumerate(corpus.cmap_jobs(n=25 if q else 300, seed=seed, dirs=(0, 1, 3))):
        jobs.append({"font": cj["font"], "cps": cj["cps"], "dir": cj["dir"], "p2": p2s[1:4] if q else p2s, "lineno": 200000 + k})
    for k, aj in enumerate(corpus.advy_jobs(tmp)):          # vertical advances
        jobs.append({"font": aj["font"], "cps": aj["cps"], "dir": aj["dir"], "p2": p2s, "lineno": 300000 + k})
    jf = os.path.join(tmp, "jobs.ndjson")
    rec = os.path.join(tmp, "pairs.ndjson")
    open(jf, "w").write("\n".join(json.dumps(j) for j in jobs) + "\n")
    h = vlib.run_harness(exe, ["scale", jf, rec], timeout=6000)
    for p in ("C03", "C04", "C05", "C15"):
        vlib.absorb(ck, h, pid=p)
    if h.fault or not h.summary:
        return
    ck.extra["impl"] = {"scale": h.summary["extra"]}
    rv = vlib.tlc("Scale.tla", "Scale.cfg", workers=1, env={"TRACE": rec}, timeout=6000, coverage=False, heap="24g")
    lines = open(rec).read().splitlines()
    if rv.violation:
        k = max(rv.states - 1, 0)
        r = json.loads(lines[min(k, len(lines) - 1)])
        worst = None
        if r["s0"] == r["s1"]:
            for i, (d, p) in enumerate(zip(r["du"], r["px"])):
                e = d * r["p2"] / (2.0 * r["upem"])
                if worst is None or abs(p - e) > abs(worst[1] - worst[2]):
                    worst = (i, p, e)
        ck.violation("%s line %d at %.1f ppm: %s" % (r["font"], r["line"], r["p2"] / 2.0,
                     "structure depends on the font" if r["s0"] != r["s1"] else
                     "value %d is %.3f px, design units x P/upem give %.3f px" % (worst[0], worst[1] / 1024.0, worst[2] / 1024.0)),
                     {"why": "Scale relation violated (%s)" % rv.violation, "font": r["font"], "line": r["line"], "p2": r["p2"], "record": r})
        return
    ck.add_tlc("Scale(%d recorded pairs)" % len(lines), rv)
    ck.traces += len(lines)
    for l in lines[100:102]:
        r = json.loads(l)
        ck.sample({"module": "Scale", "font": r["font"], "line": r["line"], "upem": r["upem"], "ppm": r["p2"] / 2.0, "du1024": r["du"][:8], "px1024": r["px"][:8]})
    # binding demonstration: unscale one recorded value -> rejected
    rng = random.Random(seed)
    cand = [i for i, l in enumerate(lines) if '"p2":24' in l]
    if cand:
        i = rng.choice(cand)
        r = json.loads(lines[i])
        nz = [k for k, v in enumerate(r["px"]) if abs(v) > 4096]
        if nz:
            r["px"][nz[0]] += 200
            lines[i] = json.dumps(r, separators=(",", ":"))
            bad = os.path.join(tmp, "corrupt.ndjson")
            open(bad, "w").write("\n".join(lines) + "\n")
            rb = vlib.tlc("Scale.tla", "Scale.cfg", workers=1, env={"TRACE": bad}, timeout=6000, coverage=False, heap="24g")
            if not rb.violation:
                raise vlib.Broken("binding lost: a pair with one position shifted by 0.2 px was accepted")
            ck.extra["binding_demo"] = "record %d with one position shifted by 200/1024 px is rejected by Scale" % i
    ck.assumptions += ["tolerance: 8/1024 px + quantisation + (k+8) * |x| * 2^-20 for the k-th slot (single-precision accumulation)",
                       "lines are cut to 400 bytes so that positions stay inside the 32-bit fixed-point range of TLC"]
