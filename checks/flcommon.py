"""Shared pipeline of C08 / C10 / C16: FaceLife histories -> instrumented execution -> FaceLifeTrace validation."""
import json, os, re
import vlib

ALLOPS = '{"label", "face_query", "featval", "edit_fval", "destroy_fval", "make_font", "destroy_font", "make_seg", "shape", "query_seg", "justify", "destroy_seg"}'


def write_cfg(name, **kw):
    d = dict(Kinds='{"good"}', OptSet="{0, 1, 2, 3, 4, 5, 6, 7}", Srcs='{"ops"}', Texts="{0, 1}", ClientOps=ALLOPS, MaxOps=3, NameMemo="TRUE", Emit="TRUE")
    d.update(kw)
    body = "SPECIFICATION Spec\nCONSTANTS\n" + "".join("  %s = %s\n" % (k, v) for k, v in d.items())
    body += "INVARIANTS NoCallbackWhenPreloaded NothingHeldWhenGone HeldIsStable TypeOK EmitDone\n"
    path = os.path.join(vlib.SPEC, name)
    open(path, "w").write(body)
    return name


def run_histories(ck, tmp, tag, cfgname, trace_cfg, exe):
    """TLC generates histories with cfgname; harness executes; TLC validates with trace_cfg. Returns (ok, info)."""
    hist = os.path.join(tmp, tag + ".hist.ndjson")
    try:
        r = vlib.tlc("FaceLife.tla", cfgname, out_file=hist, timeout=6000, coverage=False, heap="16g")
    finally:
        try:
            os.remove(os.path.join(vlib.SPEC, cfgname))
        except OSError:
            pass
    if r.violation:
        ck.violation("TLC: %s violated in FaceLife (%s)" % (r.violation, tag), {"why": "FaceLife model", "trace": vlib.tlc_error_trace(r.out)})
        return False, None
    ck.add_tlc("FaceLife/" + tag, r)
    if not r.emitted:
        raise vlib.Broken("FaceLife emitted no histories for " + tag)
    if len(ck.samples) < 4:
        s = r.emitted[len(r.emitted) // 2]
        ck.sample({"module": "FaceLife", "kind": s["kind"], "opts": s["opts"], "src": s["src"], "history": ["%s(%s)" % (o["op"], o["arg"]) for o in s["hist"]]})
    trace = os.path.join(tmp, tag + ".trace.ndjson")
    h = vlib.run_harness(exe, ["facelife", hist, trace, os.path.join(vlib.REPO, "tests/fonts"), os.path.join(vlib.VERIF, "data")], timeout=6000)
    for p in ("C03", "C04", "C05", ck.pid):
        vlib.absorb(ck, h, pid=p)
    if h.fault or not h.summary:
        return False, None
    ck.traces += h.summary["extra"]["histories"]
    ck.extra.setdefault("impl", {})[tag] = h.summary["extra"]
    rv = vlib.tlc("FaceLifeTrace.tla", trace_cfg, workers=1, env={"TRACE": trace}, timeout=6000, coverage=False, heap="16g")
    if rv.violation:
        lines = open(trace).read().splitlines()
        k = min(rv.states - 1, len(lines) - 1)
        start = k
        while start > 0 and '"Reset"' not in lines[start]:
            start -= 1
        ev = lines[k]
        ck.violation("%s: recorded execution rejected by FaceLifeTrace at event %d: %s" % (tag, k, ev[:170]),
                     {"why": "trace rejected (%s)" % rv.violation, "rejected_event": ev, "history_events": lines[start:k + 1][-40:], "trace_cfg": trace_cfg})
        return False, {"rejected": ev, "trace": trace}
    ck.add_tlc("FaceLifeTrace/%s (%d events)" % (tag, rv.states - 1), rv)
    return True, {"trace": trace, "events": rv.states - 1}
