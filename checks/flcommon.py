"""Shared pipeline of C08 / C10 / C16: FaceLife histories -> instrumented execution -> FaceLifeTrace validation."""
import json, os, re
import vlib

ALLOPS = '{"label", "face_query", "featval", "edit_fval", "destroy_fval", "make_font", "destroy_font", "make_seg", "shape", "query_seg", "justify", "destroy_seg"}'


def write_cfg(name, **kw):
    d = dict(Kinds='{"good"}', OptSet="{0, 1, 2, 3, 4, 5, 6, 7}", Srcs='{"ops"}', Texts="{0, 1}", ClientOps=ALLOPS, MaxOps=3, NameMemo="TRUE", Emit="TRUE")
    d.update(kw)
    body = "SPECIFICATION Spec\nCONSTANTS\n" + "".join("  %s = %s\n" % (k, v) for k, v in d.items())
    body += "INVARIANTS NoCallbackWhenPreloaded NothingHeldWhenGone HeldIsStable TypeOK EmitDone\n"
    path = os.path.join(vlib.SPEC, name)
    open(path, "w").write(body)
    return name


def validate_trace(trace, trace_cfg, timeout=6000):
    """FaceLifeTrace over a recorded trace.  Long traces are cut at history boundaries (Reset events) into up to eight
    parts that are validated side by side (the purity oracle then compares within a part).  Returns
    (violation name or None, index of the rejected event in the whole trace, events accepted, representative TlcResult)."""
    lines = open(trace).read().splitlines()
    resets = [i for i, l in enumerate(lines) if '"Reset"' in l]
    if len(lines) < int(os.environ.get("VERIF_FL_SPLIT", "400000")) or len(resets) < 16:
        rv = vlib.tlc("FaceLifeTrace.tla", trace_cfg, workers=1, env={"TRACE": trace}, timeout=timeout, coverage=False, heap="16g")
        return rv.violation, min(max(rv.states - 1, 0), len(lines) - 1), rv.states - 1, rv
    import concurrent.futures
    nparts = 8
    cuts = [resets[(len(resets) * k) // nparts] for k in range(nparts)] + [len(lines)]
    cuts[0] = 0
    parts = []
    for k in range(nparts):
        a, b = cuts[k], cuts[k + 1]
        if a >= b:
            continue
        pth = "%s.part%d" % (trace, k)
        open(pth, "w").write("\n".join(lines[a:b]) + "\n")
        parts.append((a, b, pth))
    def one(part):
        a, b, pth = part
        return part, vlib.tlc("FaceLifeTrace.tla", trace_cfg, workers=1, env={"TRACE": pth}, timeout=timeout, coverage=False, heap="7g")
    with concurrent.futures.ThreadPoolExecutor(max_workers=nparts) as ex:
        res = list(ex.map(one, parts))
    accepted, first = 0, None
    for (a, b, pth), rv in res:
        accepted += max(rv.states - 1, 0)
        if rv.violation and first is None:
            first = (rv.violation, a + min(max(rv.states - 1, 0), b - a - 1), rv)
        try:
            os.remove(pth)
        except OSError:
            pass
    if first:
        return first[0], first[1], accepted, first[2]
    rv = res[0][1]
    rv.states = accepted + 1
    return None, len(lines) - 1, accepted, rv


def run_histories(ck, tmp, tag, cfgname, trace_cfg, exe):
    """TLC generates histories with cfgname; harness executes; TLC validates with trace_cfg. Returns (ok, info)."""
    hist = os.path.join(tmp, tag + ".hist.ndjson")
    try:
        r = vlib.tlc("FaceLife.tla", cfgname, out_file=hist, timeout=6000, coverage=False, heap="16g")
    finally:
        try:
            os.remove(os.path.join(vlib.SPEC, cfgname))
        except OSError:
            pass
    if r.violation:
        ck.violation("TLC: %s violated in FaceLife (%s)" % (r.violation, tag), {"why": "FaceLife model", "trace": vlib.tlc_error_trace(r.out)})
        return False, None
    ck.add_tlc("FaceLife/" + tag, r)
    if not r.emitted:
        raise vlib.Broken("FaceLife emitted no histories for " + tag)
    if len(ck.samples) < 4:
        s = r.emitted[len(r.emitted) // 2]
        ck.sample({"module": "FaceLife", "kind": s["kind"], "opts": s["opts"], "src": s["src"], "history": ["%s(%s)" % (o["op"], o["arg"]) for o in s["hist"]]})
    trace = os.path.join(tmp, tag + ".trace.ndjson")
    h = vlib.run_harness(exe, ["facelife", hist, trace, os.path.join(vlib.REPO, "tests/fonts"), os.path.join(vlib.VERIF, "data")], timeout=6000)
    for p in ("C03", "C04", "C05", ck.pid):
        vlib.absorb(ck, h, pid=p)
    if h.fault or not h.summary:
        return False, None
    ck.traces += h.summary["extra"]["histories"]
    ck.extra.setdefault("impl", {})[tag] = h.summary["extra"]
    viol, k, accepted, rv = validate_trace(trace, trace_cfg)
    if viol:
        rv.violation = viol
        lines = open(trace).read().splitlines()
        start = k
        while start > 0 and '"Reset"' not in lines[start]:
            start -= 1
        ev = lines[k]
        ck.violation("%s: recorded execution rejected by FaceLifeTrace at event %d: %s" % (tag, k, ev[:170]),
                     {"why": "trace rejected (%s)" % rv.violation, "rejected_event": ev, "history_events": lines[start:k + 1][-40:], "trace_cfg": trace_cfg})
        return False, {"rejected": ev, "trace": trace}
    ck.add_tlc("FaceLifeTrace/%s (%d events)" % (tag, rv.states - 1), rv)
    return True, {"trace": trace, "events": rv.states - 1}
