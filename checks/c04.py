"""C04 - structural invariants of returned segments (see checks/engine_common.py and harness/common.cpp: project)."""
from checks import engine_common


def run(ck, tier, seed):
    engine_common.run_engine(ck, tier, seed, pids=("C04",))
    ck.assumptions += ["the invariant is evaluated through the public API on every segment of wild programs, GDL-lite programs (all 8 direction values) and the corpus"]
