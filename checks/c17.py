"""C17 - Collision fixing respects limits and its 'resolved' verdict is true.  DESIGN.md 4.15 / 5 (C17) / 11.6.

   interval set clause : Zones.tla behaviours (exhaustive small grid, degenerate ranges, simulation on a 30-cell grid
                         that reaches >= 8 intervals) replayed on the real Zones object under ASan/UBSan
   collider clauses    : arrangements from CollideGen.tla compiled to collision fonts, and the Awami fonts on their
                         test texts, shaped by the real pipeline; every fixing step recorded by the GRAPHITE2_VERIF hooks
                         is validated by TLC against the step conditions of Collide.tla (CollideTrace.tla)
   geometry            : OctaboxMC.tla has TLC confirm the overlap oracle against point enumeration"""
import json, os, random, subprocess, threading
import vlib
from fontgen import collfont


def _neg(module, cfg, inv, **kw):
    r = vlib.tlc(module, cfg, timeout=900, coverage=False, **kw)
    if r.violation != inv:
        raise vlib.Broken("negative control %s/%s not refuted (got %r)" % (module, cfg, r.violation))


def _zones(ck, tier, seed, tmp, exe):
    q = tier == "quick"
    runs = [("Zones_quick.cfg" if q else "Zones_thorough.cfg", {}), ("Zones_deg.cfg", {}),
            ("Zones_sim.cfg", dict(simulate=2500 if q else 60000, depth=20, seed=seed, workers=8))]
    files = []
    for cfg, kw in runs:
        out = os.path.join(tmp, cfg + ".ndjson")
        r = vlib.tlc("ZonesMC.tla", cfg, out_file=out, timeout=20000, coverage=False, parse=False, heap="24g", **kw)
        if r.violation:
            ck.violation("TLC: %s violated in Zones (%s)" % (r.violation, cfg), {"why": "Zones model", "trace": vlib.tlc_error_trace(r.out)})
            return False
        ck.add_tlc("Zones/" + cfg + ("(simulate num=%d x 8, depth 20)" % kw["simulate"] if kw else ""), r)
        files.append(out)
    # replay, the exhaustive file split over processes
    parts = []
    nsplit = 8
    outs = [open(os.path.join(tmp, "zpart%d.ndjson" % i), "w") for i in range(nsplit)]
    k = 0
    for f in files:
        for line in open(f):
            outs[k % nsplit].write(line)
            k += 1
            if k in (5, 70000, 900000):
                d = json.loads(line)
                ck.sample({"module": "Zones", "ops": d["hist"], "intervals": d["excl"]})
    for o in outs:
        o.close()
    res = [None] * nsplit

    def work(i):
        res[i] = vlib.run_harness(exe, ["zones", os.path.join(tmp, "zpart%d.ndjson" % i)], timeout=20000)
    th = [threading.Thread(target=work, args=(i,)) for i in range(nsplit)]
    [t.start() for t in th]
    [t.join() for t in th]
    tot = {"cases": 0, "ops": 0, "model_drift": 0}
    for h in res:
        vlib.absorb(ck, h)
        if h.summary:
            tot["cases"] += h.summary["cases"]
            tot["ops"] += h.summary["extra"]["ops"]
            tot["model_drift"] += h.summary["drift"]
    ck.traces += tot["cases"]
    ck.extra.setdefault("impl", {})["zones_replay"] = tot
    return True


def _arrangements(ck, tier, seed, tmp):
    q = tier == "quick"
    out = os.path.join(tmp, "arr.ndjson")
    num = 400 if q else 12000
    r = vlib.tlc("CollideGenMC.tla", "CollideGen_sim.cfg", simulate=num, depth=45, seed=seed, workers=8, out_file=out, timeout=6000, coverage=False, parse=False)
    if r.violation:
        raise vlib.Broken("CollideGen: " + str(r.violation))
    ck.add_tlc("CollideGen(simulate num=%d x 8, depth 45)" % num, r)
    cases = []
    seen = set()
    for k, line in enumerate(open(out)):
        if line in seen:
            continue
        seen.add(line)
        a = json.loads(line)
        try:
            font = collfont.build(a)
        except Exception as e:                      # an arrangement the synthesiser cannot express is a harness limit
            raise vlib.Broken("collfont: %s on %s" % (e, line[:300]))
        cps = [97 + t for t in a["text"]]
        for d in (a["rtl"], 1 - a["rtl"]):
            cases.append({"id": "arr%d.%d" % (k, d), "font_hex": font.hex(), "cps": cps, "rtl": d, "opts": (k % 2) * 2, "arr": a})
        if k in (3, 77):
            ck.sample({"module": "CollideGen", "arrangement": a})
    return cases


def _awami(tier):
    q = tier == "quick"
    texts = []
    for p in (os.path.join(vlib.REPO, "tests/texts/awami_tests.txt"), os.path.join(vlib.VERIF, "data/texts_awami.txt")):
        if os.path.exists(p):
            texts += [l.rstrip("\n") for l in open(p, encoding="utf-8") if l.strip()]
    cases = []
    fonts = ["Awami_test.ttf", "AwamiNastaliq-Regular.ttf"]
    for fn in fonts:
        fp = os.path.join(vlib.REPO, "tests/fonts", fn)
        if not os.path.exists(fp):
            continue
        for i, t in enumerate(texts):
            if q and fn != "Awami_test.ttf" and i % 4:
                continue
            cases.append({"id": "%s:line%d" % (fn, i), "font": fp, "cps": [ord(c) for c in t], "rtl": 1, "opts": 0})
            if not q:
                cases.append({"id": "%s:line%d:ltr" % (fn, i), "font": fp, "cps": [ord(c) for c in t], "rtl": 0, "opts": 0})
    return cases


def _validate(ck, tmp, exe, name, cases, rng, demo):
    cf = os.path.join(tmp, name + ".cases.ndjson")
    with open(cf, "w") as fo:
        for c in cases:
            fo.write(json.dumps({k: v for k, v in c.items() if k != "arr"}) + "\n")
    trace = os.path.join(tmp, name + ".trace.ndjson")
    h = vlib.run_harness(exe, ["collide", cf, trace], timeout=20000)
    vlib.absorb(ck, h)
    if h.summary:
        ck.traces += h.summary["extra"]["segments"]
        ck.extra.setdefault("impl", {})["collide/" + name] = dict(h.summary["extra"], model_drift=h.summary["drift"])
    if h.fault or not h.summary:
        return
    lines = open(trace).read().splitlines()
    cfgname = "CollideTrace.cfg"
    while True:
        rv = vlib.tlc("CollideTrace.tla", cfgname, workers=1, env={"TRACE": trace}, timeout=20000, coverage=False, heap="24g")
        if not rv.violation:
            break
        k = min(max(rv.states - 1, 0), len(lines) - 1)
        ev = json.loads(lines[k])
        case = cases[ev["c"] - 1] if 0 < ev.get("c", 0) <= len(cases) else {}
        what = {"Fix": "a fixing step breaks its post-condition (limit rectangle kept / resolved means no overlap)",
                "Kern": "a kerning shift leaves the limit rectangle", "Fold": "the shift is not folded into the accumulated offset"}.get(ev.get("e"), "step rejected")
        obj = {"why": "trace rejected by CollideTrace (" + str(rv.violation) + ")", "event": ev, "case": {k2: v for k2, v in case.items() if k2 != "font_hex"},
               "font_hex": case.get("font_hex", "")[:200000]}
        if cfgname == "CollideTrace.cfg" and ev.get("e") == "Fix" and not ev["rtl"] and ev["o0"][0] != 0:
            obj["identity"] = {"step": "Fix", "dir": "ltr", "x_offset": "non-zero"}
        if ck.violation("%s: %s: %s" % (case.get("id", "?"), what, lines[k][:260]), obj) is False and cfgname == "CollideTrace.cfg":
            cfgname = "CollideTrace_known.cfg"      # known finding: validate everything outside that class
            continue
        return
    ck.add_tlc("CollideTrace/%s(%d events)" % (name, len(lines)), rv)
    m = [l for l in rv.out.splitlines() if l.startswith('<<"counters"')]
    if m:
        v = [int(x) for x in m[-1].strip("<>").split(",")[1:]]
        ck.extra.setdefault("impl", {})["collide/" + name].update({"tlc_fix_events": v[0], "tlc_resolved_steps_obliged": v[1], "tlc_neighbour_pairs_in_reach": v[2],
                                                     "tlc_overlap_ranges_compared_with_Merge": v[3], "tlc_neighbours_with_range_drift": v[4]})
    if not demo:
        return
    # binding demonstrations: (a) push a stored shift across its limit, (b) call a step that still collides "resolved"
    fixes = [i for i, l in enumerate(lines) if l.startswith('{"e":"Fix"')]
    done = []
    for kind in ("limit", "resolved"):
        rng.shuffle(fixes)
        for i in fixes:
            o = json.loads(lines[i])
            lim = o["lim"]
            if not (o["called"] and o["stored"] and (o["rtl"] or lim[0] == -lim[2]) and lim[0] < lim[2] and lim[1] < lim[3]):
                continue
            if kind == "limit":
                o["s1"] = [lim[2] - o["o0"][0] + 160, o["s1"][1]]
            else:
                tb = o["tb"]
                if o["col"] or min(tb[1] - tb[0], tb[3] - tb[2], tb[5] - tb[4], tb[7] - tb[6]) < 2000:
                    continue
                # a neighbour that is the glyph's own octabox at the resolved position: certainly overlapped
                x, y = o["s1"]
                o["nb"] = [{"g": o["g"], "bb": [tb[0] + x, tb[1] + x, tb[2] + y, tb[3] + y, tb[4] + x + y, tb[5] + x + y, tb[6] + x - y, tb[7] + x - y], "sub": []}]
                o["lim"] = [-60000, -60000, 60000, 60000]
            bad = os.path.join(tmp, name + ".corrupt_%s.ndjson" % kind)
            with open(bad, "w") as fo:
                fo.write("\n".join(lines[:i] + [json.dumps(o, separators=(",", ":"))] + lines[i + 1:i + 2]) + "\n")
            rb = vlib.tlc("CollideTrace.tla", "CollideTrace.cfg", workers=1, env={"TRACE": bad}, timeout=6000, coverage=False, heap="8g")
            if not rb.violation:
                raise vlib.Broken("binding lost: a recorded fixing step corrupted in its %s clause was accepted" % kind)
            done.append("Fix event %d with %s is rejected" % (i, "its shift pushed past the limit rectangle" if kind == "limit" else "a neighbour placed on top of the resolved position"))
            break
    ck.extra["binding_demo"] = done


def run(ck, tier, seed):
    tmp = vlib.tmpdir("C17")
    rng = random.Random(seed)
    q = tier == "quick"
    exe = vlib.build_harness("san")
    ck.extra["impl"] = {}
    # geometry oracle and the abstract step machine
    r = vlib.tlc("OctaboxMC.tla", "OctaboxMC.cfg" if q else "OctaboxMC_big.cfg", timeout=6000, coverage=False, heap="24g")
    if r.violation:
        raise vlib.Broken("the overlap oracle is not exact: " + str(r.violation))
    ck.add_tlc("OctaboxMC(Tighten is exact on every octabox of the grid)", r)
    _neg("OctaboxMC.tla", "OctaboxMC_neg.cfg", "NominalIsTight")
    r = vlib.tlc("CollideMC.tla", "Collide_quick.cfg" if q else "Collide_thorough.cfg", timeout=20000, coverage=False, heap="24g")
    if r.violation:
        ck.violation("TLC: %s violated in Collide (design level)" % r.violation, {"why": "Collide model", "trace": vlib.tlc_error_trace(r.out)})
        return
    ck.add_tlc("Collide(step machine: AccumInLimit)", r)
    _neg("CollideMC.tla", "Collide_neg.cfg", "AccumInLimit")
    # the twelve overlap-range formulas of mergeSlot against the geometry (the recorded ranges of the real collider
    # are compared with the same formulas during trace validation)
    r = vlib.tlc("MergeMC.tla", "Merge_quick.cfg" if q else "Merge_thorough.cfg", timeout=6000, coverage=False, heap="16g")
    if r.violation:
        ck.violation("TLC: %s violated in Merge (overlap ranges of mergeSlot vs geometry)" % r.violation, {"why": "Merge model", "trace": vlib.tlc_error_trace(r.out)})
        return
    ck.add_tlc("Merge(overlap-range formulas sound and tight on the grid)", r)
    _neg("MergeMC.tla", "Merge_neg.cfg", "SoundM")
    if not _zones(ck, tier, seed, tmp, exe):
        return
    _validate(ck, tmp, exe, "arrangements", _arrangements(ck, tier, seed, tmp), rng, True)
    _validate(ck, tmp, exe, "awami", _awami(tier), rng, False)
    ck.assumptions += [
        "'within reach of its limit rectangle' is read as: the neighbour's bounding box lies in the column or in the row of the limit rectangle placed at the glyph's anchor (no margin added); overlaps with neighbours outside that reach are counted under informational_overlaps_with_neighbours_out_of_reach and are not violations",
        "left-to-right steps with x-asymmetric limits are outside the property's quantifier (DESIGN.md section 7, F3) and carry no obligation",
        "overlap means a common region wider than 1.5 font units in every direction; coordinates are validated at 1/16 unit resolution",
        "only neighbours that Pass::resolveCollisions hands to the collider are obliged (the property's 'non-ignored neighbour'); exclusion glyphs and sequence constraints are not judged",
        "a coordinate of the accumulated offset that a step leaves unchanged is not judged against the limit (a rule or an earlier kern may have put it outside)"]
