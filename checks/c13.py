"""C13 - Characters map to the glyphs the cmap assigns, by either lookup path.  DESIGN.md 4.5 / 5 (C13)."""
import glob, json, os
import vlib
from fontgen import cmap as cm
from fontgen import sfnt


def run(ck, tier, seed):
    tmp = vlib.tmpdir("C13")
    raw = os.path.join(tmp, "cfg.ndjson")
    r = vlib.tlc("Cmap.tla", "Cmap_gen.cfg", out_file=raw, timeout=3000, coverage=False, heap="16g")
    if r.violation:
        ck.violation("TLC: %s violated in Cmap (design level)" % r.violation, {"why": "Cmap model", "trace": vlib.tlc_error_trace(r.out)})
        return
    ck.add_tlc("Cmap(all subsets of boundary segments/groups)", r)
    rn = vlib.tlc("Cmap.tla", "Cmap_quick.cfg", timeout=900, coverage=False)
    if rn.violation != "CachedOk":
        raise vlib.Broken("negative control (pre-repair cache fill) not refuted: %r" % rn.violation)
    # spec -> code: synthesise the cmap bytes of every configuration
    cases = os.path.join(tmp, "cases.ndjson")
    step = 5 if tier == "quick" else 1
    # (BMP record, supplementary record, records of lower preference holding other content: the order of preference is
    # (3,1) (0,3) (0,2) (0,1) (0,0) and (3,10) (0,4), whatever the order of the records in the table)
    variants = [((3, 1), (3, 10), ()), ((0, 3), (0, 4), ()), ((0, 0), (3, 10), ()),
                ((0, 3), (0, 4), ((0, 0, 4),)), ((0, 3), (3, 10), ((0, 1, 6), (0, 2, 4))),
                ((3, 1), (3, 10), ((0, 3, 4), (0, 4, 12))), ((0, 2), (3, 10), ((0, 0, 4), (0, 1, 4), (0, 4, 12)))]
    n = 0
    with open(cases, "w") as fo:
        for k, c in enumerate(r.emitted):
            if (k + seed) % step:
                continue
            bmp, smp, decoys = variants[k % len(variants)]
            c["id"] = "cfg%d" % k
            c["cmap_hex"] = cm.from_case(c, bmp, smp, decoys).hex()
            fo.write(json.dumps(c) + "\n")
            n += 1
            if n in (7, 500, 1200):
                ck.sample({"module": "Cmap", "segs": c["segs"], "groups": c["groups"], "records": [bmp, smp], "losing_records": list(decoys)})
    # one configuration outside the small model: a format 12 subtable of more than 64 KiB (6000 groups), so that every
    # 16-bit quantity a reader might keep about it overflows
    big = {"segs": [{"s": 0x41, "e": 0x5A, "delta": (3 - 0x41) & 0xFFFF, "off": 0}, {"s": 0xFFFF, "e": 0xFFFF, "delta": 1, "off": 0}], "gia": [], "has12": True,
           "groups": [{"s": 0x10000 + 3 * i, "e": 0x10000 + 3 * i + (i % 2), "g": 1 + (i % 700)} for i in range(6000)], "id": "big12"}
    big["cmap_hex"] = cm.from_case(big).hex()
    big["ref"] = sfnt.read_cmap(bytes.fromhex(big["cmap_hex"]))["ref"]
    with open(cases, "a") as fo:
        fo.write(json.dumps(big) + "\n")
    n += 1
    host = os.path.join(vlib.REPO, "tests/fonts/Padauk.ttf")
    # a host font whose single rule changes nothing: the glyphs of a shaped text are those the cmap gave its characters
    from fontgen import gfont, gdl
    keep = dict(op="keep", cls=0, ref=0, adv=-1, user=-1, user2=-1, shift=-1, att=-1, attref=-1, sf=0, sv=0)
    prog = [{"kind": "sub", "rules": [{"pre": 0, "ctx": [1], "items": [keep], "con": {"kind": "none", "item": 0, "val": 0, "f": 0}, "ret": 0}]}]
    texthost = os.path.join(tmp, "texthost.ttf")
    open(texthost, "wb").write(gfont.build_font(gdl.font_model(prog, [[1]], [0, 500, 500, 500], [0, 0, 0, 0], 0)))
    exe = vlib.build_harness("san")
    h = vlib.run_harness(exe, ["cmap", cases, host, 4099 if tier == "quick" else 257, texthost], timeout=6000)
    vlib.absorb(ck, h)
    ck.extra["impl"] = {}
    if h.summary:
        ck.traces += h.summary["extra"]["faces"]
        ck.extra.setdefault("impl", {})["synthesised"] = dict(h.summary["extra"], configurations=n)
    # code -> spec on shipped fonts: the independent reader's reference, every code point, both paths
    fonts = os.path.join(tmp, "fonts.ndjson")
    with open(fonts, "w") as fo:
        for f in sorted(glob.glob(os.path.join(vlib.REPO, "tests/fonts/*.ttf"))):
            S = sfnt.Sfnt(f)
            t = S.table("cmap")
            if not t:
                continue
            ref = sfnt.read_cmap(t)["ref"]
            pseudos = []
            st = S.table("Silf")
            if st:
                try:
                    from fontgen import silf as silfreader
                    pseudos = [list(x) for x in silfreader.read_silf(st)["subtables"][0].get("pseudos", [])]
                except Exception:
                    pseudos = None
            rec = {"id": os.path.basename(f), "font": f, "ref": ref}
            if pseudos is not None:
                rec["pseudos"] = pseudos
            fo.write(json.dumps(rec) + "\n")
    exef = vlib.build_harness("fast")
    h2 = vlib.run_harness(exef, ["cmap", fonts, host, 1], timeout=6000)
    vlib.absorb(ck, h2)
    if h2.summary:
        ck.traces += h2.summary["extra"]["faces"]
        ck.extra.setdefault("impl", {})["shipped_all_codepoints"] = h2.summary["extra"]
        ck.exhaustive = True
        ck.extra["exhaustive_note"] = "every one of the 0x110000 code points queried on direct and cached faces of every shipped font"
    ck.assumptions += ["OpenType cmap rule as written in spec/Cmap.tla (Ref) and, for shipped fonts, in fontgen/sfnt.py (independent reader)",
                       "pseudo-glyph fallback on shipped fonts: findPseudo and is_char_supported against the pseudo map read by the independent Silf reader"]
