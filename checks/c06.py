"""C06 - Passes apply rules with the documented matching and precedence semantics.  DESIGN.md 4.11 / 5 (C06)."""
import json, os, random
import vlib
from fontgen import gdl, gfont

CLS = [[1, 2], [2, 3], [4, 5], [6]]
ADV = [0, 500, 600, 450, 700, 300, 0]
GATTR = [0, 0, 1, -1, 0, 1, 0]        # signed: glyph c carries -1 (GAttrF in spec/GdlRefMC.tla)


def gen_cases(ck, tier, seed, tmp, want_fired=True):
    """TLC explores GdlRef; returns the list of (program, text, expected output) behaviours."""
    q = tier == "quick"
    allc = []
    for cfg in ("GdlRef_sim.cfg", "GdlRef_simrtl.cfg"):
        out = os.path.join(tmp, cfg + ".ndjson")
        r = vlib.tlc("GdlRefMC.tla", cfg, out_file=out, simulate=1500 if q else 20000, depth=60, seed=seed, workers=8, timeout=6000, coverage=False, heap="24g")
        if r.violation:
            ck.violation("TLC: %s violated in GdlRef (%s)" % (r.violation, cfg), {"why": "GdlRef model", "trace": vlib.tlc_error_trace(r.out)})
            return None
        ck.add_tlc("GdlRef/%s (simulation)" % cfg, r)
        allc += r.emitted
    from checks import utfcommon
    seeded = []
    for rtl in (0, 1):
        cfg = utfcommon.cfg_with("GdlRef_seed%d.cfg" % rtl, tmp, MaxText=4 if q else 5)
        out = os.path.join(tmp, "seed%d.ndjson" % rtl)
        try:
            r = vlib.tlc("GdlRefMC.tla", cfg, out_file=out, timeout=6000, coverage=False, heap="24g")
        finally:
            utfcommon.rm_cfg(cfg)
        if r.violation:
            ck.violation("TLC: %s violated in GdlRef (seeded programs)" % r.violation, {"why": "GdlRef model", "trace": vlib.tlc_error_trace(r.out)})
            return None
        ck.add_tlc("GdlRef/seeded structured programs, all texts (rtl=%d)" % rtl, r)
        part = [c for c in r.emitted if c["fired"] > 0]
        random.Random(seed + rtl).shuffle(part)
        seeded += part[:(6000 if q else 200000)]          # every seed source keeps its own share of the replay budget
    # feature-selected rules and SET_FEAT, every initial feature vector
    out = os.path.join(tmp, "seedf.ndjson")
    cfg = utfcommon.cfg_with("GdlRef_seedf.cfg", tmp, MaxText=3 if q else 4)
    try:
        r = vlib.tlc("GdlRefMC.tla", cfg, out_file=out, timeout=6000, coverage=False, heap="24g")
    finally:
        utfcommon.rm_cfg(cfg)
    if r.violation:
        ck.violation("TLC: %s violated in GdlRef (feature programs)" % r.violation, {"why": "GdlRef model", "trace": vlib.tlc_error_trace(r.out)})
        return None
    ck.add_tlc("GdlRef/feature-selected rules, all texts and feature vectors", r)
    part = [c for c in r.emitted if c["fired"] > 0]
    random.Random(seed + 7).shuffle(part)
    seeded += part[:(3000 if q else 100000)]
    # cursor-returning rules all along long texts (the loop counter of a pass must count consecutive steps only)
    out = os.path.join(tmp, "seedloop.ndjson")
    r = vlib.tlc("GdlRefMC.tla", "GdlRef_seedloop.cfg", out_file=out, timeout=6000, coverage=False, heap="24g")
    if r.violation:
        ck.violation("TLC: %s violated in GdlRef (long texts)" % r.violation, {"why": "GdlRef model", "trace": vlib.tlc_error_trace(r.out)})
        return None
    ck.add_tlc("GdlRef/cursor-returning rules on texts of 9..11 glyphs", r)
    loopc = [c for c in r.emitted if c["fired"] > 0]
    rng0 = random.Random(seed)
    rng0.shuffle(loopc)
    loop_front = loopc[:(1500 if q else 100000)]
    if not q:
        out = os.path.join(tmp, "bfs.ndjson")
        r = vlib.tlc("GdlRefMC.tla", "GdlRef_bfs.cfg", out_file=out, timeout=6000, coverage=False, heap="24g")
        if r.violation:
            ck.violation("TLC: %s violated in GdlRef (BFS)" % r.violation, {"why": "GdlRef model", "trace": vlib.tlc_error_trace(r.out)})
            return None
        ck.add_tlc("GdlRef/GdlRef_bfs.cfg (exhaustive small family)", r)
        allc += r.emitted
    rng = random.Random(seed)
    rng.shuffle(allc)
    fired = [c for c in allc if c["fired"] > 0]
    idle = [c for c in allc if c["fired"] == 0]
    n = 5000 if q else 120000
    rng.shuffle(seeded)
    return fired[:n] + idle[:n // 10] + loop_front + seeded


def write_cases(cases, path, rng=None, variants=False):
    with open(path, "w") as fo:
        for k, c in enumerate(cases):
            nlin = None
            ver = 0x00030000
            if variants and rng:
                nlin = rng.choice([None, 2, 0])                      # some classes stored as lookup classes
                ver = rng.choice([0x00020000, 0x00030000, 0x00040000])
            classes = CLS
            # every other font carries the pass-skip bits a compiler would compute: the engine then leaves passes out
            # every third font with features has 18 wide features in front of its own (its own then sit in the tenth
            # 32-bit chunk of a feature-value vector); the harness then also builds the values sparsely
            pad = 18 if (c.get("feats") and k % 3 == 0) else 0
            m = gdl.font_model(c["prog"], classes, ADV, GATTR, c["rtl"], nlinear=nlin, nfeat=len(c.get("feats", [])), passbits=(k % 2 == 1), featpad=pad)
            if k % 4 >= 2:          # half of the fonts list every success state's rules in descending order
                for ps in m["passes"]:
                    ps["rm_rev"] = 1
            d = dict(c)
            d["featpad"] = pad
            d["id"] = "c%d" % k
            d["font_hex"] = gfont.build_font(m, silf_version=ver).hex()
            fo.write(json.dumps(d, separators=(",", ":")) + "\n")


def validate_rule_steps(ck, cases, rtrace, tmp, rng):
    """code -> spec: every recorded call of Pass::findNDoRule (rule that fired, cursor position) and every finished pass
    of every case is validated by TLC against StepRun / NextPass of GdlRef (spec/GdlRefTrace.tla)."""
    files = {0: open(os.path.join(tmp, "rt0.ndjson"), "w"), 1: open(os.path.join(tmp, "rt1.ndjson"), "w")}
    nev = {0: 0, 1: 0}
    cur = None
    index = {0: [], 1: []}          # line number -> case number, for diagnostics
    for line in open(rtrace):
        if line.startswith('{"e":"Case"'):
            k = json.loads(line)["c"] - 1
            c = cases[k]
            cur = c["rtl"]
            line = json.dumps({"e": "Case", "prog": c["prog"], "text": c["text"], "feats": c.get("feats", [])}, separators=(",", ":")) + "\n"
            index[cur].append((nev[cur], k))
        if cur is None:
            continue
        files[cur].write(line)
        nev[cur] += 1
    for f in files.values():
        f.close()
    total = 0
    for rtl in (0, 1):
        if nev[rtl] == 0:
            continue
        path = os.path.join(tmp, "rt%d.ndjson" % rtl)
        rv = vlib.tlc("GdlRefTraceMC.tla", "GdlRefTrace_rtl%d.cfg" % rtl, workers=1, env={"TRACE": path}, timeout=6000, coverage=False, heap="24g")
        if rv.violation:
            at = max(rv.states - 1, 0)
            k = max([kk for (ln, kk) in index[rtl] if ln <= at] or [0])
            lines = open(path).read().splitlines()
            c = cases[k]
            ck.violation("rule loop step not allowed by the reference semantics: case c%d (rtl=%d) event %s" % (k, rtl, lines[min(at, len(lines) - 1)][:120]),
                         {"why": "trace rejected by GdlRefTrace (" + str(rv.violation) + ")", "prog": c["prog"], "text": c["text"], "feats": c.get("feats", []), "rtl": rtl,
                          "events": lines[max(0, at - 12):at + 1]})
            return
        ck.add_tlc("GdlRefTrace/rtl=%d (%d rule-loop events)" % (rtl, nev[rtl]), rv)
        total += nev[rtl]
    ck.extra.setdefault("impl", {})["rule_loop_events_validated"] = total
    # binding: a Step event that names another rule must be rejected
    path = os.path.join(tmp, "rt0.ndjson")
    lines = open(path).read().splitlines()
    cand = [i for i, l in enumerate(lines) if l.startswith('{"e":"Step"') and '"rule":0' not in l]
    if cand:
        i = rng.choice(cand)
        o = json.loads(lines[i])
        o["rule"] = o["rule"] + 1
        start = max(j for j in range(i + 1) if lines[j].startswith('{"e":"Case"'))
        bad = os.path.join(tmp, "rt_corrupt.ndjson")
        open(bad, "w").write("\n".join(lines[start:i] + [json.dumps(o, separators=(",", ":"))]) + "\n")
        rb = vlib.tlc("GdlRefTraceMC.tla", "GdlRefTrace_rtl0.cfg", workers=1, env={"TRACE": bad}, timeout=3000, coverage=False)
        if not rb.violation:
            raise vlib.Broken("binding lost: a recorded rule-loop step naming another rule was accepted")
        ck.extra["binding_demo"] = "a Step event renamed to the next rule is rejected by GdlRefTrace"
    # binding of the pass-skip clause: a pass whose events are cut out although one of its rules fired (= the engine left
    # a pass out that had work to do) must be rejected; and the run must have contained passes the engine really left out
    skipped = 0
    blocks = []          # (case start, PassBegin line, PassEnd line, fired)
    cstart, pb, fired, lastp = 0, None, False, 0
    for i, l in enumerate(lines):
        if l.startswith('{"e":"Case"'):
            cstart, lastp = i, 0
        elif l.startswith('{"e":"PassBegin"'):
            pnum = json.loads(l)["p"]
            skipped += max(0, pnum - lastp - 1)
            lastp = pnum
            pb, fired = i, False
        elif l.startswith('{"e":"Step"') and '"rule":0' not in l:
            fired = True
        elif l.startswith('{"e":"PassEnd"') and pb is not None:
            blocks.append((cstart, pb, i, fired))
            pb = None
    ck.extra.setdefault("impl", {})["passes_left_out_by_the_engine"] = skipped
    if not skipped:
        raise vlib.Broken("vacuous: no generated font made the engine leave a pass out (pass-skip bits)")
    cand = [b for b in blocks if b[3]]
    if cand:
        cs, b0, b1, _ = rng.choice(cand)
        end = next(j for j in range(b1, len(lines)) if lines[j].startswith('{"e":"CaseEnd"'))
        bad = os.path.join(tmp, "rt_skip.ndjson")
        open(bad, "w").write("\n".join(lines[cs:b0] + lines[b1 + 1:end + 1]) + "\n")
        rb = vlib.tlc("GdlRefTraceMC.tla", "GdlRefTrace_rtl0.cfg", workers=1, env={"TRACE": bad}, timeout=3000, coverage=False)
        if not rb.violation:
            raise vlib.Broken("binding lost: a trace in which a pass that fired a rule is left out was accepted")
        ck.extra["binding_demo_skip"] = "a trace with the events of a pass that fired a rule cut out is rejected by GdlRefTrace (Invisible)"


def run(ck, tier, seed):
    tmp = vlib.tmpdir("C06")
    cases = gen_cases(ck, tier, seed, tmp)
    if cases is None:
        return
    if not cases:
        raise vlib.Broken("GdlRef produced no behaviours")
    for c in cases[:2]:
        ck.sample({"module": "GdlRef", "prog": c["prog"], "text": c["text"], "rtl": c["rtl"], "out": c["out"]})
    cf = os.path.join(tmp, "cases.ndjson")
    write_cases(cases, cf, random.Random(seed), variants=True)
    exe = vlib.build_harness("san")
    rtrace = os.path.join(tmp, "rules.ndjson")
    h = vlib.run_harness(exe, ["gdl", cf, "trace", rtrace], timeout=6000)
    for p in ("C06", "C02", "C03", "C04", "C05"):
        vlib.absorb(ck, h, pid=p)
    if h.summary:
        ck.traces += h.summary["extra"]["compared"]
        ck.extra["impl"] = {"gdl": h.summary["extra"]}
    if h.summary and not h.fault:
        validate_rule_steps(ck, cases, rtrace, tmp, random.Random(seed))
        # the loop control around the rules (re-scan limits, forced advance) on shipped fonts
        from checks import engine_common
        engine_common.controller_trace(ck, tier, seed, tmp, exe, as_violation=True)
    ck.assumptions += ["GDL-lite family of spec/GdlRef.tla (uniform pre-context 0..1, rules of length <= 3, progress-only cursor returns); "
                       "fontgen/gdl.py + gfont.py compile each program to Silf v2/v3/v4 (linear and lookup classes), Glat, Gloc, cmap",
                       "intra-rule visibility of attribute assignments to later references is left outside the family (not fixed by the documented semantics)"]
