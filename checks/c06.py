"""C06 - Passes apply rules with the documented matching and precedence semantics.  DESIGN.md 4.11 / 5 (C06)."""
import json, os, random
import vlib
from fontgen import gdl, gfont

CLS = [[1, 2], [2, 3], [4, 5], [6]]
ADV = [0, 500, 600, 450, 700, 300, 0]
GATTR = [0, 0, 1, 0, 0, 1, 0]


def gen_cases(ck, tier, seed, tmp, want_fired=True):
    """TLC explores GdlRef; returns the list of (program, text, expected output) behaviours."""
    q = tier == "quick"
    allc = []
    for cfg in ("GdlRef_sim.cfg", "GdlRef_simrtl.cfg"):
        out = os.path.join(tmp, cfg + ".ndjson")
        r = vlib.tlc("GdlRefMC.tla", cfg, out_file=out, simulate=1500 if q else 20000, depth=60, seed=seed, workers=8, timeout=6000, coverage=False, heap="24g")
        if r.violation:
            ck.violation("TLC: %s violated in GdlRef (%s)" % (r.violation, cfg), {"why": "GdlRef model", "trace": vlib.tlc_error_trace(r.out)})
            return None
        ck.add_tlc("GdlRef/%s (simulation)" % cfg, r)
        allc += r.emitted
    from checks import utfcommon
    seeded = []
    for rtl in (0, 1):
        cfg = utfcommon.cfg_with("GdlRef_seed%d.cfg" % rtl, tmp, MaxText=4 if q else 5)
        out = os.path.join(tmp, "seed%d.ndjson" % rtl)
        try:
            r = vlib.tlc("GdlRefMC.tla", cfg, out_file=out, timeout=6000, coverage=False, heap="24g")
        finally:
            utfcommon.rm_cfg(cfg)
        if r.violation:
            ck.violation("TLC: %s violated in GdlRef (seeded programs)" % r.violation, {"why": "GdlRef model", "trace": vlib.tlc_error_trace(r.out)})
            return None
        ck.add_tlc("GdlRef/seeded structured programs, all texts (rtl=%d)" % rtl, r)
        seeded += [c for c in r.emitted if c["fired"] > 0]
    # feature-selected rules and SET_FEAT, every initial feature vector
    out = os.path.join(tmp, "seedf.ndjson")
    cfg = utfcommon.cfg_with("GdlRef_seedf.cfg", tmp, MaxText=3 if q else 4)
    try:
        r = vlib.tlc("GdlRefMC.tla", cfg, out_file=out, timeout=6000, coverage=False, heap="24g")
    finally:
        utfcommon.rm_cfg(cfg)
    if r.violation:
        ck.violation("TLC: %s violated in GdlRef (feature programs)" % r.violation, {"why": "GdlRef model", "trace": vlib.tlc_error_trace(r.out)})
        return None
    ck.add_tlc("GdlRef/feature-selected rules, all texts and feature vectors", r)
    seeded += [c for c in r.emitted if c["fired"] > 0]
    if not q:
        out = os.path.join(tmp, "bfs.ndjson")
        r = vlib.tlc("GdlRefMC.tla", "GdlRef_bfs.cfg", out_file=out, timeout=6000, coverage=False, heap="24g")
        if r.violation:
            ck.violation("TLC: %s violated in GdlRef (BFS)" % r.violation, {"why": "GdlRef model", "trace": vlib.tlc_error_trace(r.out)})
            return None
        ck.add_tlc("GdlRef/GdlRef_bfs.cfg (exhaustive small family)", r)
        allc += r.emitted
    rng = random.Random(seed)
    rng.shuffle(allc)
    fired = [c for c in allc if c["fired"] > 0]
    idle = [c for c in allc if c["fired"] == 0]
    n = 5000 if q else 120000
    rng.shuffle(seeded)
    return fired[:n] + idle[:n // 10] + seeded[:(12000 if q else 400000)]


def write_cases(cases, path, rng=None, variants=False):
    with open(path, "w") as fo:
        for k, c in enumerate(cases):
            nlin = None
            ver = 0x00030000
            if variants and rng:
                nlin = rng.choice([None, 2, 0])                      # some classes stored as lookup classes
                ver = rng.choice([0x00020000, 0x00030000, 0x00040000])
            classes = CLS
            m = gdl.font_model(c["prog"], classes, ADV, GATTR, c["rtl"], nlinear=nlin, nfeat=len(c.get("feats", [])))
            d = dict(c)
            d["id"] = "c%d" % k
            d["font_hex"] = gfont.build_font(m, silf_version=ver).hex()
            fo.write(json.dumps(d, separators=(",", ":")) + "\n")


def run(ck, tier, seed):
    tmp = vlib.tmpdir("C06")
    cases = gen_cases(ck, tier, seed, tmp)
    if cases is None:
        return
    if not cases:
        raise vlib.Broken("GdlRef produced no behaviours")
    for c in cases[:2]:
        ck.sample({"module": "GdlRef", "prog": c["prog"], "text": c["text"], "rtl": c["rtl"], "out": c["out"]})
    cf = os.path.join(tmp, "cases.ndjson")
    write_cases(cases, cf, random.Random(seed), variants=True)
    exe = vlib.build_harness("san")
    h = vlib.run_harness(exe, ["gdl", cf], timeout=6000)
    for p in ("C06", "C02", "C03", "C04", "C05"):
        vlib.absorb(ck, h, pid=p)
    if h.summary:
        ck.traces += h.summary["extra"]["compared"]
        ck.extra["impl"] = {"gdl": h.summary["extra"]}
    ck.assumptions += ["GDL-lite family of spec/GdlRef.tla (uniform pre-context 0..1, rules of length <= 3, progress-only cursor returns); "
                       "fontgen/gdl.py + gfont.py compile each program to Silf v2/v3/v4 (linear and lookup classes), Glat, Gloc, cmap",
                       "intra-rule visibility of attribute assignments to later references is left outside the family (not fixed by the documented semantics)"]
