"""C01 - Font loading is total and memory-safe on arbitrary table bytes.  DESIGN.md 4.4 / 5 (C01), 11.6."""
import glob, json, os, random
import vlib
from fontgen import sfnt, fields, gfont, gdl, lz4
from checks import c06


def rewrite_cases(path, rng, per_field, tag):
    """Grammar-driven boundary rewriting of every known field of one font (single fields, and pairs inside one table)."""
    S = sfnt.Sfnt(path)
    silf = S.table("Silf")
    F = []
    plain = None
    if silf:
        ver, hdr = int.from_bytes(silf[:4], "big"), int.from_bytes(silf[4:8], "big")
        if ver >= 0x00050000 and hdr >> 27 == 1:
            plain = lz4.decompress_table(silf)
        F += fields.silf_fields(plain if plain is not None else silf)
    F += fields.simple_fields(S)
    lens = {t: len(S.table(t)) for t in S.order}
    out = []
    for (t, off, w, name) in F:
        if t == "Silf" and plain is not None:
            continue            # positions refer to the decompressed table: handled by the uncompressed variant below
        b = S.table(t)
        orig = int.from_bytes(b[off:off + w], "big")
        vals = fields.boundary_values(orig, w, [lens[t], lens[t] // 2, lens[t] - off])
        rng.shuffle(vals)
        for val in vals[:per_field]:
            out.append({"id": "%s:%s.%s=%d" % (tag, t, name, val), "font": path, "patches": [[t, off, w, val]],
                        "opts": [rng.choice([0, 1, 4, 5]), rng.choice([2, 3, 6, 7])]})
    # pairs of fields of the same table (guards often relate two fields)
    for _ in range(len(F) // 2):
        a, b2 = rng.choice(F), rng.choice(F)
        if a[0] != b2[0] or a == b2 or (a[0] == "Silf" and plain is not None):
            continue
        pa = []
        for (t, off, w, name) in (a, b2):
            orig = int.from_bytes(S.table(t)[off:off + w], "big")
            vals = fields.boundary_values(orig, w, [lens[t], lens[t] - off])
            pa.append([t, off, w, rng.choice(vals)])
        out.append({"id": "%s:%s.%s+%s" % (tag, a[0], a[3], b2[3]), "font": path, "patches": pa, "opts": [rng.choice(range(8))]})
    # truncations and missing tables
    for t in S.order:
        n = lens[t]
        for cut in sorted({0, 1, 3, 4, 7, 8, 11, 12, 19, 20, n // 2, n - 2, n - 1} & set(range(n))):
            out.append({"id": "%s:%s cut@%d" % (tag, t, cut), "font": path, "truncate": [[t, cut]], "opts": [rng.choice([0, 6])]})
        out.append({"id": "%s:no %s" % (tag, t), "font": path, "drop": [t], "opts": [0, 7]})
    return out


def tail_cases(path, tag):
    """Record arrays that end a few bytes before / at / behind the end of their table: every Sill language's settings
    (8 bytes each) and every Feat feature's settings (4 bytes each) are pointed at each offset from one whole record
    before the position where the array would just fit, to a few bytes behind it."""
    S = sfnt.Sfnt(path)
    out = []
    t = S.table("Sill")
    if t and len(t) >= 12:
        n = int.from_bytes(t[4:6], "big")
        for i in range(min(n, 3)):
            e = 12 + 8 * i
            if e + 8 > len(t):
                break
            k = int.from_bytes(t[e + 4:e + 6], "big")
            for cnt in sorted({k, 1, 3} - {0}):
                fit = len(t) - 8 * cnt
                for off in range(max(0, fit - 2), min(0xFFFF, fit + 2 * cnt + 3)):
                    out.append({"id": "%s:Sill.l%d settings %d at %d (table %d)" % (tag, i, cnt, off, len(t)), "font": path,
                                "patches": [["Sill", e + 4, 2, cnt], ["Sill", e + 6, 2, off]], "opts": [0, 7]})
    t = S.table("Feat")
    if t and len(t) >= 12:
        v2 = int.from_bytes(t[0:2], "big") >= 2
        n = int.from_bytes(t[4:6], "big")
        rec = 16 if v2 else 12
        for i in range(min(n, 2)):
            b = 12 + rec * i
            if b + rec > len(t):
                break
            cnt = max(1, int.from_bytes(t[b + (4 if v2 else 2):b + (6 if v2 else 4)], "big"))
            fit = len(t) - 4 * cnt
            for off in range(max(0, fit - 2), fit + 6):
                out.append({"id": "%s:Feat.f%d settings at %d (table %d)" % (tag, i, off, len(t)), "font": path,
                            "patches": [["Feat", b + (8 if v2 else 4), 4, off]], "opts": [0, 7]})
    return out


def run(ck, tier, seed):
    tmp = vlib.tmpdir("C01")
    q = tier == "quick"
    rng = random.Random(seed)
    # L1: reader models (boundary-relative field assignments, ReadsInBounds / outcome) - see spec/Readers.tla
    from checks import readers_common
    synth_cases = readers_common.model_cases(ck, tier, seed, tmp)
    if synth_cases is None:
        return
    cases = list(synth_cases)
    cm_cases = readers_common.classmap_cases(ck, tier, seed, tmp)
    if cm_cases is None:
        return
    cases += cm_cases
    # L3: field rewriting of shipped fonts
    fonts = sorted(glob.glob(os.path.join(vlib.REPO, "tests/fonts/*.ttf")))
    if q:
        fonts = [f for f in fonts if os.path.basename(f) in ("small.ttf", "Padauk.ttf", "Awami_test.ttf", "charis_r_gr.ttf", "Scheherazadegr.ttf")]
    for f in fonts:
        big = os.path.getsize(f) > 400000
        cases += rewrite_cases(f, rng, (3 if big else 6) if q else (8 if big else 14), os.path.basename(f))
        cases += tail_cases(f, os.path.basename(f))
    # compressed tables themselves: single bytes of the LZ4 payload rewritten (match offsets, lengths, tokens)
    for f in sorted({os.path.join(vlib.REPO, "tests/fonts/Awami_compressed_test.ttf")} | {x for x in fonts if "compressed" in x or "AwamiNastaliq" in x}):
        S = sfnt.Sfnt(f)
        for t in ("Silf", "Glat"):
            b = S.table(t)
            if not b or len(b) < 24:
                continue
            for k in range(40 if q else 400):
                pos = 8 + k if k < 16 else rng.randrange(8, len(b))
                val = rng.choice([0, 1, 15, 16, 240, 255, b[pos] ^ 1, b[pos] ^ 0x80, (b[pos] + 7) & 0xFF])
                if val != b[pos]:
                    cases.append({"id": "%s:%s lz4 byte %d=%d" % (os.path.basename(f), t, pos, val), "font": f, "patches": [[t, pos, 1, val]], "opts": [rng.choice([0, 6])]})
    # ... and well-formed LZ4 streams whose k-th match reaches back beyond the start of the output (by 1, 8, 1000 bytes)
    import struct
    basef = os.path.join(vlib.REPO, "tests/fonts/Awami_compressed_test.ttf")
    S0 = sfnt.Sfnt(basef)
    tabs0 = {t: S0.table(t) for t in S0.order}
    for t in ("Silf", "Glat"):
        plain_t = lz4.decompress_table(tabs0[t])
        if plain_t is None:
            continue
        seqs, tail = lz4.sequences(plain_t)
        done = 0
        for k in range(min(len(seqs), 3)):
            for d in (1, 8, 1000):
                written = sum(len(x[0]) + x[2] for x in seqs[:k]) + len(seqs[k][0])
                if written + d > 65535:
                    continue
                mut = [list(x) for x in seqs]
                mut[k][1] = written + d
                tbl = plain_t[:4] + struct.pack(">I", (1 << 27) | len(plain_t)) + bytes(lz4.serialize(mut, tail))
                path = os.path.join(tmp, "lz4back-%s-%d-%d.ttf" % (t, k, d))
                open(path, "wb").write(sfnt.build_sfnt(dict(tabs0, **{t: tbl})))
                cases.append({"id": "lz4 %s match %d reaches %d bytes before the output" % (t, k, d), "font": path, "patches": [], "opts": [0, 7]})
                done += 1
    # the decompressed form of compressed fonts, so that fields inside compressed tables are reachable
    for f in [x for x in fonts if "compressed" in x or "AwamiNastaliq" in x]:
        S = sfnt.Sfnt(f)
        tabs = {t: S.table(t) for t in S.order}
        for t in ("Silf", "Glat"):
            p = lz4.decompress_table(tabs[t])
            if p:
                tabs[t] = p
        path = os.path.join(tmp, os.path.basename(f) + ".plain.ttf")
        open(path, "wb").write(sfnt.build_sfnt(tabs))
        cases += rewrite_cases(path, rng, 2 if q else 8, os.path.basename(f) + "(plain)")
    # the historical fuzz regressions of the repository
    import re
    for fz in sorted(set(glob.glob(os.path.join(vlib.REPO, "tests/fuzz-tests/**/*.fuzz"), recursive=True))):
        fontname = fz.split("/fuzz-tests/")[1].split("/")[0] + ".ttf"
        base = os.path.join(vlib.REPO, "tests/fonts", fontname)
        if not os.path.exists(base):
            continue
        for ln, l in enumerate(open(fz, errors="replace")):
            m = re.match(r"^(-?\d+)?\s*,\s*(0[xX][0-9a-fA-F]+)\s*,\s*(0[xX][0-9a-fA-F]+|\d+)", l)
            if m:
                cases.append({"id": "fuzz:%s:%d" % (os.path.basename(fz), ln), "font": base, "filepatches": [[int(m.group(2), 16), int(m.group(3), 0) & 0xFF]], "opts": [0, 7]})
    rng.shuffle(cases)
    # a share of the cases also goes through gr_make_file_face (the bytes are written to a file)
    for k, c in enumerate(cases):
        if k % 9 == 0 and "patches" in c and "file" not in c and "font" in c:
            S = sfnt.Sfnt(c["font"])
            tabs = {t: bytearray(S.table(t)) for t in S.order}
            for (t, off, w, val) in c["patches"]:
                tabs[t][off:off + w] = int(val).to_bytes(w, "big")
            fp = os.path.join(tmp, "f%d.ttf" % k)
            open(fp, "wb").write(sfnt.build_sfnt({t: bytes(b) for t, b in tabs.items()}))
            c["file"] = fp
    cf = os.path.join(tmp, "cases.ndjson")
    seen = set()
    with open(cf, "w") as fo:
        for c in cases:
            if c["id"] in seen:
                continue
            seen.add(c["id"])
            fo.write(json.dumps(c, separators=(",", ":")) + "\n")
    ck.sample({"kind": "field rewrite", "case": {k: v for k, v in cases[0].items() if k != "font_hex"}})
    exe = vlib.build_harness("san")
    h = vlib.run_harness(exe, ["loadfont", cf], timeout=9000, env={"GRV_MAXFAIL": "2000"})
    for p in ("C01", "C02", "C03", "C04", "C05"):
        vlib.absorb(ck, h, pid=p) if p == "C01" else None
    if h.summary:
        ck.traces += h.summary["extra"]["loads"]
        ck.extra.setdefault("impl", {})["loadfont"] = dict(h.summary["extra"], cases=len(seen), model_drift=h.summary["drift"])
    # glyph attribute storage: spec/Sparse.tla behaviours written into Glat tables and read back
    readers_common.sparse_cases(ck, tier, seed, tmp, exe)
    ck.assumptions += ["arbitrary unstructured byte strings are not enumerated: inputs are boundary-valued fields (TLC assignments on synthesised fonts, "
                       "independent-reader field maps on shipped fonts), truncations, missing tables, the repository's fuzz regressions",
                       "sensors: ASan/UBSan/LSan, exact-size guarded tables, poisoned released tables, watchdog, allocator byte counter"]
