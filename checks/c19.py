"""C19 - Line breaking and justification never corrupt the glyph stream.  DESIGN.md 4.12 / 5 (C19)."""
import json, os, random
import vlib, corpus

FONTS = [("Padauk.ttf", "my_HeadwordSyllables.txt"), ("charis_r_gr.ttf", "udhr_yor.txt"), ("Scheherazadegr.ttf", "udhr_arb.txt"),
         ("Awami_test.ttf", "awami_tests.txt"), ("AwamiNastaliq-Regular.ttf", "udhr_arb.txt"), ("Annapurnarc2.ttf", "udhr_hin.txt"),
         ("MagyarLinLibertineG.ttf", "udhr_eng.txt"), ("charis_r_gr.ttf", "udhr_eng.txt")]


def run(ck, tier, seed):
    tmp = vlib.tmpdir("C19")
    q = tier == "quick"
    rng = random.Random(seed)
    r0 = vlib.tlc("SegmentApi.tla", "SegmentApi_bfs.cfg", timeout=3000, coverage=False)
    if r0.violation:
        ck.violation("TLC: %s violated in SegmentApi" % r0.violation, {"why": "SegmentApi model", "trace": vlib.tlc_error_trace(r0.out)})
        return
    ck.add_tlc("SegmentApi(BFS N=4)", r0)
    # the design that has to meet that contract: the link surgery of one justify call, pointer by pointer
    rj = vlib.tlc("JustifyLinks.tla", "JustifyLinks.cfg" if q else "JustifyLinks_thorough.cfg", timeout=3000, coverage=False)
    if rj.violation:
        ck.violation("TLC: %s violated in JustifyLinks" % rj.violation, {"why": "JustifyLinks model", "trace": vlib.tlc_error_trace(rj.out)})
        return
    ck.add_tlc("JustifyLinks(N=%d, marker linking as in the code)" % (5 if q else 8), rj)
    for neg, want in (("JustifyLinks_neg.cfg", ("NoDangling", "ChainRestored")), ("JustifyLinks_neg2.cfg", ("MarkersReachable",))):
        rn = vlib.tlc("JustifyLinks.tla", neg, timeout=900, coverage=False)
        if rn.violation not in want:
            raise vlib.Broken("negative control %s (marker linking as before repair f6b8e79a) not refuted: %r" % (neg, rn.violation))
    raw = os.path.join(tmp, "beh_raw.ndjson")
    r = vlib.tlc("SegmentApi.tla", "SegmentApi_sim.cfg", out_file=raw, simulate=100 if q else 1500, depth=7, seed=seed, workers=4, timeout=3000, coverage=False)
    if r.violation:
        ck.violation("TLC: %s violated in SegmentApi (simulation)" % r.violation, {"why": "SegmentApi model", "trace": vlib.tlc_error_trace(r.out)})
        return
    ck.add_tlc("SegmentApi(simulate N=6, breaks<=2, justifies=3)", r)
    beh = r.emitted
    rng.shuffle(beh)
    nb = 600 if q else 40000
    beh = beh[:nb]
    bf = os.path.join(tmp, "beh.ndjson")
    open(bf, "w").write("\n".join(json.dumps(b) for b in beh) + "\n")
    ck.sample({"module": "SegmentApi", "behaviour": beh[0]["hist"]})
    srcs = []
    for font, text in FONTS:
        ls = [l.strip() for l in open(os.path.join(corpus.T, text), encoding="utf-8") if len(l.strip()) >= 6]
        rng.shuffle(ls)
        for t in ls[:(4 if q else 30)]:
            t = t[:rng.choice([8, 20, 60])]
            for d in range(8):
                for ppm in (0, 12, 0.5):
                    if q and ppm == 0.5:
                        continue
                    srcs.append({"font": os.path.join(corpus.F, font), "text": t, "dir": d, "ppm": ppm})
    # a font whose justification level declares steps larger than one unit (staged from charis)
    stepfont = corpus.step_justification_font(tmp)
    if stepfont:
        for t in ("Hello Mum said the quick brown fox", "a b", "Wide  gaps   here"):
            for d in (0, 1, 3):
                for ppm in (0, 12):
                    srcs.append({"font": stepfont, "text": t, "dir": d, "ppm": ppm})
    # fonts that ask for line-end markers around the justified line (Silf flags bit 0; staged from shipped fonts)
    letexts = {"charis": "udhr_eng.txt", "Padauk": "my_HeadwordSyllables.txt", "Scheherazadegr": "udhr_arb.txt", "Charis5": "udhr_eng.txt"}
    for lf in corpus.lineend_fonts(tmp):
        key = [k for k in letexts if k in os.path.basename(lf)][0]
        ls = [l.strip() for l in open(os.path.join(corpus.T, letexts[key]), encoding="utf-8") if len(l.strip()) >= 6]
        rng.shuffle(ls)
        for t in ls[:(2 if q else 12)]:
            for d in (0, 1, 3):
                for ppm in (0, 12):
                    srcs.append({"font": lf, "text": t[:rng.choice([8, 20, 40])], "dir": d, "ppm": ppm})
                # ... and with an application-hinted font (advances asked from the client, also for the marker glyphs)
                srcs.append({"font": lf, "text": t[:rng.choice([8, 20])], "dir": d, "ppm": 13, "hinted": 1})
    # the shortest segments there are
    for font in ("Padauk.ttf", "charis_r_gr.ttf", "Scheherazadegr.ttf"):
        for t in ("a", "\u1000", "\u0628", "ab", "\u1000\u1031"):
            for d in (0, 1, 3):
                for ppm in (0, 12):
                    srcs.append({"font": os.path.join(corpus.F, font), "text": t, "dir": d, "ppm": ppm})
    # a font whose first pass is a positioning pass and whose bidi step comes first (no justification passes to run)
    pf = corpus.posonly_font(tmp)
    for t in ("abcab", "ab ba cab", "bbaab(c)"):
        for d in range(8):
            for ppm in (0, 12):
                srcs.append({"font": pf, "text": t, "dir": d, "ppm": ppm})
    # after all the fonts with at most one justification level: one with two levels that both carry weight
    tl = corpus.twolevel_font(tmp)
    if tl:
        for t in ("abab ab", "ab ba", "a b a b a", "bab aba"):
            for d in (0, 1, 3):
                for ppm in (0, 12):
                    srcs.append({"font": tl, "text": t, "dir": d, "ppm": ppm})
    sf = os.path.join(tmp, "sources.ndjson")
    open(sf, "w").write("\n".join(json.dumps(s) for s in srcs) + "\n")
    trace = os.path.join(tmp, "trace.ndjson")
    exe = vlib.build_harness("san")
    h = vlib.run_harness(exe, ["segapi", bf, trace, sf, 2 if q else 8], timeout=6000)
    vlib.absorb(ck, h)
    if os.path.exists(trace):
        # a fault (hang, crash) leaves a complete prefix: validate it as far as it goes
        data = open(trace).read()
        if not data.endswith("\n"):
            data = data[:data.rfind("\n") + 1]
            open(trace, "w").write(data)
    if h.summary:
        ck.extra["impl"] = {"segapi": h.summary["extra"]}
        ck.traces += h.summary["extra"]["segments"]
    rv = vlib.tlc("SegmentApiTrace.tla", "SegmentApiTrace.cfg", workers=1, env={"TRACE": trace}, timeout=6000, coverage=False, heap="24g")
    lines = open(trace).read().splitlines()
    if rv.violation and not (h.fault and rv.states - 1 >= len(lines)):
        k = min(rv.states - 1, len(lines) - 1)
        s = k
        while s > 0 and '"e":"Seg"' not in lines[s]:
            s -= 1
        seg = json.loads(lines[s])
        ck.violation("%s dir=%d ppm=%.1f text=%r: after %s the lines are no longer the chains they were" % (seg["font"], seg["dir"], seg["ppm10"] / 10.0, seg["text"][:30], lines[k][:150]),
                     {"why": "trace rejected by SegmentApiTrace", "segment": seg, "events": lines[s:k + 1]})
        return
    if not rv.violation:
        ck.add_tlc("SegmentApiTrace(%d events)" % (rv.states - 1), rv)
    # binding demonstration: swap two slots in one recorded walk -> rejected
    cand = [i for i, l in enumerate(lines) if l.startswith('{"e":"Justify"')]
    if cand and not h.fault:
        i = rng.choice(cand)
        o = json.loads(lines[i])
        ln = max(range(len(o["fw"])), key=lambda z: len(o["fw"][z]))
        if len(o["fw"][ln]) >= 2:
            o["fw"][ln][0], o["fw"][ln][1] = o["fw"][ln][1], o["fw"][ln][0]
            lines[i] = json.dumps(o, separators=(",", ":"))
            bad = os.path.join(tmp, "corrupt.ndjson")
            open(bad, "w").write("\n".join(lines) + "\n")
            rb = vlib.tlc("SegmentApiTrace.tla", "SegmentApiTrace.cfg", workers=1, env={"TRACE": bad}, timeout=6000, coverage=False, heap="24g")
            if not rb.violation:
                raise vlib.Broken("binding lost: a trace with two slots swapped in a recorded walk was accepted")
            ck.extra["binding_demo"] = "Justify event %d with two slots swapped in its forward walk is rejected" % i
    ck.assumptions += ["breaks only at interior slots (the property excludes the first slot); abstract break positions are mapped proportionally onto real segments",
                       "a call that does not return within 90 s is reported as a fault (watchdog)"]
