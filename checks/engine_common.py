"""Shared pipeline of C02 / C03 / C04 / C05: every segment produced by
   (a) wild loader-accepted rule programs (spec/CodeLoad.tla) compiled into fonts,
   (b) GDL-lite programs of spec/GdlRef.tla shaped under all 8 direction values,
   (c) the shipped corpus under all direction values, sizes and face options,
   is passed through the structural projection (harness/common.cpp: project) and the GRAPHITE2_VERIF iteration
   counter; the sanitizers observe every run."""
import json, os, random
import vlib, corpus
from fontgen import gfont, gdl
from checks import c06

CLS = c06.CLS
ADV = c06.ADV
GATTR = c06.GATTR


PARAMS = {25: 0, 28: 1, 29: 3, 30: 1, 31: 0, 32: 0, 35: 1, 36: 1, 37: 1, 38: 1, 39: 2, 40: 2, 41: 2, 42: 3, 46: 3, 48: 0, 49: 0, 50: 0, 51: 2, 1: 1, 6: 0, 12: 0}


def opcodes(code):
    """opcode list of an action (parameter bytes skipped)"""
    out, i = [], 0
    while i < len(code):
        op = code[i]
        out.append(op)
        i += 1 + (code[i + 1] + 1 if op == 33 and i + 1 < len(code) else PARAMS.get(op, 0))
    return out


def passloop(ck):
    for cfg in ("PassLoop_a.cfg", "PassLoop_b.cfg", "PassLoop_c.cfg"):
        r = vlib.tlc("PassLoopMC.tla", cfg, timeout=3000, coverage=False, heap="16g")
        if r.violation:
            ck.violation("TLC: %s violated in PassLoop (%s)" % (r.violation, cfg), {"why": "PassLoop model", "trace": vlib.tlc_error_trace(r.out)})
            return False
        ck.add_tlc("PassLoop/" + cfg, r)
    rn = vlib.tlc("PassLoopMC.tla", "PassLoop_neg.cfg", timeout=3000, coverage=False)
    if rn.violation not in ("IterBound", "Temporal properties were violated"):
        raise vlib.Broken("negative control PassLoop_neg (no loop limit) not refuted: %r" % rn.violation)
    return True


def wild_cases(ck, tier, seed, tmp):
    q = tier == "quick"
    out = os.path.join(tmp, "wild.ndjson")
    r = vlib.tlc("CodeLoad.tla", "CodeLoad_sim.cfg", out_file=out, simulate=700 if q else 12000, depth=14, seed=seed, workers=8,
                 timeout=6000, coverage=False, heap="16g")
    if r.violation:
        ck.violation("TLC: %s violated in CodeLoad" % r.violation, {"why": "CodeLoad model", "trace": vlib.tlc_error_trace(r.out)})
        return None
    ck.add_tlc("CodeLoad/simulation (loader-accepted wild rule actions)", r)
    progs = {json.dumps(e, sort_keys=True): e for e in r.emitted}
    progs = list(progs.values())
    rng = random.Random(seed)
    rng.shuffle(progs)
    progs = progs[:(2500 if q else 60000)]
    ck.extra["wild_programs"] = len(progs)
    cases = []
    for k, w in enumerate(progs):
        ctx = [rng.randrange(len(CLS)) for _ in range(w["rlen"])]
        wild = {"pre": w["pre"], "ctx": ctx, "con": b"", "act": bytes(w["code"])}
        passes = []
        if w["kind"] == "sub":
            rules = [wild]
            if rng.random() < 0.4:       # a second, competing rule with the same pre-context
                rules.append({"pre": w["pre"], "ctx": [rng.randrange(len(CLS)) for _ in range(w["pre"] + 1)], "con": b"",
                              "act": bytes([28, rng.randrange(len(CLS)), 25, 49])})
            passes.append({"kind": "sub", "maxloop": rng.choice([1, 2, 5]), "rules": rules})
            if 31 in opcodes(w["code"]) and rng.random() < 0.6:
                # the same inserting pass several times over: only the segment-wide insert budget (64 x the number
                # of characters) stands between such a font and unbounded growth
                for _ in range(rng.choice([2, 3, 4])):
                    passes.append({"kind": "sub", "maxloop": 5, "rules": [wild]})
            if rng.random() < 0.5:
                passes.append({"kind": "pos", "maxloop": 3, "rules": [{"pre": 0, "ctx": [rng.randrange(len(CLS)), 3], "con": b"",
                                                                     "act": bytes([25, 1, 255, 38, 2, 1, 20, 35, 3, 25, 49])}]})
        else:
            if rng.random() < 0.5:
                passes.append({"kind": "sub", "maxloop": 3, "rules": [{"pre": 0, "ctx": [0], "con": b"", "act": bytes([31, 28, 3, 25, 25, 49])}]})
            passes.append({"kind": "pos", "maxloop": rng.choice([1, 2, 5]), "rules": [wild]})
        # an earlier pass that attaches the second matched slot to the first, so that the wild rule (and the temporary
        # copies the loader inserts for slots that are changed and read back) also meets slots that carry attachments
        extra_cls = None
        if rng.random() < 0.4:
            extra_cls = ctx[1] if len(ctx) > 1 else rng.randrange(len(CLS))
            akind = "sub" if (w["kind"] == "sub" or rng.random() < 0.5) else "pos"
            attach = {"kind": akind, "maxloop": 2, "rules": [{"pre": 0, "ctx": [ctx[0], extra_cls], "con": b"",
                                                              "act": bytes([25, 1, 255, 38, 2, 1, 20, 35, 3, 25, 49])}]}
            at = 0
            while at < len(passes) and passes[at]["kind"] == "sub" and akind == "pos":
                at += 1
            passes.insert(at if akind == "pos" else 0, attach)
            passes.sort(key=lambda p_: 0 if p_["kind"] == "sub" else 1)
        rtl = rng.randrange(2)
        m = {"upem": 1000, "rtl": rtl, "nuser": 2,
             "glyphs": [{"adv": ADV[g], "attrs": ({5: GATTR[g]} if GATTR[g] else {})} for g in range(len(ADV))],
             "cmap": {96 + g: g for g in range(1, len(ADV))}, "classes": [list(c) for c in CLS],
             "nlinear": rng.choice([len(CLS), 2]), "passes": passes}
        text = [rng.randrange(1, len(ADV)) for _ in range(rng.randrange(1, 7))]
        # steer the text towards the wild rule's context so that it fires
        if rng.random() < 0.8:
            at = rng.randrange(0, max(1, len(text)))
            text[at:at + len(ctx)] = [rng.choice(CLS[c]) for c in ctx] + ([rng.choice(CLS[extra_cls])] if extra_cls is not None and len(ctx) == 1 else [])
        try:
            fb = gfont.build_font(m, silf_version=rng.choice([0x00020000, 0x00030000, 0x00040000]))
        except Exception as ex:
            raise vlib.Broken("fontgen failed on a wild program: %r" % ex)
        cases.append({"id": "w%d" % k, "font_hex": fb.hex(), "text": text[:8], "rtl": rtl, "dirs": list(range(8)) if k % 3 == 0 else [rtl, rtl ^ 1],
                      "must_load": False, "wild": w, "opts": k % 8, "pos_assoc": (w["kind"] == "pos" and (33 in opcodes(w["code"]) or 30 in opcodes(w["code"])))})
    # cursor programs: k NEXTs and a returned advance that walks back over them (and further), with and without a
    # change on the way - the rule loop must still terminate within the loop limits whatever the cursor does
    kcur = 0
    for kind in ("sub", "pos"):
        for rlen in (1, 2, 3):
            for nnext in range(0, rlen + 1):
                for ret in (-nnext, -nnext - 1, -nnext + 1, -3, 1):
                    for body in (b"", bytes([1, 7, 35, 0])):            # nothing / advance.x = 7 on the first item
                        act = body + bytes([25] * nnext) + bytes([1, ret & 0xFF, 48])
                        c0 = rng.randrange(len(CLS))
                        ctxc = [c0] + [rng.randrange(len(CLS)) for _ in range(rlen - 1)]
                        m = {"upem": 1000, "rtl": kcur % 2, "nuser": 2,
                             "glyphs": [{"adv": ADV[g], "attrs": {}} for g in range(len(ADV))],
                             "cmap": {96 + g: g for g in range(1, len(ADV))}, "classes": [list(x) for x in CLS], "nlinear": len(CLS),
                             "passes": [{"kind": kind, "maxloop": rng.choice([1, 3, 5]), "rules": [{"pre": 0, "ctx": ctxc, "con": b"", "act": act}]}]}
                        txt = [rng.choice(CLS[c]) for c in ctxc] * 2 + [rng.randrange(1, len(ADV))]
                        cases.append({"id": "cur%d" % kcur, "font_hex": gfont.build_font(m).hex(), "text": txt[:8], "rtl": kcur % 2,
                                      "dirs": [0, 1, 3], "must_load": False, "wild": {"cursor": True, "kind": kind, "code": list(act), "rlen": rlen}})
                        kcur += 1
    # state tables with cycles (loadable, never produced by a compiler): runs longer than the 64-entry slot map
    for k in range(12 if not (tier == "quick") else 6):
        c = rng.randrange(len(CLS))
        rules = [{"pre": 0, "ctx": [c, c], "con": b"", "act": bytes([25, 25, 49])}]
        if k % 2:
            rules.append({"pre": 0, "ctx": [c, c, c], "con": b"", "act": bytes([28, (c + 1) % len(CLS), 25, 25, 25, 49])})
        p = {"kind": "sub" if k % 3 else "pos", "maxloop": 2, "rules": rules, "trans_patch": [(1, 0, 1)] + ([(2, 0, 1)] if k % 2 else [])}
        m = {"upem": 1000, "rtl": k % 2, "nuser": 2,
             "glyphs": [{"adv": ADV[g], "attrs": {}} for g in range(len(ADV))],
             "cmap": {96 + g: g for g in range(1, len(ADV))}, "classes": [list(x) for x in CLS], "nlinear": len(CLS), "passes": [p]}
        g = CLS[c][0]
        for n in (62, 63, 64, 65, 66, 70, 130):
            cases.append({"id": "cyc%d_%d" % (k, n), "font_hex": gfont.build_font(m).hex(), "text": [rng.choice(CLS[c]) if i else g for i in range(n)] if n < 100 else [g] * n,
                          "rtl": k % 2, "dirs": list(range(8)), "must_load": False, "wild": {"cyclic": True}})
    return cases


def run_engine(ck, tier, seed, pids, with_passloop=False):
    tmp = vlib.tmpdir(ck.pid + "eng")
    q = tier == "quick"
    if with_passloop and not passloop(ck):
        return
    exe = vlib.build_harness("san")
    ck.extra.setdefault("impl", {})
    # (a) wild programs
    cases = wild_cases(ck, tier, seed, tmp)
    if cases is None:
        return
    cf = os.path.join(tmp, "wild_cases.ndjson")
    with open(cf, "w") as fo:
        for c in cases:
            fo.write(json.dumps(c, separators=(",", ":")) + "\n")
    ck.sample({"module": "CodeLoad", "rule": cases[0]["wild"], "text": cases[0]["text"]})
    flags = {c["id"]: c for c in cases}

    def identity_of(f):
        c = f.get("case") or {}
        cid = c.get("id") if isinstance(c, dict) else None
        if cid in flags and flags[cid].get("pos_assoc") and f.get("fail") == "C05" and "is in no slot's" in f.get("why", ""):
            return {"opcode": "ASSOC or PUT_COPY", "pass": "positioning"}
        return None
    for cfg in (("san",) if q else ("san", "sand")):
        ex = vlib.build_harness(cfg)
        h = vlib.run_harness(ex, ["gdl", cf, "nocompare"], timeout=6000, env={"GRV_MAXFAIL": "5000"})
        for p in pids:
            vlib.absorb(ck, h, pid=p, identity_of=identity_of)
        if h.fault:
            return
        if h.summary:
            ck.traces += h.summary["cases"]
            ck.extra.setdefault("impl", {})["wild/" + cfg] = dict(h.summary["extra"], passes_counted=h.summary.get("passes_counted"), worst_iter_permille_of_bound=h.summary.get("worst_iter_permille_of_bound"))
    # (b) GDL-lite reference programs under every direction value
    gcases = c06.gen_cases(ck, "quick" if q else tier, seed, tmp)
    if gcases is None:
        return
    k = 1500 if q else 30000          # simulated programs come first in the list, the structured seed families last
    gcases = gcases[:k] + gcases[max(k, len(gcases) - k):]
    for c in gcases:
        c["dirs"] = list(range(8))
    gf = os.path.join(tmp, "gdl_cases.ndjson")
    c06.write_cases(gcases, gf, random.Random(seed), variants=True)
    h = vlib.run_harness(exe, ["gdl", gf, "nocompare"], timeout=6000)
    for p in pids:
        vlib.absorb(ck, h, pid=p)
    if h.fault:
        return
    if h.summary:
        ck.traces += h.summary["cases"]
        ck.extra.setdefault("impl", {})["gdl_all_dirs"] = dict(h.summary["extra"], passes_counted=h.summary.get("passes_counted"))
    # (d) shipped fonts with their metrics tables (head, hhea, maxp, hmtx, loca) rewritten to boundary values: whatever of
    #     them the library accepts must still give well-formed segments, with and without a sized font
    from checks import c01
    rngd = random.Random(seed + 5)
    mcases = []
    for fn in ("Padauk.ttf", "charis_r_gr.ttf", "Scheherazadegr.ttf"):
        for c in c01.rewrite_cases(os.path.join(corpus.F, fn), rngd, 8 if q else 14, fn):
            pt = c.get("patches")
            if pt and all(x[0] in ("head", "hhea", "maxp", "hmtx", "loca") for x in pt):
                mcases.append(c)
        for upem in (0, 1, 15, 16, 16384, 16385, 65535):       # the em size divides every scaled position
            mcases.append({"id": "%s:head.unitsPerEm=%d" % (fn, upem), "font": os.path.join(corpus.F, fn), "patches": [["head", 18, 2, upem]], "opts": [0, 7]})
    mf = os.path.join(tmp, "metric_cases.ndjson")
    open(mf, "w").write("\n".join(json.dumps(c) for c in mcases) + "\n")
    h = vlib.run_harness(exe, ["loadfont", mf], timeout=6000, env={"GRV_MAXFAIL": "2000"})
    for p in pids:
        vlib.absorb(ck, h, pid=p)
    if h.summary:
        ck.traces += h.summary["extra"]["loads"]
        ck.extra.setdefault("impl", {})["rewritten_metrics_tables"] = dict(h.summary["extra"], cases=len(mcases))
    # (c) corpus under all direction values, two sizes, two option sets
    js = []
    for d in range(8):
        js += corpus.jobs(maxlines=600 if not q else 120, dirs=[d], with_fonttests=True, ppm=(12 if d % 2 else 0), opts=(6 if d % 3 == 0 else 0))
    js += corpus.jobs(maxlines=200, chunk=7, dirs=[0, 1, 3])
    js += corpus.random_jobs(n=150 if q else 3000, seed=seed, dirs=[0, 1])
    js += corpus.random_jobs(n=60 if q else 1000, seed=seed + 1, dirs=[3], ppm=12, opts=6)
    # fonts with application-supplied ("hinted") advances, both ways of making them
    for hinted in (1, 2):
        js += [dict(j, hinted=hinted, ppm=15, id=j["id"] + ":h%d" % hinted) for j in corpus.jobs(maxlines=40 if q else 400, dirs=[0, 1], with_fonttests=True)]
        js += [dict(j, hinted=hinted, ppm=9.5, id=j["id"] + ":h%d" % hinted) for j in corpus.random_jobs(n=40 if q else 600, seed=seed + 2, dirs=[0, 1])]
    js += corpus.oob_glyph_jobs(tmp)        # characters mapped to glyph ids beyond the font's last glyph, plain and hinted fonts
    js += corpus.oob_glyph_jobs(tmp, opts=7)
    js += corpus.stress_jobs()              # deep mark stacks, texts beyond 65536 characters, justified segments
    js += corpus.emptysub_jobs(tmp) + corpus.emptysub_jobs(tmp, opts=7)      # segments shaped with a sub-table that has no passes
    jf = os.path.join(tmp, "corpus_jobs.ndjson")
    open(jf, "w").write("\n".join(json.dumps(j) for j in js) + "\n")
    h = vlib.run_harness(exe, ["shape", jf], timeout=6000)
    for p in pids:
        vlib.absorb(ck, h, pid=p)
    if h.summary:
        ck.traces += h.summary["extra"]["segments"]
        ck.extra.setdefault("impl", {})["corpus_all_dirs"] = dict(h.summary["extra"], passes_counted=h.summary.get("passes_counted"), worst_iter_permille_of_bound=h.summary.get("worst_iter_permille_of_bound"))


def controller_trace(ck, tier, seed, tmp, exe, as_violation):
    """code -> spec: the cursor / high-water / loop-counter bookkeeping at the end of every iteration of the real rule
    loop (hook events 3, 4) on corpus and random strings, validated against Control of PassLoop.tla."""
    q = tier == "quick"
    js = corpus.jobs(maxlines=25 if q else 400, with_fonttests=True) + corpus.random_jobs(n=40 if q else 800, seed=seed, dirs=[0, 1])
    jf = os.path.join(tmp, "ctl_jobs.ndjson")
    open(jf, "w").write("\n".join(json.dumps(j) for j in js) + "\n")
    tr = os.path.join(tmp, "ctl.ndjson")
    h = vlib.run_harness(exe, ["shape", jf, "ctl", tr, 120000 if q else 2000000], timeout=6000)
    if h.fault or not h.summary:
        vlib.absorb(ck, h)
        return
    n = sum(1 for _ in open(tr))
    rv = vlib.tlc("PassLoopTrace.tla", "PassLoopTrace.cfg", workers=1, env={"TRACE": tr}, timeout=6000, coverage=False, heap="24g")
    if rv.violation:
        lines = open(tr).read().splitlines()
        ev = lines[min(max(rv.states - 1, 0), len(lines) - 1)]
        if as_violation:
            ck.violation("the rule loop's cursor bookkeeping differs from the specified control step: " + ev,
                         {"why": "trace rejected by PassLoopTrace", "event": json.loads(ev)})
        else:
            ck.extra.setdefault("impl", {})["rule_loop_control_model_drift"] = ev
        return
    ck.add_tlc("PassLoopTrace(%d recorded loop iterations)" % n, rv)
    ck.extra.setdefault("impl", {})["rule_loop_control_steps_validated"] = n
    if n:
        # binding: a step whose loop counter is not re-armed must be rejected
        lines = open(tr).read().splitlines()
        cand = [i for i, l in enumerate(lines) if '"s":0' not in l and '"lc2":%s' % json.loads(l)["ml"] in l and json.loads(l)["lc"] != json.loads(l)["ml"]][:50]
        if cand:
            o = json.loads(lines[cand[0]])
            o["lc2"] = o["lc"]
            bad = os.path.join(tmp, "ctl_corrupt.ndjson")
            open(bad, "w").write(json.dumps(o) + "\n")
            rb = vlib.tlc("PassLoopTrace.tla", "PassLoopTrace.cfg", workers=1, env={"TRACE": bad}, timeout=600, coverage=False)
            if not rb.violation:
                raise vlib.Broken("binding lost: a control step with a stale loop counter was accepted")
