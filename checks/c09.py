"""C09 - A preloaded face and unhinted font can be shared by concurrent shapers.  DESIGN.md 4.14 / 5 (C09)."""
import json, os, random
import vlib, corpus

RUNS = [("Scheherazadegr.ttf", "udhr_arb.txt", 1), ("Padauk.ttf", "my_HeadwordSyllables.txt", 0), ("AwamiNastaliq-Regular.ttf", "awami_tests.txt", 1),
        ("charis_r_gr.ttf", "udhr_yor.txt", 0), ("Annapurnarc2.ttf", "udhr_nep.txt", 0), ("Awami_test.ttf", "awami_tests.txt", 1)]


def run(ck, tier, seed):
    tmp = vlib.tmpdir("C09")
    q = tier == "quick"
    # L1: the design has no race when everything is preloaded and the font is unhinted; the lazy / hinted
    #     configurations are negative controls in which TLC must find the race
    for cfg in ("Threads_pre.cfg", "Threads_pre3.cfg"):
        r = vlib.tlc("ThreadsMC.tla", cfg, timeout=3000, coverage=True)
        if r.violation:
            ck.violation("TLC: %s violated in Threads (%s)" % (r.violation, cfg), {"why": "Threads model", "trace": vlib.tlc_error_trace(r.out)})
            return
        ck.add_tlc("Threads/" + cfg, r)
    for cfg in ("Threads_lazy_race.cfg", "Threads_hinted_race.cfg"):
        rn = vlib.tlc("ThreadsMC.tla", cfg, timeout=3000, coverage=False)
        if rn.violation != "NoRace":
            raise vlib.Broken("negative control %s: TLC did not find the race (%r)" % (cfg, rn.violation))
    ck.extra["negative_controls"] = "lazy glyph loading and hinted fonts: TLC finds the race (NoRace violated)"
    # L3: free-running threads under ThreadSanitizer, results validated against the sequential reference by TLC
    exe = vlib.build_harness("tsan")
    ck.extra["impl"] = {}
    from fontgen import sfnt, silf, feat
    runs = RUNS[:4] if q else RUNS
    for font, text, d in runs:
        # texts: corpus lines plus lines that use the font's pseudo-glyph characters (Silf pseudo map, independent reader)
        S = sfnt.Sfnt(os.path.join(corpus.F, font))
        pseudos = [u for u, g in silf.read_silf(S.table("Silf"))["subtables"][0]["pseudos"]][:24]
        lines = [l.strip() for l in open(os.path.join(corpus.T, text), encoding="utf-8") if len(l.strip()) >= 3][:150]
        extra = []
        for i, u in enumerate(pseudos):
            base = lines[i % len(lines)][:6]
            extra.append(base[:2] + chr(u) + base[2:4] + chr(pseudos[(i + 1) % len(pseudos)]) + base[4:])
        # characters beyond the BMP the font maps (format 12 cmap), on lines of their own and inside corpus lines
        smp = [c for c, g in (corpus._cmap_chars(os.path.join(corpus.F, font)) or []) if c >= 0x10000][:40]
        for i, u in enumerate(smp):
            base = lines[(3 * i) % len(lines)][:5]
            extra.append(base[:2] + chr(u) + base[2:] + chr(smp[(i + 7) % len(smp)]))
            extra.append(chr(u) + chr(smp[(i + 1) % len(smp)]))
        tf_path = os.path.join(tmp, font + ".txt")
        open(tf_path, "w", encoding="utf-8").write("\n".join(extra * 3 + lines) + "\n")
        # labels: a name table in which every second feature label exists only under the Unicode platform
        fm = sfnt.read_feat_sill_name(S)
        ids = sorted({f["label"] for f in fm["feats"]} | {x for f in fm["feats"] for x in f["setlabels"]}) if fm else []
        name_path = os.path.join(tmp, font + ".name.hex")
        open(name_path, "w").write(feat.name_table_dual(ids).hex() if ids else "")
        for rep in range(2 if q else 12):
            trace = os.path.join(tmp, "%s.%d.ndjson" % (font, rep))
            nth = 8 if rep % 2 == 0 else 16
            args = ["threads", os.path.join(corpus.F, font), tf_path, d, nth, 2 if q else 6, trace, seed + rep]
            if ids and rep % 2 == 1:
                args.append(name_path)
            h = vlib.run_harness(exe, args, timeout=3000)
            if font == "Padauk.ttf" and rep == 0 and not h.fault:
                # a font with one unloadable glyph must be refused by gr_face_preloadAll (then there is nothing to share);
                # if it is accepted, the threads run on it like on any other shared face
                empty = os.path.join(tmp, "empty.hex")
                open(empty, "w").write("")
                hb = vlib.run_harness(exe, args[:6] + [trace + ".staged", seed + 77, empty, "badglyph"], timeout=3000)
                vlib.absorb(ck, hb)
                if hb.fault:
                    return
                ck.extra.setdefault("impl", {})["Padauk.ttf#unloadable-glyph"] = hb.summary["extra"] if hb.summary else None
            if font == "Padauk.ttf" and rep == 0 and not h.fault:
                # fonts without a readable name table: label queries from all threads, still no table callback after loading
                for kind in ("noname", "name1"):
                    hn = vlib.run_harness(exe, args[:6] + ["%s.%s" % (trace, kind), seed + 78, empty, kind], timeout=3000)
                    vlib.absorb(ck, hn)
                    if hn.fault:
                        return
                    if not hn.summary:
                        raise vlib.Broken("threads harness gave no summary (%s)" % kind)
                    ck.traces += hn.summary["extra"]["jobs"]
                    ck.extra.setdefault("impl", {})["Padauk.ttf#" + kind] = hn.summary["extra"]
                    rvn = vlib.tlc("ThreadsTrace.tla", "ThreadsTrace.cfg", workers=1, env={"TRACE": "%s.%s" % (trace, kind)}, timeout=3000, coverage=False, heap="16g")
                    if rvn.violation:
                        ln = open("%s.%s" % (trace, kind)).read().splitlines()
                        kk = min(rvn.states - 1, len(ln) - 1)
                        ck.violation("Padauk.ttf (%s), %d threads: event %s is not what a single-threaded run gives (or a table callback happened after gr_make_face)" % (kind, nth, ln[kk][:160]),
                                     {"why": "ThreadsTrace rejected", "font": "Padauk.ttf#" + kind, "threads": nth, "event": ln[kk]})
                        return
                    ck.add_tlc("ThreadsTrace(Padauk.ttf#%s, %d threads, %d events)" % (kind, nth, rvn.states - 1), rvn)
            vlib.absorb(ck, h)
            if h.fault:
                if "data race" in h.fault.get("report", "") or h.fault.get("kind") == "sanitizer":
                    ck.extra.setdefault("impl", {})["%s#%d" % (font, rep)] = "ThreadSanitizer report"
                return
            if not h.summary:
                raise vlib.Broken("threads harness gave no summary")
            ck.traces += h.summary["extra"]["jobs"]
            ck.extra.setdefault("impl", {})["%s#%d" % (font, rep)] = h.summary["extra"]
            rv = vlib.tlc("ThreadsTrace.tla", "ThreadsTrace.cfg", workers=1, env={"TRACE": trace}, timeout=3000, coverage=False, heap="16g")
            lines = open(trace).read().splitlines()
            if rv.violation:
                k = min(rv.states - 1, len(lines) - 1)
                ck.violation("%s, %d threads: event %s is not what a single-threaded run gives (or a table callback happened after gr_make_face)" % (font, nth, lines[k][:160]),
                             {"why": "ThreadsTrace rejected", "font": font, "threads": nth, "event": lines[k]})
                return
            ck.add_tlc("ThreadsTrace(%s, %d threads, %d events)" % (font, nth, rv.states - 1), rv)
            if rep == 0 and len(ck.samples) < 3:
                ck.sample({"module": "ThreadsTrace", "font": font, "threads": nth, "events": [json.loads(x) for x in lines[-4:-1]]})
            # binding demonstration once: change one thread's result hash
            if font == runs[0][0] and rep == 0:
                idx = [i for i, l in enumerate(lines) if l.startswith('{"e":"Job"')]
                i = random.Random(seed).choice(idx)
                o = json.loads(lines[i]); o["h"] += "7"
                lines2 = list(lines); lines2[i] = json.dumps(o, separators=(",", ":"))
                bad = os.path.join(tmp, "corrupt.ndjson")
                open(bad, "w").write("\n".join(lines2) + "\n")
                rb = vlib.tlc("ThreadsTrace.tla", "ThreadsTrace.cfg", workers=1, env={"TRACE": bad}, timeout=3000, coverage=False, heap="16g")
                if not rb.violation:
                    raise vlib.Broken("binding lost: a changed per-thread result was accepted by ThreadsTrace")
                ck.extra["binding_demo"] = "Job event %d with a changed hash is rejected" % i
    ck.assumptions += ["schedules: those ThreadSanitizer observed in the runs made (hardware interleavings are sampled, not enumerated); "
                       "the design-level argument is Threads.tla: no shared write after the face is returned => no race under any schedule",
                       "per-thread results compared through full segment dumps and label strings"]
