"""C12 - gr_make_seg consumes no more text than its contract allows.  DESIGN.md 5 (C12)."""
import vlib
from checks import utfcommon


def run(ck, tier, seed):
    utfcommon.utftext(ck, tier, seed, props=("C12",))
    ck.assumptions += ["contract = include/graphite2/Segment.h + doc/calling.adoc as written in spec/UtfTextOps.tla",
                       "texts end exactly at their NUL, followed by an inaccessible page"]
