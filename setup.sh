#!/bin/sh
# Offline setup: parse every TLA+ module and pre-build the sanitizer library + harness from /repo's working tree.
set -e
cd "$(dirname "$0")"
for f in spec/*.tla; do
  case "$f" in *Trace.tla) continue;; esac
  (cd spec && tla-sany "$(basename "$f")" >/dev/null 2>&1) || { echo "SANY failed on $f"; exit 1; }
done
python3 - <<'PY'
import sys
sys.path.insert(0, ".")
import vlib
vlib.build_harness("san")
print("setup ok")
PY
