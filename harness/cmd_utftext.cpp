// C12 / C11 (second sentence) / C05 (first sentence): replay of spec/UtfText.tla cases into gr_make_seg.
// The text sits in a buffer that ends exactly at its terminating NUL, followed by an inaccessible page.
#include "common.hpp"
#include "graphite2/Log.h"
#include "registry.hpp"

using namespace grv;

namespace {

struct Exp { long usv, base, len; bool ill; };
struct Got { long usv, base; };

// same relation as Explains in UtfText.tla
bool explains(const std::vector<Exp> &exp, size_t k, const std::vector<Got> &got, size_t j, size_t nChars) {
    if (j >= got.size()) return k >= exp.size() || got.size() == nChars;
    if (k >= exp.size()) return false;
    const Exp &x = exp[k]; const Got &g = got[j];
    if (!x.ill) return g.usv == x.usv && g.base == x.base && explains(exp, k + 1, got, j + 1, nChars);
    if (!(g.usv == 0xFFFD && g.base >= x.base && g.base < x.base + x.len)) return false;
    if (explains(exp, k + 1, got, j + 1, nChars)) return true;
    return j + 1 < got.size() && got[j + 1].usv == 0xFFFD && got[j + 1].base > g.base && got[j + 1].base < x.base + x.len
           && explains(exp, k, got, j + 1, nChars);
}

GuardPool pool;

gr_segment *shape(const gr_face *face, int enc, const std::vector<long long> &units, size_t nChars, int dir) {
    const int usz = enc / 8;
    Guarded &g = pool.get(units.size() * usz);
    std::vector<uint8_t> b = encode_units(enc, units);
    memcpy(g.data(), b.data(), b.size());
    GRV_WATCHDOG;
    return gr_make_seg(0, face, 0, 0, gr_encform(usz), g.data(), nChars, dir);
}

} // namespace

// grv utftext <cases.ndjson> <record.ndjson|-> <font>...
GRV_CMD(utftext) {
    if (argc < 3) return 2;
    FILE *f = fopen(argv[0], "r"); if (!f) { perror(argv[0]); return 2; }
    FILE *rec = strcmp(argv[1], "-") ? fopen(argv[1], "w") : 0;
    std::vector<gr_face *> faces; std::vector<std::string> names;
    for (int i = 2; i < argc; ++i) {
        gr_face *fc = gr_make_file_face(argv[i], gr_face_default);
        if (!fc) { fprintf(stderr, "cannot load %s\n", argv[i]); return 2; }
#ifdef GRV_TRACING
        // library built with tracing support: with GRV_LOG set, a trace log is attached to every face (gr_start_logging)
        if (getenv("GRV_LOG") && !gr_start_logging(fc, "/dev/null")) { fprintf(stderr, "gr_start_logging failed\n"); return 2; }
#endif
        faces.push_back(fc); names.push_back(argv[i]);
    }
    std::string line; long segs = 0, equiv = 0, recorded = 0;
    while (vj::readline(f, line)) {
        if (line.empty()) continue;
        vj::P v = vj::parse(line);
        const int enc = int((*v)["enc"].num());
        const size_t nChars = size_t((*v)["nChars"].num());
        std::vector<long long> buf = (*v)["buf"].ints();
        std::vector<Exp> exp;
        bool allwf = true;
        for (auto &e : (*v)["exp"].a) { Exp x{long((*e)["usv"].num()), long((*e)["base"].num()), long((*e)["len"].num()), (*e)["ill"].truth()}; exp.push_back(x); allwf &= !x.ill; }
        ++g_cases;
        for (size_t fi = 0; fi < faces.size(); ++fi) {
            set_case("utftext line=%ld font=%s %s", g_cases, names[fi].c_str(), line.substr(0, 200).c_str());
            const int dir = int((g_cases + fi) % 2) ? 0 : 1;     // alternate ltr/rtl flag
            gr_segment *seg = shape(faces[fi], enc, buf, nChars, dir);
            ++segs;
            if (!seg) { report_fail("C12", "gr_make_seg returned NULL on a shipped font", line); continue; }
            SegP p = project(seg, faces[fi], 0, true);
            std::vector<Got> got; std::vector<long long> gu, gb;
            for (auto &c : p.chars) { got.push_back(Got{long(c.usv), long(c.base)}); gu.push_back(c.usv); gb.push_back((long long)c.base); }
            if (!p.wf.empty()) report_fail(p.wfprop.c_str(), p.wf, line);
            if (!explains(exp, 0, got, 0, nChars)) {
                vj::W w; w.arr("got_usv", gu).arr("got_base", gb).raw("spec", line).str("font", names[fi]);
                // which property: count mismatch on well-formed text = C12, content mismatch = C05/C11
                size_t want = std::min(nChars, exp.size());
                const char *prop = (allwf && got.size() != want) ? "C12" : (allwf ? "C05" : "C11");
                report_fail(prop, "char-infos do not match the ingestion contract (got " + std::to_string(got.size()) + " char-infos)", w.done());
                // C05's first sentence covers ill-formed text as well ("U+FFFD for ill-formed sequences")
                if (!allwf) report_fail("C05", "char-infos of an ill-formed text do not match the ingestion contract (got " + std::to_string(got.size()) + " char-infos)", w.done());
            }
            if (p.nslots > 64 * std::max<size_t>(p.chars.size(), 1) ) report_fail("C02", "more than 64 slots per character", line);
            if (rec && fi == 0 && (g_cases % 7 == 0)) {
                vj::W w; w.i("enc", enc).arr("items", (*v)["items"].ints()).i("nChars", (long long)nChars).arr("usv", gu).arr("base", gb);
                fprintf(rec, "%s\n", w.done().c_str()); ++recorded;
            }
            // encoding equivalence (well-formed texts, once per text: on the UTF-8 case)
            if (allwf && enc == 8) {
                std::string d8 = dump(p, false, true);
                const int encs[2] = {16, 32}; const char *keys[2] = {"u16", "u32"};
                for (int q = 0; q < 2; ++q) {
                    std::vector<long long> u = (*v)[keys[q]].ints(); u.push_back(0);
                    gr_segment *s2 = shape(faces[fi], encs[q], u, nChars, dir);
                    SegP p2 = project(s2, faces[fi], 0, true);
                    ++equiv;
                    if (dump(p2, false, true) != d8) {
                        vj::W w; w.str("font", names[fi]).i("other", encs[q]).raw("spec", line).str("d8", d8).str("dother", dump(p2, false, true));
                        report_fail("C11", "UTF-8 and UTF-" + std::to_string(encs[q]) + " segments of the same scalar sequence differ", w.done());
                    }
                    if (s2) gr_seg_destroy(s2);
                }
            }
            gr_seg_destroy(seg);
        }
    }
    fclose(f); if (rec) fclose(rec);
    for (auto fc : faces) gr_face_destroy(fc);
    vj::W w; w.i("segments", segs).i("equiv_pairs", equiv).i("recorded", recorded);
    report_summary(w.done().c_str());
    return 0;
}
