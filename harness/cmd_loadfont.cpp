// C01: loads fonts whose tables carry boundary-valued fields (spec/Readers.tla assignments on synthesised fonts, and
// grammar-driven rewrites of every known field of the shipped fonts) through the instrumented table callbacks
// (exact-size guarded tables) and from files, with every face-option value; an accepted face must answer every query,
// shape, and be destroyed with nothing left allocated.
#include "common.hpp"
#include "registry.hpp"
#include "tableface.hpp"

extern "C" size_t __sanitizer_get_current_allocated_bytes() __attribute__((weak));

using namespace grv;

namespace {
void exercise(gr_face *face, const std::vector<uint32_t> &text) {
    volatile unsigned long sink = gr_face_n_glyphs(face) + gr_face_n_fref(face) + gr_face_n_languages(face);
    const gr_faceinfo *fi = gr_face_info(face, 0); if (fi) sink += fi->upem + fi->extra_ascent;
    for (gr_uint32 c : {0u, 0x20u, 0x41u, 0x627u, 0x1000u, 0xFFFFu, 0x10000u, 0x10FFFFu}) sink += gr_face_is_char_supported(face, c, 0);
    for (unsigned k = 0; k < gr_face_n_fref(face) && k < 64; ++k) {
        const gr_feature_ref *r = gr_face_fref(face, gr_uint16(k));
        sink += gr_fref_id(r) + gr_fref_n_values(r);
        for (unsigned j = 0; j < gr_fref_n_values(r) && j < 16; ++j) sink += gr_fref_value(r, gr_uint16(j));
        if (gr_face_find_fref(face, gr_fref_id(r)) == 0) sink += 1;
        for (int e = 1; e <= 4; e <<= 1) {
            gr_uint16 lang = 0x409; gr_uint32 len = 0;
            void *p = gr_fref_label(r, &lang, gr_encform(e), &len); if (p) { sink += ((unsigned char *)p)[len * e]; gr_label_destroy(p); }
            if (gr_fref_n_values(r)) { lang = 0x409; p = gr_fref_value_label(r, 0, &lang, gr_encform(e), &len); if (p) gr_label_destroy(p); }
        }
    }
    for (unsigned k = 0; k < gr_face_n_languages(face) && k < 32; ++k) {
        gr_feature_val *fv = gr_face_featureval_for_lang(face, gr_face_lang_by_index(face, gr_uint16(k)));
        for (unsigned q = 0; q < gr_face_n_fref(face) && q < 64; ++q) { const gr_feature_ref *r = gr_face_fref(face, gr_uint16(q)); sink += gr_fref_feature_value(r, fv); gr_fref_set_feature_value(r, gr_uint16(q & 1), fv); }
        gr_feature_val *cl = gr_featureval_clone(fv); gr_featureval_destroy(cl); gr_featureval_destroy(fv);
    }
    {   // a feature-value object that belongs to no face yet (Font.h: gr_featureval_clone(NULL) gives an empty one)
        gr_feature_val *fv = gr_featureval_clone(0);
        for (unsigned q = 0; fv && q < gr_face_n_fref(face) && q < 64; ++q) { const gr_feature_ref *r = gr_face_fref(face, gr_uint16(q)); gr_fref_set_feature_value(r, gr_uint16(gr_fref_n_values(r) ? gr_fref_value(r, 0) : 0), fv); sink += gr_fref_feature_value(r, fv); }
        if (fv) gr_featureval_destroy(fv);
    }
    gr_font *gf = gr_make_font(12.0f, face);
    for (int dir = 0; dir < 4; ++dir) {
        GRV_WATCHDOG;
        gr_segment *seg = gr_make_seg(dir & 2 ? gf : 0, face, 0, 0, gr_utf32, text.data(), text.size(), dir & 1);
        if (seg) {
            SegP p = project(seg, face, dir & 2 ? gf : 0, false);
            if (!p.wf.empty()) { vj::W w; w.str("case", g_case); report_fail(p.wfprop.c_str(), p.wf, w.done()); }
            if (p.nslots > 64 * std::max<size_t>(text.size(), 1)) { vj::W w; w.str("case", g_case); report_fail("C02", "more than 64 slots per input character", w.done()); }
            if (gr_seg_first_slot(seg) && dir == 3) gr_seg_justify(seg, gr_seg_first_slot(seg), gf, 2000.0, gr_justCompleteLine, 0, 0);
            gr_seg_destroy(seg);
        }
    }
    if (gf) gr_font_destroy(gf);
    (void)sink;
}
}

// grv loadfont <cases.ndjson>
GRV_CMD(loadfont) {
    if (argc < 1) return 2;
    FILE *f = fopen(argv[0], "r"); if (!f) { perror(argv[0]); return 2; }
    std::string line, lastfont, lastdata; long loads = 0, accepted = 0, rejected = 0;
    while (vj::readline(f, line)) {
        if (line.empty()) continue;
        vj::P v = vj::parse(line);
        ++g_cases;
        const std::string id = v->has("id") ? (*v)["id"].s : std::to_string(g_cases);
        std::string data;
        if (v->has("font_hex")) { std::vector<uint8_t> b = unhex((*v)["font_hex"].s); data.assign((const char *)b.data(), b.size()); }
        else { const std::string path = (*v)["font"].s; if (path != lastfont) { lastdata = slurp(path); lastfont = path; } data = lastdata; }
        if (v->has("filepatches")) for (auto &pp : (*v)["filepatches"].a) { const size_t pos = size_t((*pp)[size_t(0)].num()); if (pos < data.size()) data[pos] = char((*pp)[1].num()); }
        std::vector<uint32_t> text; if (v->has("text")) for (auto &x : (*v)["text"].a) text.push_back(uint32_t(x->num()));
        if (text.empty()) text = {0x61, 0x62, 0x63, 0x627, 0x644, 0x1000, 0x103C, 0x20, 0x41};
        std::vector<int> optl; if (v->has("opts")) for (auto &x : (*v)["opts"].a) optl.push_back(int(x->num())); else optl = {0, 7};
        for (int opts : optl) {
            set_case("loadfont id=%s opts=%d", id.c_str(), opts);
            TableFace *tf = new TableFace();
            if (!tf->load_mem(data)) { delete tf; break; }
            tf->events.reserve(256); tf->bufs.reserve(128);
            if (v->has("patches")) for (auto &pp : (*v)["patches"].a) {
                const std::string tag = (*pp)[size_t(0)].s; const size_t off = size_t((*pp)[1].num()), w = size_t((*pp)[2].num()); const unsigned long long val = (unsigned long long)(*pp)[3].num();
                auto it = tf->tables.find(tagof(tag.c_str()));
                if (it != tf->tables.end() && off + w <= it->second.size()) for (size_t k = 0; k < w; ++k) it->second[off + k] = uint8_t(val >> (8 * (w - 1 - k)));
            }
            if (v->has("truncate")) for (auto &pp : (*v)["truncate"].a) { auto it = tf->tables.find(tagof((*pp)[size_t(0)].s.c_str())); if (it != tf->tables.end() && size_t((*pp)[1].num()) < it->second.size()) it->second.resize(size_t((*pp)[1].num())); }
            if (v->has("drop")) for (auto &pp : (*v)["drop"].a) tf->drop(pp->s.c_str());
            const size_t mem0 = &__sanitizer_get_current_allocated_bytes ? __sanitizer_get_current_allocated_bytes() : 0;
            gr_face *face;
            { GRV_WATCHDOG; face = tf->make(unsigned(opts)); }
            ++loads;
            if (face) { ++accepted; exercise(face, text); gr_face_destroy(face); } else ++rejected;
            const size_t mem1 = &__sanitizer_get_current_allocated_bytes ? __sanitizer_get_current_allocated_bytes() : 0;
            std::string why;
            if (tf->outstanding()) why = std::to_string(tf->outstanding()) + " table buffer(s) still borrowed after " + (face ? "gr_face_destroy" : "a failed gr_make_face");
            else if (tf->doubleRel || tf->unknownRel) why = "release_table called twice or with a foreign pointer";
            else if (mem1 != mem0) why = std::to_string(long(mem1) - long(mem0)) + " bytes still allocated after the face is gone";
            if (!why.empty()) { vj::W w; w.str("id", id).i("opts", opts).b("accepted", face != 0); if (v->has("patches")) w.raw("patches", "null"); report_fail("C01", why, w.done()); }
            if (v->has("expect")) { const bool want = (*v)["expect"].s == "accept"; if (want != (face != 0)) ++g_drift; }
            delete tf;
        }
        if (v->has("file")) {       // the same bytes through gr_make_file_face
            set_case("loadfont id=%s file", id.c_str());
            for (int opts : {0, 6}) {
                gr_face *face;
                { GRV_WATCHDOG; face = gr_make_file_face((*v)["file"].s.c_str(), unsigned(opts)); }
                ++loads;
                if (face) { ++accepted; exercise(face, text); gr_face_destroy(face); } else ++rejected;
            }
        }
    }
    fclose(f);
    vj::W w; w.i("loads", loads).i("accepted", accepted).i("rejected", rejected);
    report_summary(w.done().c_str());
    return 0;
}
