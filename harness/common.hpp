// Shared pieces of the conformance harness: guarded buffers, fault reporting, segment projection.
#pragma once
#include <graphite2/Font.h>
#include <graphite2/Segment.h>
#include <sys/mman.h>
#include <unistd.h>
#include <signal.h>
#include <cmath>
#include <cstdint>
#include <cstdio>
#include <cstdlib>
#include <cstring>
#include <map>
#include <set>
#include <string>
#include <vector>
#include "json.hpp"

// Every call into the library that could loop runs under a watchdog: SIGALRM is reported as a watchdog fault.
// The limit is wall-clock time and deliberately generous (a single call takes a second or two at most, also under a
// sanitizer): checks may run side by side on a loaded machine, and a slow call must never be taken for a hang.
namespace grv { struct GrvWatch { GrvWatch(unsigned s = 150) { alarm(s); } ~GrvWatch() { alarm(0); } }; }
#define GRV_CAT2(a, b) a##b
#define GRV_CAT(a, b) GRV_CAT2(a, b)
#define GRV_WATCHDOG grv::GrvWatch GRV_CAT(grv_watch_guard_, __COUNTER__)

namespace grv {

// ------------------------------------------------------------------------------------------
// current-case tracking: whatever kills the process (sanitizer report, SEGV on a guard page,
// abort) names the case being executed, so the runner can turn it into a Fault for that case.
// ------------------------------------------------------------------------------------------
extern char g_case[512];
void set_case(const char *fmt, ...) __attribute__((format(printf, 1, 2)));
void install_fault_handlers();

// ------------------------------------------------------------------------------------------
// Exact-size buffer that ends at (and optionally starts after) an inaccessible page.
// ------------------------------------------------------------------------------------------
class Guarded {
    uint8_t *_map = 0; size_t _maplen = 0; uint8_t *_p = 0; size_t _n = 0;
public:
    Guarded() {}
    Guarded(size_t n, bool front = false) { alloc(n, front); }
    ~Guarded() { if (_map) munmap(_map, _maplen); }
    Guarded(const Guarded &) = delete;
    void alloc(size_t n, bool front = false) {
        if (_map) munmap(_map, _maplen);
        const size_t pg = 4096;
        size_t body = ((n + pg - 1) / pg) * pg; if (body == 0) body = pg;
        _maplen = body + 2 * pg;
        _map = (uint8_t *)mmap(0, _maplen, PROT_READ | PROT_WRITE, MAP_PRIVATE | MAP_ANONYMOUS, -1, 0);
        if (_map == MAP_FAILED) { perror("mmap"); _exit(2); }
        mprotect(_map, pg, PROT_NONE);
        mprotect(_map + pg + body, pg, PROT_NONE);
        _p = front ? _map + pg : _map + pg + body - n;   // front: starts right after a guard page
        _n = n;
        memset(_map + pg, 0xA5, body);
    }
    uint8_t *data() { return _p; }
    uint8_t *end() { return _p + _n; }
    size_t size() const { return _n; }
};

// A pool of guarded buffers indexed by size so that millions of cases do not mmap each time.
class GuardPool {
    std::map<size_t, Guarded *> _m;
public:
    ~GuardPool() { for (auto &kv : _m) delete kv.second; }
    Guarded & get(size_t n) { auto it = _m.find(n); if (it != _m.end()) return *it->second; Guarded *g = new Guarded(n); _m[n] = g; return *g; }
};

// ------------------------------------------------------------------------------------------
// Segment projection: the abstract state that the TLA+ modules talk about, obtained through the
// public API only, together with the structural checks of C03/C04/C05 (each returns "" or a reason).
// ------------------------------------------------------------------------------------------
struct SlotP {
    int gid, index, before, after, original, parent, firstChild, nextSib, insertBefore;
    float ox, oy, ax, ay;
    int advAttr, shiftX, shiftY, attX, attY, user0, user1, attLevel;
};
struct CharP { unsigned usv; int before, after; size_t base; int bw; };
struct SegP {
    bool null = true;
    std::vector<SlotP> slots;           // in stream order
    std::vector<CharP> chars;
    unsigned nslots = 0;
    float advX = 0, advY = 0;
    std::string wf;                      // first well-formedness failure ("" = ok)
    std::string wfprop;                  // property that the failure belongs to (C03/C04/C05)
};

SegP project(gr_segment *seg, const gr_face *face, const gr_font *font, bool gidCheck, int nUser = 2);
std::string dump(const SegP &s, bool withBase = true, bool withPos = true);   // canonical text form
std::string dump_json(const SegP &s);

// encoding helpers
std::vector<uint8_t> encode_units(int enc, const std::vector<long long> &units);

// result reporting: one NDJSON line per failure, a summary line at the end
void report_fail(const char *prop, const std::string &why, const std::string &caseJson);
extern long g_fail, g_cases, g_drift;
extern void (*g_rule_sink)(int ev, long a, long b, long c, long d);
void report_summary(const char *extra = 0);

std::string slurp(const std::string &path);

} // namespace grv
