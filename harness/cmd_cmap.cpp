// C13: replay of spec/Cmap.tla configurations: the case's cmap bytes are served through the table callbacks
// in place of the host font's cmap; direct and cached faces are queried on code points and compared with
// the piecewise reference the specification emitted.
#include "common.hpp"
#include "registry.hpp"
#include "tableface.hpp"
#include "inc/Face.h"
#include "inc/CmapCache.h"

using namespace grv;
using namespace graphite2;

namespace {
struct Piece { uint32_t lo, hi; bool list; uint32_t base; std::vector<long long> gids; };

uint16_t ref_of(const std::vector<Piece> &ps, uint32_t cp) {
    for (auto &p : ps) if (cp >= p.lo && cp <= p.hi) {
        // BMP: first segment with end >= cp decides (pieces are in segment order); SMP: first group containing cp
        return p.list ? uint16_t(p.gids[cp - p.lo]) : uint16_t(p.base + (cp - p.lo));
    }
    return 0;
}
}

// grv cmap <cases.ndjson> <hostfont> <stride>     (stride 1 = all 0x110000 code points)
GRV_CMD(cmap) {
    if (argc < 3) return 2;
    FILE *f = fopen(argv[0], "r"); if (!f) { perror(argv[0]); return 2; }
    const unsigned stride = atoi(argv[2]);
    std::string line; long lookups = 0, faces = 0;
    while (vj::readline(f, line)) {
        if (line.empty()) continue;
        vj::P v = vj::parse(line);
        ++g_cases;
        std::vector<Piece> ps;
        std::set<uint32_t> probes = {0, 1, 0xFFFE, 0xFFFF, 0x10000, 0x10FFFE, 0x10FFFF};
        for (auto &e : (*v)["ref"].a) {
            Piece p; p.lo = uint32_t((*e)["lo"].num()); p.hi = uint32_t((*e)["hi"].num()); p.list = (*e)["kind"].s == "list";
            p.base = uint32_t((*e)["base"].num()); p.gids = (*e)["gids"].ints(); ps.push_back(p);
            for (uint32_t q : {p.lo - 1, p.lo, p.lo + 1, p.hi - 1, p.hi, p.hi + 1}) if (q <= 0x10FFFF) probes.insert(q);
        }
        // BMP pieces must shadow later ones exactly like "first segment whose end >= cp": a cp below a segment's
        // start but above the previous end is unmapped -> handled because pieces do not overlap in the cases
        const std::string tag = v->has("id") ? (*v)["id"].s : std::to_string(g_cases);
        for (int cached = 0; cached < 2; ++cached) {
            set_case("cmap case=%s cached=%d", tag.c_str(), cached);
            TableFace tf;
            const bool shipped = v->has("font");
            if (!tf.load(shipped ? (*v)["font"].s : std::string(argv[1]))) { fprintf(stderr, "cannot read font\n"); return 2; }
            if (!shipped) tf.set("cmap", unhex((*v)["cmap_hex"].s));
            gr_face *face = tf.make(cached ? gr_face_cacheCmap : gr_face_default);
            if (!face && shipped) {          // not a graphite font (or rejected for other reasons): nothing to compare
                gr_face *ff = gr_make_file_face((*v)["font"].s.c_str(), cached ? gr_face_cacheCmap : gr_face_default);
                if (ff) { gr_face_destroy(ff); report_fail("C13", "font loads from file but not through table callbacks", tag); }
                continue;
            }
            if (!face) { report_fail("C13", std::string("face with a well-formed synthesised cmap failed to load (") + (cached ? "cached" : "direct") + ")", line.substr(0, 600)); continue; }
            ++faces;
            const Face *F = static_cast<const Face *>(face);
            auto check = [&](uint32_t cp) {
                ++lookups;
                const uint16_t want = ref_of(ps, cp), got = F->cmap()[cp];
                const bool sup = gr_face_is_char_supported(face, cp, 0) != 0;
                if (got != want || (sup != (want != 0) && !F->findPseudo(cp))) {
                    static long lastCase = -1; static int per = 0;
                    if (lastCase != g_cases * 2 + cached) { lastCase = g_cases * 2 + cached; per = 0; }
                    if (++per > 3) { ++g_fail; return; }
                    char b[200]; snprintf(b, sizeof b, "U+%04X maps to glyph %u through the %s cmap, OpenType rule gives %u", cp, got, cached ? "cached" : "direct", want);
                    vj::W w; w.i("cp", cp).i("got", got).i("want", want).b("cached", cached != 0).str("case", tag).raw("spec", line.substr(0, 1500).find('"') == std::string::npos ? "null" : "null");
                    if (!shipped) w.str("cmap_hex", (*v)["cmap_hex"].s);
                    report_fail("C13", b, w.done());
                }
            };
            // the Silf pseudo-glyph map as read by the independent reader (first subtable, first matching entry wins):
            // findPseudo must return exactly that, and a character is supported iff the cmap or the pseudo map knows it
            if (v->has("pseudos")) {
                std::map<uint32_t, uint16_t> pm;
                for (auto &e : (*v)["pseudos"].a) { const uint32_t u = uint32_t((*e)[size_t(0)].num()); if (!pm.count(u)) pm[u] = uint16_t((*e)[1].num()); }
                auto pcheck = [&](uint32_t cp) {
                    const uint16_t wantp = pm.count(cp) ? pm[cp] : 0, gotp = F->findPseudo(cp);
                    const bool sup = gr_face_is_char_supported(face, cp, 0) != 0, wantsup = ref_of(ps, cp) != 0 || wantp != 0;
                    if (gotp != wantp || sup != wantsup) {
                        char b[240]; snprintf(b, sizeof b, "U+%04X: pseudo-glyph map gives %u (font says %u), is_char_supported %d (expected %d), %s cmap", cp, gotp, wantp, int(sup), int(wantsup), cached ? "cached" : "direct");
                        vj::W w; w.i("cp", cp).i("got_pseudo", gotp).i("want_pseudo", wantp).b("cached", cached != 0).str("case", tag);
                        report_fail("C13", b, w.done());
                    }
                };
                for (auto &kv : pm) { pcheck(kv.first); pcheck(kv.first + 1); if (kv.first) pcheck(kv.first - 1); }
                for (uint32_t cp : probes) pcheck(cp);
            }
            for (uint32_t cp : probes) check(cp);
            const unsigned st = shipped ? 1 : stride;         // shipped fonts: every code point
            for (uint32_t cp = (st > 1 ? uint32_t(g_cases % st) : 0); cp <= 0x10FFFF; cp += st) check(cp);
            gr_face_destroy(face);
            // the same cmap on the way a text takes: a host font whose only rule changes nothing (argv[3]) keeps the
            // glyph every character was given when the segment was filled; sequences put the probe code points next to
            // each other, each supplementary one next to the BMP one with the same low 16 bits, in all three encodings
            if (!shipped && argc > 3) {
                TableFace tt;
                if (!tt.load(argv[3])) { fprintf(stderr, "cannot read %s\n", argv[3]); return 2; }
                tt.set("cmap", unhex((*v)["cmap_hex"].s));
                gr_face *tface = tt.make(cached ? gr_face_cacheCmap : gr_face_default);
                if (!tface) { report_fail("C13", "text host font with a well-formed synthesised cmap failed to load", tag); continue; }
                std::vector<uint32_t> seq;
                for (uint32_t cp : probes) {
                    if (cp == 0 || (cp >= 0xD800 && cp <= 0xDFFF) || cp > 0x10FFFF) continue;
                    seq.push_back(cp);
                    const uint32_t twin = cp >= 0x10000 ? (cp & 0xFFFF) : (0x10000 | cp);
                    if (twin && !(twin >= 0xD800 && twin <= 0xDFFF)) { seq.push_back(twin); seq.push_back(cp); }
                }
                for (size_t at = 0, tn = 0; at < seq.size(); at += 12, ++tn) {
                    std::vector<uint32_t> t(seq.begin() + at, seq.begin() + std::min(seq.size(), at + 12));
                    std::string u8; std::vector<uint16_t> u16;
                    for (uint32_t c : t) {
                        if (c < 0x80) u8 += char(c); else if (c < 0x800) { u8 += char(0xC0 | (c >> 6)); u8 += char(0x80 | (c & 63)); }
                        else if (c < 0x10000) { u8 += char(0xE0 | (c >> 12)); u8 += char(0x80 | ((c >> 6) & 63)); u8 += char(0x80 | (c & 63)); }
                        else { u8 += char(0xF0 | (c >> 18)); u8 += char(0x80 | ((c >> 12) & 63)); u8 += char(0x80 | ((c >> 6) & 63)); u8 += char(0x80 | (c & 63)); }
                        if (c < 0x10000) u16.push_back(uint16_t(c)); else { u16.push_back(uint16_t(0xD800 + ((c - 0x10000) >> 10))); u16.push_back(uint16_t(0xDC00 + ((c - 0x10000) & 0x3FF))); }
                    }
                    const int enc = int((tn + g_cases) % 3);
                    set_case("cmap text case=%s cached=%d text=%zu enc=%d", tag.c_str(), cached, tn, enc);
                    gr_segment *seg = enc == 0 ? gr_make_seg(0, tface, 0, 0, gr_utf32, t.data(), t.size(), 0)
                                    : enc == 1 ? gr_make_seg(0, tface, 0, 0, gr_utf16, u16.data(), t.size(), 0)
                                               : gr_make_seg(0, tface, 0, 0, gr_utf8, u8.data(), t.size(), 0);
                    ++lookups;
                    if (!seg) { report_fail("C13", "gr_make_seg failed on the text host font", tag); continue; }
                    std::vector<long long> got(t.size(), -1), want;
                    for (uint32_t c : t) want.push_back(ref_of(ps, c));
                    for (const gr_slot *sl = gr_seg_first_slot(seg); sl; sl = gr_slot_next_in_segment(sl)) { const unsigned o = gr_slot_original(sl); if (o < got.size()) got[o] = gr_slot_gid(sl); }
                    if (got != want) {
                        vj::W w; std::vector<long long> cps(t.begin(), t.end());
                        w.arr("cps", cps).arr("got", got).arr("want", want).b("cached", cached != 0).i("enc", enc).str("case", tag).str("cmap_hex", (*v)["cmap_hex"].s);
                        report_fail("C13", "the characters of a text did not get the glyphs the cmap assigns them", w.done());
                    }
                    gr_seg_destroy(seg);
                }
                gr_face_destroy(tface);
            }
        }
    }
    fclose(f);
    vj::W w; w.i("lookups", lookups).i("faces", faces);
    report_summary(w.done().c_str());
    return 0;
}
