// C20: replay of spec/Tags.tla cases into gr_str_to_tag / gr_tag_to_str and the tag-taking entry points.
#include "common.hpp"
#include "registry.hpp"
#include <random>

using namespace grv;

namespace {
struct Cls { int lo, hi; };
const Cls SC[] = {{1,31},{32,32},{33,127},{128,255}};
const Cls *cls_of(int b) { for (auto &c : SC) if (b >= c.lo && b <= c.hi) return &c; return 0; }
GuardPool pool;
long g_calls = 0;

void str_case(const std::vector<long long> &s, const std::vector<long long> &src, const std::string &line) {
    Guarded &g = pool.get(s.size() + 1);           // ends exactly at the terminator
    for (size_t i = 0; i < s.size(); ++i) g.data()[i] = uint8_t(s[i]);
    g.data()[s.size()] = 0;
    ++g_calls;
    gr_uint32 t = gr_str_to_tag((const char *)g.data());
    gr_uint32 want = 0;
    for (int k = 0; k < 4; ++k) want = (want << 8) | (src[k] ? gr_uint32(s[src[k] - 1]) & 0xFF : 0);
    if (t != want) {
        char b[160]; snprintf(b, sizeof b, "gr_str_to_tag returned 0x%08X, contract says 0x%08X", t, want);
        vj::W w; w.arr("str", s).raw("spec", line);
        report_fail("C20", b, w.done());
    }
}

void expand(const std::vector<long long> &canon, size_t pos, std::vector<long long> &cur, const std::vector<long long> &src, const std::string &line) {
    if (pos == canon.size()) { str_case(cur, src, line); return; }
    const Cls *c = cls_of(int(canon[pos]));
    for (int v = c->lo; v <= c->hi; ++v) { cur[pos] = v; expand(canon, pos + 1, cur, src, line); }
}
}

// grv tags <cases.ndjson> <expandLen> <seed> <font>...
GRV_CMD(tags) {
    if (argc < 3) return 2;
    FILE *f = fopen(argv[0], "r"); if (!f) { perror(argv[0]); return 2; }
    const size_t expandLen = atoi(argv[1]);
    std::mt19937 rng(atoi(argv[2]));
    std::string line; long tagcases = 0, padprobes = 0;
    std::vector<std::vector<long long>> tags;
    while (vj::readline(f, line)) {
        if (line.empty()) continue;
        vj::P v = vj::parse(line);
        ++g_cases;
        set_case("tags line=%ld %s", g_cases, line.substr(0, 200).c_str());
        std::vector<long long> val = (*v)["val"].ints();
        if ((*v)["kind"].s == "str") {
            std::vector<long long> src = (*v)["src"].ints();
            str_case(val, src, line);
            bool canon = !val.empty() && val.size() <= expandLen;
            for (size_t i = 0; i < val.size() && canon; ++i) canon = cls_of(int(val[i]))->lo == val[i];
            if (canon) { std::vector<long long> cur = val; expand(val, 0, cur, src, line); }
        } else {
            ++tagcases; tags.push_back(val);
            gr_uint32 t = (gr_uint32(val[0]) << 24) | (gr_uint32(val[1]) << 16) | (gr_uint32(val[2]) << 8) | gr_uint32(val[3]);
            // (a) exact 4-byte buffer ending at a guard page: a 5th byte written faults
            Guarded &g = pool.get(4);
            memset(g.data(), 0x5A, 4);
            ++g_calls;
            gr_tag_to_str(t, (char *)g.data());
            bool ok = true;
            for (int k = 0; k < 4; ++k) ok &= g.data()[k] == uint8_t(val[k]);
            if (!ok) report_fail("C20", "gr_tag_to_str did not write the four tag bytes", line);
            // (b) canary bytes after the 4th must be untouched
            Guarded &g2 = pool.get(8);
            memset(g2.data(), 0x5A, 8);
            gr_tag_to_str(t, (char *)g2.data());
            for (int k = 4; k < 8; ++k) if (g2.data()[k] != 0x5A) { report_fail("C20", "gr_tag_to_str wrote beyond the four tag bytes", line); break; }
            // (c) inverse on four-character tags (no NUL byte inside)
            if (val[0] && val[1] && val[2] && val[3]) {
                Guarded &g3 = pool.get(5);
                gr_tag_to_str(t, (char *)g3.data()); g3.data()[4] = 0;
                if (gr_str_to_tag((const char *)g3.data()) != t) report_fail("C20", "gr_str_to_tag(gr_tag_to_str(t)) != t", line);
            }
        }
    }
    fclose(f);
    // random tags: write contract + inverse law
    for (int i = 0; i < 200000; ++i) {
        gr_uint32 t = rng();
        set_case("tags random tag 0x%08X", t);
        Guarded &g = pool.get(4);
        gr_tag_to_str(t, (char *)g.data());
        gr_uint32 back = (gr_uint32(g.data()[0]) << 24) | (gr_uint32(g.data()[1]) << 16) | (gr_uint32(g.data()[2]) << 8) | g.data()[3];
        ++g_calls;
        if (back != t) { vj::W w; w.i("tag", t); report_fail("C20", "gr_tag_to_str bytes are not the big-endian tag", w.done()); }
    }
    // tag-taking entry points: zero- and space-padded forms select the same thing
    for (int i = 3; i < argc; ++i) {
        gr_face *face = gr_make_file_face(argv[i], gr_face_default);
        if (!face) { fprintf(stderr, "cannot load %s\n", argv[i]); return 2; }
        std::vector<gr_uint32> langs, feats;
        for (unsigned k = 0; k < gr_face_n_languages(face); ++k) langs.push_back(gr_face_lang_by_index(face, gr_uint16(k)));
        for (unsigned k = 0; k < gr_face_n_fref(face); ++k) feats.push_back(gr_fref_id(gr_face_fref(face, gr_uint16(k))));
        auto spacepad = [](gr_uint32 t) { for (int sh = 0; sh < 32; sh += 8) { if (((t >> sh) & 0xFF) == 0) t |= 0x20u << sh; else break; } return t; };
        for (gr_uint32 l : langs) {
            set_case("tags lang 0x%08X font=%s", l, argv[i]);
            gr_feature_val *a = gr_face_featureval_for_lang(face, l), *b = gr_face_featureval_for_lang(face, spacepad(l));
            for (unsigned k = 0; k < gr_face_n_fref(face); ++k) {
                const gr_feature_ref *r = gr_face_fref(face, gr_uint16(k));
                if (gr_fref_feature_value(r, a) != gr_fref_feature_value(r, b)) { vj::W w; w.i("lang", l).str("font", argv[i]); report_fail("C20", "space-padded and zero-padded language tags select different feature values", w.done()); break; }
            }
            gr_featureval_destroy(a); gr_featureval_destroy(b); ++padprobes;
        }
        for (gr_uint32 id : feats) {
            set_case("tags feat 0x%08X font=%s", id, argv[i]);
            if ((id & 0xFF) == 0 && id > 0xFFFF) {     // a tag-like id with trailing zero bytes
                if (gr_face_find_fref(face, id) != gr_face_find_fref(face, spacepad(id))) { vj::W w; w.i("feat", id).str("font", argv[i]); report_fail("C20", "space-padded feature id does not select the same feature", w.done()); }
                ++padprobes;
            }
            if (!gr_face_find_fref(face, id)) { vj::W w; w.i("feat", id); report_fail("C20", "find_fref does not find a listed feature id", w.done()); }
        }
        // tags the font does not have, short ones in both paddings and both orders, after a successful lookup:
        // the two forms must select the same thing (nothing), whatever was asked before
        {
            const gr_uint32 absent[] = {0x7A7A3900u /*zz9*/, 0x71710000u /*qq*/, 0x78000000u /*x*/, 0x7A7A3921u /*zz9!*/};
            for (gr_uint32 t : absent) {
                if (gr_face_find_fref(face, t) || gr_face_find_fref(face, spacepad(t))) continue;       // the font has it after all
                for (int order = 0; order < 2; ++order) {
                    set_case("tags absent feat 0x%08X order=%d font=%s", t, order, argv[i]);
                    if (!feats.empty()) gr_face_find_fref(face, feats[order % feats.size()]);
                    const gr_feature_ref *r1 = gr_face_find_fref(face, order ? t : spacepad(t));
                    const gr_feature_ref *r2 = gr_face_find_fref(face, order ? spacepad(t) : t);
                    if (r1 != r2 || r1) { vj::W w; w.i("feat", t).i("order", order).str("font", argv[i]); report_fail("C20", "space-padded and zero-padded forms of a feature tag the font does not have select different things", w.done()); }
                    ++padprobes;
                }
                for (int order = 0; order < 2; ++order) {
                    gr_feature_val *a = gr_face_featureval_for_lang(face, order ? t : spacepad(t)), *b = gr_face_featureval_for_lang(face, order ? spacepad(t) : t);
                    for (unsigned k = 0; k < gr_face_n_fref(face); ++k) {
                        const gr_feature_ref *r = gr_face_fref(face, gr_uint16(k));
                        if (gr_fref_feature_value(r, a) != gr_fref_feature_value(r, b)) { vj::W w; w.i("lang", t).str("font", argv[i]); report_fail("C20", "space-padded and zero-padded forms of an unknown language tag select different feature values", w.done()); break; }
                    }
                    gr_featureval_destroy(a); gr_featureval_destroy(b); ++padprobes;
                }
            }
        }
        // script tags on gr_make_seg: same segment for zero-/space-padded script
        const gr_uint32 scripts[] = {0, 0x6C61746Eu /*latn*/, 0x6D796D00u, 0x61720000u, 0x7A000000u};
        const char *txt = "abc \xE1\x80\x80\xE1\x80\xB1 test";
        for (gr_uint32 sc : scripts) {
            set_case("tags script 0x%08X font=%s", sc, argv[i]);
            GRV_WATCHDOG;
            gr_segment *s1 = gr_make_seg(0, face, sc, 0, gr_utf8, txt, strlen(txt), 0);
            GRV_WATCHDOG;
            gr_segment *s2 = gr_make_seg(0, face, spacepad(sc), 0, gr_utf8, txt, strlen(txt), 0);
            if (dump(project(s1, face, 0, true)) != dump(project(s2, face, 0, true))) { vj::W w; w.i("script", sc).str("font", argv[i]); report_fail("C20", "space-padded and zero-padded script tags give different segments", w.done()); }
            if (s1) gr_seg_destroy(s1);
            if (s2) gr_seg_destroy(s2);
            ++padprobes;
        }
        gr_face_destroy(face);
    }
    vj::W w; w.i("calls", g_calls).i("tag_cases", tagcases).i("pad_probes", padprobes);
    report_summary(w.done().c_str());
    return 0;
}
