// Generic corpus shaper: jobs (font, text file or code points, direction, face options, ppm) -> per-segment dump hashes.
// Every segment is also passed through the structural projection (C03/C04/C05), so all corpus-driven checks evaluate those.
#include "common.hpp"
#include "registry.hpp"
#include <fstream>
#include <algorithm>
#include <cmath>
#include "tableface.hpp"

#include "inc/Verif.h"

using namespace grv;

namespace {
// cursor bookkeeping events of the rule loop (hook events 3 = before, 4 = after), one NDJSON line per iteration
FILE *g_ctl = 0; long g_ctl_left = 0; long g_c3[4];
void ctl_sink(int ev, long a, long b, long c, long d) {
    if (!g_ctl || g_ctl_left <= 0) return;
    if (ev == 3) { g_c3[0] = a; g_c3[1] = b; g_c3[2] = c; g_c3[3] = d; }
    else if (ev == 4) { fprintf(g_ctl, "{\"s\":%ld,\"hw\":%ld,\"hp\":%ld,\"lc\":%ld,\"n\":%ld,\"s2\":%ld,\"hw2\":%ld,\"lc2\":%ld,\"ml\":%ld}\n", g_c3[0], g_c3[1], g_c3[2] & 1, g_c3[2] >> 1, g_c3[3], a, b, c, d); --g_ctl_left; }
}
}

namespace {
// advance callback of a "hinted" font: a value that depends on the glyph id only
float hinted_advance(const void *, gr_uint16 gid) { return 3.0f + float(gid % 53) * 0.4375f; }
const gr_font_ops hinted_ops = { sizeof(gr_font_ops), hinted_advance, 0 };
gr_font *make_font(double ppm, const gr_face *face, int hinted) {
    if (!(ppm > 0)) return 0;
    if (hinted == 1) return gr_make_font_with_ops(float(ppm), &hinted_ops, &hinted_ops, face);
    if (hinted == 2) return gr_make_font_with_advance_fn(float(ppm), &hinted_ops, hinted_advance, face);
    return gr_make_font(float(ppm), face);
}
}

static uint64_t fnv(const std::string &s) { uint64_t h = 1469598103934665603ULL; for (unsigned char c : s) { h ^= c; h *= 1099511628211ULL; } return h; }

// grv shape <jobs.ndjson> [full]
//  job: {"font":path,"file":path|null,"cps":[..]|null,"dir":int,"opts":int,"ppm":float,"maxlines":int,"chunk":int,"id":str}
GRV_CMD(shape) {
    if (argc < 1) return 2;
    const bool full = argc > 1 && !strcmp(argv[1], "full");
    // grv shape <jobs> ctl <file> <max events>: additionally record the rule loop's cursor bookkeeping
    if (argc > 3 && !strcmp(argv[1], "ctl")) { g_ctl = fopen(argv[2], "w"); g_ctl_left = atol(argv[3]); g_rule_sink = ctl_sink; graphite2::verif_rule_events = 1; }
    FILE *f = fopen(argv[0], "r"); if (!f) { perror(argv[0]); return 2; }
    std::string line; long segs = 0, nulls = 0;
    while (vj::readline(f, line)) {
        if (line.empty()) continue;
        vj::P j = vj::parse(line);
        const std::string font = (*j)["font"].s, id = j->has("id") ? (*j)["id"].s : font;
        const int dir = int(j->get("dir", 0)), opts = int(j->get("opts", 0));
        const double ppm = j->has("ppm") ? (*j)["ppm"].dbl() : 0;
        const long maxlines = j->get("maxlines", 1000000), chunk = j->get("chunk", 0);
        set_case("shape load %s", font.c_str());
        TableFace tfc;
        const bool viaops = j->has("src") && (*j)["src"].s == "ops";
        if (viaops && !tfc.load(font)) { fprintf(stderr, "cannot read %s\n", font.c_str()); return 2; }
        gr_face *face = viaops ? tfc.make(opts) : gr_make_file_face(font.c_str(), opts);
        if (j->has("noload")) {      // the job states that this font must be refused
            if (face) { vj::W w; w.str("font", font).str("id", id); report_fail((*j)["noload"].s.c_str(), "a font that must be refused was loaded", w.done()); gr_face_destroy(face); }
            ++g_cases; continue;
        }
        if (!face) { vj::W w; w.str("font", font).str("id", id); report_fail(j->has("prop") ? (*j)["prop"].s.c_str() : "*", "font failed to load", w.done()); continue; }
        const int hinted = int(j->get("hinted", 0));      // 1: gr_make_font_with_ops, 2: gr_make_font_with_advance_fn
        gr_font *gf = make_font(ppm, face, hinted);
        std::vector<std::vector<uint32_t>> texts;
        if (j->has("cps") && (*j)["cps"].kind == vj::Value::Arr) {
            std::vector<uint32_t> t; for (auto &x : (*j)["cps"].a) t.push_back(uint32_t(x->num())); texts.push_back(t);
        } else {
            std::ifstream in((*j)["file"].s);
            std::string l;
            while (std::getline(in, l) && long(texts.size()) < maxlines) {
                // decode UTF-8 leniently into code points
                std::vector<uint32_t> t;
                for (size_t i = 0; i < l.size();) {
                    unsigned char c = l[i]; uint32_t u = c; int n = 1;
                    if (c >= 0xF0 && i + 3 < l.size()) { u = ((c & 7) << 18) | ((l[i+1] & 63) << 12) | ((l[i+2] & 63) << 6) | (l[i+3] & 63); n = 4; }
                    else if (c >= 0xE0 && i + 2 < l.size()) { u = ((c & 15) << 12) | ((l[i+1] & 63) << 6) | (l[i+2] & 63); n = 3; }
                    else if (c >= 0xC0 && i + 1 < l.size()) { u = ((c & 31) << 6) | (l[i+1] & 63); n = 2; }
                    i += n; if (u && u != 0xFEFF && u != '\r') t.push_back(u);
                }
                if (t.empty()) continue;
                if (chunk > 0) for (size_t k = 0; k < t.size(); k += chunk) texts.push_back(std::vector<uint32_t>(t.begin() + k, t.begin() + std::min(t.size(), k + size_t(chunk))));
                else texts.push_back(t);
            }
        }
        const bool fresh = j->get("fresh", 0) != 0;      // a new face for every text (cold reference)
        if (j->get("reverse", 0)) std::reverse(texts.begin(), texts.end());
        long k = 0;
        for (auto &t : texts) {
            if (fresh) { if (gf) gr_font_destroy(gf); gr_face_destroy(face); face = viaops ? tfc.make(opts) : gr_make_file_face(font.c_str(), opts); gf = make_font(ppm, face, hinted); }
            set_case("shape %s seg=%ld opts=%d dir=%d ppm=%g", id.c_str(), k, opts, dir, ppm);
            GRV_WATCHDOG;
            // "feats": [[feature id, value], ...] on top of the font's defaults
            gr_feature_val *jfv = 0;
            if (j->has("feats")) { jfv = gr_face_featureval_for_lang(face, 0);
                for (auto &fp : (*j)["feats"].a) { const gr_feature_ref *fr = gr_face_find_fref(face, gr_uint32((*fp)[size_t(0)].num())); if (fr && jfv) gr_fref_set_feature_value(fr, gr_uint16((*fp)[1].num()), jfv); } }
            gr_segment *seg = gr_make_seg(gf, face, 0, jfv, gr_utf32, t.data(), t.size(), dir);
            if (jfv) gr_featureval_destroy(jfv);
            ++segs; ++g_cases;
            // "justify": the whole segment is justified to one and a half times its width before it is looked at
            if (seg && j->get("justify", 0) && gr_seg_first_slot(seg)) { GRV_WATCHDOG; gr_seg_justify(seg, gr_seg_first_slot(seg), gf, 1.5 * std::fabs(double(gr_seg_advance_X(seg))) + 10.0, gr_justCompleteLine, 0, 0); }
            // "nogid": the font's cmap names glyph ids the font does not have (outside the glyph-id clause of C03)
            SegP p = project(seg, face, gf, j->get("nogid", 0) == 0);
            if (!seg) ++nulls;
            if (!p.wf.empty()) { vj::W w; w.str("id", id).i("seg", k).i("dir", dir).i("opts", opts); std::vector<long long> cp(t.begin(), t.end()); w.arr("cps", cp); report_fail(p.wfprop.c_str(), p.wf, w.done()); }
            if (seg && p.nslots > 64 * std::max<size_t>(t.size(), 1)) { vj::W w; w.str("id", id).i("seg", k); report_fail("C02", "more than 64 slots per input character", w.done()); }
            std::string d = dump(p);
            vj::W w; w.str("id", id).i("seg", k).str("h", std::to_string(fnv(d))).i("n", p.nslots);
            if (full) w.str("dump", d);
            printf("%s\n", w.done().c_str());
            if (seg) gr_seg_destroy(seg);
            ++k;
        }
        if (gf) gr_font_destroy(gf);
        gr_face_destroy(face);
        // a face served through the table callbacks gives back exactly the buffers it was handed, each once
        if (viaops && (tfc.unknownRel || tfc.doubleRel || tfc.outstanding())) {
            vj::W w; w.str("font", font).str("id", id).i("unknown_releases", tfc.unknownRel).i("double_releases", tfc.doubleRel).i("not_released", (long long)tfc.outstanding());
            report_fail(j->has("prop") ? (*j)["prop"].s.c_str() : "*", "release_table was called with a pointer get_table never returned, twice for one buffer, or not at all", w.done());
        }
    }
    fclose(f);
    vj::W w; w.i("segments", segs).i("null", nulls);
    if (g_ctl) { fclose(g_ctl); g_ctl = 0; g_rule_sink = 0; graphite2::verif_rule_events = 0; }
    report_summary(w.done().c_str());
    return 0;
}
