// C17 (collider clauses): records every collision-fixing step of the real pipeline (hook events 10..14 of
// Pass::resolveCollisions / resolveKern / collisionFinish) as NDJSON for validation against spec/Collide.tla,
// and evaluates the same post-conditions natively (double arithmetic) as a cross-check of the TLC verdict.
#include "common.hpp"
#include "registry.hpp"
#include "tableface.hpp"
#include "inc/Main.h"
#include "inc/Face.h"
#include "inc/GlyphCache.h"
#include "inc/Verif.h"

using namespace grv;
using namespace graphite2;

namespace {

struct Oct { double xi, xa, yi, ya, si, sa, di, da; };

Oct at(const BBox &b, const SlantBox &s, double px, double py) {
    return Oct{b.xi + px, b.xa + px, b.yi + py, b.ya + py, s.si + px + py, s.sa + px + py, s.di + px - py, s.da + px - py};
}
Oct meet(const Oct &a, const Oct &b) {
    return Oct{std::max(a.xi, b.xi), std::min(a.xa, b.xa), std::max(a.yi, b.yi), std::min(a.ya, b.ya),
               std::max(a.si, b.si), std::min(a.sa, b.sa), std::max(a.di, b.di), std::min(a.da, b.da)};
}
// tight support values of the intersection of the eight half planes (same formulas as Tighten in Collide.tla)
Oct tighten(const Oct &o) {
    Oct t;
    t.xa = std::min(std::min(o.xa, (o.sa + o.da) / 2), std::min(o.sa - o.yi, o.da + o.ya));
    t.xi = std::max(std::max(o.xi, (o.si + o.di) / 2), std::max(o.si - o.ya, o.di + o.yi));
    t.ya = std::min(std::min(o.ya, (o.sa - o.di) / 2), std::min(o.sa - o.xi, o.xa - o.di));
    t.yi = std::max(std::max(o.yi, (o.si - o.da) / 2), std::max(o.si - o.xa, o.xi - o.da));
    t.sa = std::min(std::min(o.sa, o.xa + o.ya), std::min(2 * o.xa - o.di, 2 * o.ya + o.da));
    t.si = std::max(std::max(o.si, o.xi + o.yi), std::max(2 * o.xi - o.da, 2 * o.yi + o.di));
    t.da = std::min(std::min(o.da, o.xa - o.yi), std::min(2 * o.xa - o.si, o.sa - 2 * o.yi));
    t.di = std::max(std::max(o.di, o.xi - o.ya), std::max(2 * o.xi - o.sa, o.si - 2 * o.ya));
    return t;
}
bool overlaps(const Oct &a, const Oct &b, double tol) {
    Oct m = meet(a, b);
    for (int k = 0; k < 3; ++k) m = tighten(m);
    return m.xa - m.xi > tol && m.ya - m.yi > tol && m.sa - m.si > 2 * tol && m.da - m.di > 2 * tol;
}

struct Mx { int axis; float vmin, vmax; };
struct Nb { int gid; float ox, oy, sx, sy; bool same; std::vector<Mx> mx; };
struct Rec {
    FILE *out = 0; const GlyphCache *gc = 0; long caseNo = 0; std::string id;
    bool open = false; float b[15]; std::vector<Nb> nb;
    long fixes = 0, resolved = 0, stillcol = 0, notcalled = 0, kerns = 0, folds = 0, pairs = 0, skippedbig = 0;
    long native_bad = 0, outreach = 0, ltr_asym = 0; std::string native_why;
} R;

const double S = 16.0;
long sc(double v) { return std::lround(v * S); }
bool small(double v) { return std::fabs(v) < 60000.0; }      // keeps every scaled sum inside TLC's 32-bit integers

void box8(std::string &o, const BBox &b, const SlantBox &s, double px, double py) {
    char buf[200];
    snprintf(buf, sizeof buf, "[%ld,%ld,%ld,%ld,%ld,%ld,%ld,%ld]", sc(b.xi + px), sc(b.xa + px), sc(b.yi + py), sc(b.ya + py),
             sc(s.si + px + py), sc(s.sa + px + py), sc(s.di + px - py), sc(s.da + px - py));
    o += buf;
}

void fsink(int ev, int n, const float *v) {
    if (!R.out) return;
    if (ev == 10 && n >= 15) { memcpy(R.b, v, sizeof R.b); R.nb.clear(); R.open = true; return; }
    if (ev == 11 && n >= 6 && R.open) { R.nb.push_back(Nb{int(v[0]), v[1], v[2], v[3], v[4], v[5] != 0, {}}); return; }
    // per-axis overlap range of the bounding octabox of the neighbour just handed over (not of an exclusion glyph)
    if (ev == 15 && n >= 8 && R.open && !R.nb.empty() && v[7] == 0 && std::fabs(v[1]) < 60000 && std::fabs(v[2]) < 60000) { R.nb.back().mx.push_back(Mx{int(v[0]), v[1], v[2]}); return; }
    if (ev == 12 && n >= 5 && R.open) {
        R.open = false; ++R.fixes;
        const float *b = R.b;
        const int gid = int(b[0]); const double ox = b[1], oy = b[2];
        const bool called = v[0] != 0, col = v[3] != 0, stored = v[4] != 0;
        if (!called) ++R.notcalled; else if (col) ++R.stillcol; else ++R.resolved;
        bool ok = small(b[3]) && small(b[4]) && small(b[5]) && small(b[6]) && small(b[9]) && small(b[10]) && small(b[11]) && small(b[12]) && small(v[1]) && small(v[2]);
        for (auto &q : R.nb) ok &= small(q.ox - ox) && small(q.oy - oy) && small(q.sx) && small(q.sy);
        if (!ok || !R.gc->check(gid)) { ++R.skippedbig; return; }
        std::string o; char buf[400];
        snprintf(buf, sizeof buf, "{\"e\":\"Fix\",\"c\":%ld,\"g\":%d,\"lim\":[%ld,%ld,%ld,%ld],\"s0\":[%ld,%ld],\"o0\":[%ld,%ld],\"s1\":[%ld,%ld],\"called\":%s,\"col\":%s,\"stored\":%s,\"rtl\":%s,\"rev\":%s,\"tb\":",
                 R.caseNo, gid, sc(b[3]), sc(b[4]), sc(b[5]), sc(b[6]), sc(b[9]), sc(b[10]), sc(b[11]), sc(b[12]), sc(v[1]), sc(v[2]),
                 called ? "true" : "false", col ? "true" : "false", stored ? "true" : "false", (int(b[13]) & 1) ? "true" : "false", b[14] != 0 ? "true" : "false");
        o = buf;
        // the target's octabox relative to its own origin (the shift is applied by the spec)
        box8(o, R.gc->getBoundingBBox(gid), R.gc->getBoundingSlantBox(gid), 0, 0);
        o += ",\"nb\":[";
        bool first = true;
        const Oct tgt = at(R.gc->getBoundingBBox(gid), R.gc->getBoundingSlantBox(gid), v[1], v[2]);
        const double lx0 = b[3], ly0 = b[4], lx1 = b[5], ly1 = b[6];
        const bool wellformed = lx0 <= lx1 && ly0 <= ly1;
        for (auto &q : R.nb) {
            if (!R.gc->check(q.gid)) continue;
            const double px = q.ox - ox + q.sx, py = q.oy - oy + q.sy;
            if (!first) o += ","; first = false;
            o += "{\"g\":" + std::to_string(q.gid) + ",\"bb\":";
            box8(o, R.gc->getBoundingBBox(q.gid), R.gc->getBoundingSlantBox(q.gid), px, py);
            o += ",\"sub\":[";
            const int ns = R.gc->numSubBounds(q.gid);
            for (int j = 0; j < ns; ++j) { if (j) o += ","; box8(o, R.gc->getSubBoundingBBox(q.gid, j), R.gc->getSubBoundingSlantBox(q.gid, j), px, py); }
            o += "],\"mx\":[";
            for (size_t j = 0; j < q.mx.size(); ++j) { char mb[96]; snprintf(mb, sizeof mb, "%s[%d,%ld,%ld]", j ? "," : "", q.mx[j].axis, sc(q.mx[j].vmin), sc(q.mx[j].vmax)); o += mb; }
            o += "]}";
            ++R.pairs;
            // native evaluation of the resolved clause (tolerance 1.5 units), only for the strict reading of "within reach"
            if (called && stored && !col && wellformed) {
                const BBox &nbb = R.gc->getBoundingBBox(q.gid);
                const bool reach = (nbb.xa + px >= lx0 - b[11] && nbb.xi + px <= lx1 - b[11]) || (nbb.ya + py >= ly0 - b[12] && nbb.yi + py <= ly1 - b[12]);
                bool hit = false;
                if (ns == 0) hit = overlaps(tgt, at(nbb, R.gc->getBoundingSlantBox(q.gid), px, py), 1.5);
                else for (int j = 0; j < ns; ++j) hit |= overlaps(tgt, meet(at(R.gc->getSubBoundingBBox(q.gid, j), R.gc->getSubBoundingSlantBox(q.gid, j), px, py), at(nbb, R.gc->getBoundingSlantBox(q.gid), px, py)), 1.5);
                if (hit && !reach) ++R.outreach;
                if (hit && reach && !(int(b[13]) & 1) && lx0 != -lx1) { ++R.ltr_asym; hit = false; }     // outside the property's quantifier
                if (hit && reach) { ++R.native_bad; if (R.native_why.empty()) R.native_why = "case " + R.id + " gid " + std::to_string(gid) + " resolved but overlaps neighbour gid " + std::to_string(q.gid); }
            }
        }
        o += "]}\n";
        fputs(o.c_str(), R.out);
        return;
    }
    if (ev == 13 && n >= 7) {
        ++R.kerns;
        if (!(small(v[1]) && small(v[2]) && small(v[3]) && small(v[4]) && small(v[5]))) { ++R.skippedbig; return; }
        fprintf(R.out, "{\"e\":\"Kern\",\"c\":%ld,\"g\":%d,\"lim\":[%ld,%ld],\"o0\":%ld,\"s0\":%ld,\"s1\":%ld,\"rtl\":%s}\n", R.caseNo, int(v[0]), sc(v[1]), sc(v[2]), sc(v[3]), sc(v[4]), sc(v[5]), (int(v[6]) & 1) ? "true" : "false");
        return;
    }
    if (ev == 14 && n >= 7) {
        ++R.folds;
        bool ok = true; for (int i = 1; i < 7; ++i) ok &= small(v[i]);
        if (!ok) { ++R.skippedbig; return; }
        fprintf(R.out, "{\"e\":\"Fold\",\"c\":%ld,\"g\":%d,\"s\":[%ld,%ld],\"o0\":[%ld,%ld],\"o1\":[%ld,%ld]}\n", R.caseNo, int(v[0]), sc(v[1]), sc(v[2]), sc(v[3]), sc(v[4]), sc(v[5]), sc(v[6]));
        return;
    }
}

} // namespace

// grv collide <cases.ndjson> <trace-out.ndjson>
//   case: {"id":..., "font": path | "font_hex": hex, "cps":[...], "rtl":0|1}
GRV_CMD(collide) {
    if (argc < 2) return 2;
    FILE *f = fopen(argv[0], "r"); if (!f) { perror(argv[0]); return 2; }
    R.out = fopen(argv[1], "w"); if (!R.out) { perror(argv[1]); return 2; }
    graphite2::verif_fsink = fsink;
    std::string line; long segs = 0, nullsegs = 0, loadfail = 0;
    std::string lastfont; gr_face *face = 0; TableFace *tf = 0;
    while (vj::readline(f, line)) {
        if (line.empty()) continue;
        vj::P v = vj::parse(line);
        ++g_cases; R.caseNo = g_cases;
        R.id = v->has("id") ? (*v)["id"].s : std::to_string(g_cases);
        set_case("collide case=%s", R.id.c_str());
        const std::string key = (v->has("font") ? (*v)["font"].s : (*v)["font_hex"].s) + "#" + std::to_string(int(v->get("opts", 0)));
        if (key != lastfont) {
            if (face) gr_face_destroy(face); delete tf; face = 0; tf = new TableFace; lastfont = key;
            bool ok;
            if (v->has("font")) ok = tf->load((*v)["font"].s); else { std::vector<uint8_t> b = unhex((*v)["font_hex"].s); ok = tf->load_mem(std::string((const char *)b.data(), b.size())); }
            if (!ok) { fprintf(stderr, "bad font\n"); return 2; }
            face = tf->make(unsigned(v->get("opts", 0)));
            if (!face) ++loadfail;
        }
        if (!face) { vj::W w; w.str("id", R.id); report_fail("none", "collision font did not load", w.done()); continue; }
        R.gc = &static_cast<const Face *>(face)->glyphs();
        std::vector<uint32_t> cps; for (auto &g : (*v)["cps"].a) cps.push_back(uint32_t(g->num()));
        fprintf(R.out, "{\"e\":\"Case\",\"c\":%ld}\n", R.caseNo);
        R.open = false;
        gr_segment *seg;
        { GRV_WATCHDOG; seg = gr_make_seg(0, face, 0, 0, gr_utf32, cps.data(), cps.size(), int(v->get("rtl", 0))); }
        ++segs;
        if (!seg) { ++nullsegs; continue; }
        SegP p = project(seg, face, 0, true);
        if (!p.wf.empty()) { vj::W w; w.str("id", R.id); report_fail(p.wfprop.c_str(), p.wf, w.done()); }
        gr_seg_destroy(seg);
    }
    if (face) gr_face_destroy(face); delete tf;
    fclose(f); fclose(R.out); R.out = 0;
    if (R.native_bad) ++g_drift;     // the native evaluation is a cross-check only: the verdict is TLC's
    vj::W w; w.i("segments", segs).i("null_segments", nullsegs).i("load_failures", loadfail).i("fixes", R.fixes).i("resolved", R.resolved)
        .i("still_colliding", R.stillcol).i("no_shift_computed", R.notcalled).i("kerns", R.kerns).i("folds", R.folds).i("neighbour_pairs", R.pairs)
        .i("skipped_out_of_range", R.skippedbig).i("informational_overlaps_with_neighbours_out_of_reach", R.outreach).i("informational_overlaps_ltr_asymmetric_limits", R.ltr_asym).i("native_overlaps", R.native_bad).str("native_first", R.native_why);
    report_summary(w.done().c_str());
    return 0;
}
