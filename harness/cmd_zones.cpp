// C17 (interval set clause): replay of spec/Zones.tla behaviours on the real Zones object.
#include "common.hpp"
#include "registry.hpp"
#include "inc/Intervals.h"

using namespace grv;
using namespace graphite2;

// grv zones <cases.ndjson>
GRV_CMD(zones) {
    if (argc < 1) return 2;
    FILE *f = fopen(argv[0], "r"); if (!f) { perror(argv[0]); return 2; }
    std::string line; long ops = 0;
    while (vj::readline(f, line)) {
        if (line.empty()) continue;
        vj::P v = vj::parse(line);
        ++g_cases;
        set_case("zones line=%ld %s", g_cases, line.substr(0, 300).c_str());
        Zones z;
        float pos = 0, posm = 0;
        std::set<int> removed;      // unit cells (k, k+1) that were excluded
        std::string why;
        float cx = 0, cc = 0; bool closest_called = false;
        for (auto &o : (*v)["hist"].a) {
            const std::string op = (*o)["op"].s;
            const float a = float((*o)["a"].num()), b = float((*o)["b"].num());
            ++ops; closest_called = false;
            if (op == "init") { z.initialise<XY>(a, b, 0, 0, 0); pos = a; posm = b; removed.clear(); }
            else if (op == "remove") { z.exclude(a, b); for (int k = int(std::max(a, pos)); k < int(std::min(b, posm)); ++k) removed.insert(k); }
            else if (op == "insert") z.weighted<XY>(a, b, float((*o)["f"].num()), 0, float((*o)["m"].num()), float((*o)["xi"].num()), 0, 0, false);
            else if (op == "closest") { cx = z.closest(a, cc); closest_called = true; }
            // the invariants of the property, on the real object
            float lastxm = -1e30f;
            for (Zones::const_iterator i = z.begin(); i != z.end() && why.empty(); ++i) {
                if (!(i->x < i->xm)) why = "an empty interval is kept";
                else if (i->x < lastxm) why = "intervals are not sorted / overlap";
                else if (i->x < pos || i->xm > posm) why = "an interval lies outside the bounds";
                else for (int k : removed) if (i->x < k + 1 && k < i->xm) { why = "an interval reaches into an excluded region"; break; }
                lastxm = i->xm;
            }
            if (why.empty() && closest_called && cc >= 0) {
                bool inside = false;
                for (Zones::const_iterator i = z.begin(); i != z.end(); ++i) if (cx >= i->x - 1e-4f && cx <= i->xm + 1e-4f) inside = true;
                if (!inside) why = "closest() offers a position that lies in no free interval";
                for (int k : removed) if (cx > k + 1e-4f && cx < k + 1 - 1e-4f) why = "closest() offers an excluded position";
            }
            if (!why.empty()) break;
        }
        if (!why.empty()) { vj::W w; w.raw("hist", line.substr(line.find("\"hist\":") + 7, line.find("],\"excl\"") + 1 - line.find("\"hist\":") - 7)); report_fail("C17", why, w.done()); continue; }
        // drift: exact state equality with the model
        const vj::Value &me = (*v)["excl"];
        size_t n = 0; bool same = true;
        for (Zones::const_iterator i = z.begin(); i != z.end(); ++i, ++n) {
            if (n >= me.a.size()) { same = false; break; }
            const vj::Value &e = *me.a[n];
            same &= i->x == float(e["x"].num()) && i->xm == float(e["xm"].num()) && i->sm == float(e["sm"].num()) && i->smx == float(e["smx"].num()) && i->c == float(e["c"].num()) && i->open == e["open"].truth();
        }
        if (!same || n != me.a.size()) ++g_drift;
        const vj::Value &lm = (*v)["last"];
        if (closest_called && lm["has"].truth() && cc >= 0) { const double want = double(lm["posn"]["n"].num()) / double(lm["posn"]["d"].num()); if (std::fabs(want - cx) > 1e-3) ++g_drift; }
        else if (closest_called && (lm["has"].truth() != (cc >= 0))) ++g_drift;
    }
    fclose(f);
    vj::W w; w.i("ops", ops);
    report_summary(w.done().c_str());
    return 0;
}
