// C11 (first sentence): replay of the cases explored by spec/Utf.tla into gr_count_unicode_characters.
// Every case is a class string; its declarative facts (wf, trunc, nwf) hold for every concrete string of the
// class product, so canonical cases (all units = class minimum) are expanded to all concrete strings.
#include "common.hpp"
#include "registry.hpp"
#include <random>

using namespace grv;

namespace {

struct Cls { long long lo, hi; };
const Cls C8[] = {{0,0},{1,127},{128,143},{144,159},{160,191},{192,193},{194,223},{224,224},{225,236},{237,237},
                  {238,239},{240,240},{241,243},{244,244},{245,247},{248,255}};
const Cls C16[] = {{0,0},{1,0xD7FF},{0xD800,0xDBFF},{0xDC00,0xDFFF},{0xE000,0xFFFF}};
const Cls C32[] = {{0,0},{1,0xD7FF},{0xD800,0xDFFF},{0xE000,0x10FFFF},{0x110000,0xFFFFFFFFLL}};

const Cls *cls_of(int enc, long long u) {
    const Cls *t = enc == 8 ? C8 : enc == 16 ? C16 : C32;
    size_t n = enc == 8 ? sizeof C8 / sizeof *C8 : 5;
    for (size_t i = 0; i < n; ++i) if (u >= t[i].lo && u <= t[i].hi) return &t[i];
    return 0;
}

struct Case {
    int enc; std::vector<long long> buf; bool endGiven, wf, trunc; long nwf, mcount, merr;
    std::string json;
};

GuardPool pool;
long g_calls = 0;

// One concrete call, checked against the property clauses.
void run_one(const Case &c, const std::vector<long long> &units, bool checkDrift) {
    const int usz = c.enc / 8;
    Guarded &g = pool.get(units.size() * usz);
    uint8_t *p = g.data();
    for (size_t i = 0; i < units.size(); ++i) {
        if (usz == 1) p[i] = uint8_t(units[i]);
        else if (usz == 2) { uint16_t v = uint16_t(units[i]); memcpy(p + 2 * i, &v, 2); }
        else { uint32_t v = uint32_t(units[i]); memcpy(p + 4 * i, &v, 4); }
    }
    const void *err = (const void *)0x1;
    ++g_calls;
    size_t n = gr_count_unicode_characters(gr_encform(usz), p, c.endGiven ? g.end() : 0, &err);
    long erroff = err ? long(((const uint8_t *)err - p) / usz) + 1 : 0;     // 1-based unit index, 0 = none
    {   // pError is optional: the same call without it returns the same count (and reads no more of the buffer)
        const size_t n0 = gr_count_unicode_characters(gr_encform(usz), p, c.endGiven ? g.end() : 0, 0);
        if (n0 != n) { vj::W w; w.i("enc", c.enc).arr("buf", units).b("endGiven", c.endGiven).i("count", (long long)n).i("count_without_perror", (long long)n0);
                       report_fail("C11", "the count depends on whether pError is given", w.done()); }
    }
    // the same call on a copy that starts right behind an inaccessible page: nothing in front of the text is read,
    // and the answer does not depend on where the text lies
    if (units.size() <= 8) {
        static std::map<size_t, Guarded *> &front = *new std::map<size_t, Guarded *>;      // lives until exit
        Guarded *&fg = front[units.size() * usz];
        if (!fg) fg = new Guarded(units.size() * usz, true);
        memcpy(fg->data(), p, units.size() * usz);
        const void *err2 = (const void *)0x1;
        size_t n2 = gr_count_unicode_characters(gr_encform(usz), fg->data(), c.endGiven ? fg->end() : 0, &err2);
        long erroff2 = err2 ? long(((const uint8_t *)err2 - fg->data()) / usz) + 1 : 0;
        if (n2 != n || erroff2 != erroff) {
            vj::W w; w.i("enc", c.enc).arr("buf", units).b("endGiven", c.endGiven).i("count", (long long)n).i("err", erroff).i("count_front", (long long)n2).i("err_front", erroff2);
            report_fail("C11", "the result depends on what lies in front of the text (count/error differ for the same units at another address)", w.done());
        }
    }
    bool inside = err ? ((const uint8_t *)err >= p && (const uint8_t *)err < g.end()) : true;
    std::string why;
    if (c.wf && !c.trunc && !(long(n) == c.nwf && err == 0))
        why = "well-formed text: count=" + std::to_string(n) + " err=" + std::to_string(erroff) + ", expected count=" + std::to_string(c.nwf) + " and no error";
    else if (!c.wf && err == 0)
        why = "ill-formed text but no error reported (count=" + std::to_string(n) + ")";
    else if (err && !inside)
        why = "*pError points outside the buffer";
    else if (err && long(n) > c.nwf)
        why = "error reported but count " + std::to_string(n) + " exceeds the well-formed prefix " + std::to_string(c.nwf);
    if (!why.empty()) {
        static long lastCase = -1; static int perCase = 0;
        if (lastCase != g_cases) { lastCase = g_cases; perCase = 0; }
        if (++perCase > 2) { ++g_fail; return; }
        vj::W w; w.i("enc", c.enc).arr("buf", units).b("endGiven", c.endGiven).i("count", (long long)n).i("err", erroff).raw("spec", c.json);
        report_fail("C11", why, w.done());
    } else if (checkDrift && (long(n) != c.mcount || erroff != c.merr)) ++g_drift;
}

void expand(const Case &c, size_t pos, std::vector<long long> &cur, size_t nfree, std::mt19937 &rng, bool exhaustive) {
    if (pos == nfree) { std::vector<long long> u = cur; if (!c.endGiven) u.push_back(0); run_one(c, u, false); return; }
    const Cls *k = cls_of(c.enc, c.buf[pos]);
    if (exhaustive) {
        for (long long v = k->lo; v <= k->hi; ++v) { cur[pos] = v; expand(c, pos + 1, cur, nfree, rng, exhaustive); }
    } else {
        long long vals[6] = {k->lo, k->hi, 0, 0, 0, 0};
        std::uniform_int_distribution<long long> d(k->lo, k->hi);
        for (int i = 2; i < 6; ++i) vals[i] = d(rng);
        for (long long v : vals) { cur[pos] = v; expand(c, pos + 1, cur, nfree, rng, exhaustive); }
    }
}

} // namespace

// grv utfcount <cases.ndjson> <expand8> <seed>
//   expand8: canonical UTF-8 class strings with at most this many units are expanded exhaustively
GRV_CMD(utfcount) {
    if (argc < 3) return 2;
    FILE *f = fopen(argv[0], "r"); if (!f) { perror(argv[0]); return 2; }
    const size_t expand8 = atoi(argv[1]);
    std::mt19937 rng(atoi(argv[2]));
    std::string line; long expanded = 0;
    while (vj::readline(f, line)) {
        if (line.empty()) continue;
        vj::P v = vj::parse(line);
        Case c; c.enc = int((*v)["enc"].num()); c.buf = (*v)["buf"].ints();
        c.endGiven = (*v)["endGiven"].truth(); c.wf = (*v)["wf"].truth(); c.trunc = (*v)["trunc"].truth();
        c.nwf = long((*v)["nwf"].num()); c.mcount = long((*v)["mcount"].num()); c.merr = long((*v)["merr"].num());
        c.json = line;
        ++g_cases;
        set_case("utfcount line=%ld %s", g_cases, line.substr(0, 300).c_str());
        run_one(c, c.buf, true);
        // canonical class string?
        const size_t nfree = c.endGiven ? c.buf.size() : c.buf.size() - 1;
        bool canon = nfree > 0;
        for (size_t i = 0; i < nfree && canon; ++i) { const Cls *k = cls_of(c.enc, c.buf[i]); canon = k && k->lo == c.buf[i]; }
        if (!canon) continue;
        std::vector<long long> cur(c.buf.begin(), c.buf.begin() + nfree);
        if (c.enc == 8 && nfree <= expand8) { expand(c, 0, cur, nfree, rng, true); ++expanded; }
        else if (c.enc == 16 && nfree == 1) { expand(c, 0, cur, nfree, rng, true); ++expanded; }
        else if (nfree <= 3) { expand(c, 0, cur, nfree, rng, false); ++expanded; }
    }
    fclose(f);
    vj::W w; w.i("calls", g_calls).i("expanded_class_strings", expanded);
    report_summary(w.done().c_str());
    return 0;
}
