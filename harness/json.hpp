// Minimal JSON value + parser + writer for the verification harness (no external deps).
#pragma once
#include <cstdio>
#include <cstdlib>
#include <cstring>
#include <map>
#include <memory>
#include <string>
#include <vector>
#include <stdexcept>

namespace vj {

struct Value;
typedef std::shared_ptr<Value> P;

struct Value {
    enum Kind { Null, Bool, Int, Dbl, Str, Arr, Obj } kind = Null;
    bool b = false;
    long long i = 0;
    double d = 0;
    std::string s;
    std::vector<P> a;
    std::vector<std::pair<std::string, P>> o;

    bool has(const char *k) const { for (auto &kv : o) if (kv.first == k) return true; return false; }
    const Value & operator[](const char *k) const {
        for (auto &kv : o) if (kv.first == k) return *kv.second;
        throw std::runtime_error(std::string("missing key ") + k);
    }
    const Value & operator[](size_t n) const { return *a.at(n); }
    size_t size() const { return kind == Arr ? a.size() : o.size(); }
    long long num() const { return kind == Dbl ? (long long)d : kind == Bool ? (long long)b : i; }
    double dbl() const { return kind == Dbl ? d : (double)i; }
    bool truth() const { return kind == Bool ? b : kind == Int ? i != 0 : kind != Null; }
    long long get(const char *k, long long dflt) const { return has(k) ? (*this)[k].num() : dflt; }
    std::vector<long long> ints() const { std::vector<long long> r; for (auto &x : a) r.push_back(x->num()); return r; }
};

struct Parser {
    const char *p, *e;
    Parser(const char *s, size_t n) : p(s), e(s + n) {}
    void ws() { while (p < e && (*p == ' ' || *p == '\t' || *p == '\n' || *p == '\r')) ++p; }
    [[noreturn]] void fail(const char *m) { throw std::runtime_error(std::string("json: ") + m); }
    P parse() {
        ws();
        if (p >= e) fail("eof");
        P v = std::make_shared<Value>();
        char c = *p;
        if (c == '{') {
            v->kind = Value::Obj; ++p; ws();
            if (p < e && *p == '}') { ++p; return v; }
            for (;;) {
                ws(); if (p >= e || *p != '"') fail("key");
                std::string k = str(); ws();
                if (p >= e || *p != ':') fail("colon");
                ++p;
                v->o.emplace_back(k, parse()); ws();
                if (p < e && *p == ',') { ++p; continue; }
                if (p < e && *p == '}') { ++p; break; }
                fail("obj");
            }
        } else if (c == '[') {
            v->kind = Value::Arr; ++p; ws();
            if (p < e && *p == ']') { ++p; return v; }
            for (;;) {
                v->a.push_back(parse()); ws();
                if (p < e && *p == ',') { ++p; continue; }
                if (p < e && *p == ']') { ++p; break; }
                fail("arr");
            }
        } else if (c == '"') {
            v->kind = Value::Str; v->s = str();
        } else if (c == 't' && e - p >= 4 && !strncmp(p, "true", 4)) { v->kind = Value::Bool; v->b = true; p += 4; }
        else if (c == 'f' && e - p >= 5 && !strncmp(p, "false", 5)) { v->kind = Value::Bool; v->b = false; p += 5; }
        else if (c == 'n' && e - p >= 4 && !strncmp(p, "null", 4)) { p += 4; }
        else {
            const char *s = p; bool isd = false;
            if (p < e && (*p == '-' || *p == '+')) ++p;
            while (p < e && ((*p >= '0' && *p <= '9') || *p == '.' || *p == 'e' || *p == 'E' || *p == '-' || *p == '+')) {
                if (*p == '.' || *p == 'e' || *p == 'E') isd = true;
                ++p;
            }
            if (s == p) fail("value");
            std::string t(s, p);
            if (isd) { v->kind = Value::Dbl; v->d = strtod(t.c_str(), 0); }
            else { v->kind = Value::Int; v->i = strtoll(t.c_str(), 0, 10); }
        }
        return v;
    }
    std::string str() {
        std::string r; ++p;
        while (p < e && *p != '"') {
            if (*p == '\\' && p + 1 < e) {
                ++p;
                switch (*p) {
                case 'n': r += '\n'; break; case 't': r += '\t'; break; case 'r': r += '\r'; break;
                case 'b': r += '\b'; break; case 'f': r += '\f'; break;
                case 'u': { unsigned u = 0; if (e - p >= 5) { u = strtoul(std::string(p + 1, p + 5).c_str(), 0, 16); p += 4; }
                            if (u < 0x80) r += char(u); else if (u < 0x800) { r += char(0xC0 | (u >> 6)); r += char(0x80 | (u & 63)); }
                            else { r += char(0xE0 | (u >> 12)); r += char(0x80 | ((u >> 6) & 63)); r += char(0x80 | (u & 63)); } break; }
                default: r += *p;
                }
                ++p;
            } else r += *p++;
        }
        if (p >= e) fail("string");
        ++p;
        return r;
    }
};

inline P parse(const std::string &s) { Parser ps(s.data(), s.size()); return ps.parse(); }

// ---- writer: tiny streaming helper -------------------------------------------------------
struct W {
    std::string s; bool first = true;
    W() { s.reserve(256); s += '{'; }
    void key(const char *k) { if (!first) s += ','; first = false; s += '"'; s += k; s += "\":"; }
    W & i(const char *k, long long v) { key(k); s += std::to_string(v); return *this; }
    W & b(const char *k, bool v) { key(k); s += v ? "true" : "false"; return *this; }
    W & d(const char *k, double v) { key(k); char buf[40]; snprintf(buf, sizeof buf, "%.9g", v); s += buf; return *this; }
    W & str(const char *k, const std::string &v) {
        key(k); s += '"';
        for (unsigned char c : v) { if (c == '"' || c == '\\') { s += '\\'; s += char(c); } else if (c < 0x20) { char b[8]; snprintf(b, 8, "\\u%04x", c); s += b; } else s += char(c); }
        s += '"'; return *this;
    }
    W & raw(const char *k, const std::string &v) { key(k); s += v; return *this; }
    template <class T> W & arr(const char *k, const std::vector<T> &v) {
        key(k); s += '[';
        for (size_t n = 0; n < v.size(); ++n) { if (n) s += ','; s += std::to_string((long long)v[n]); }
        s += ']'; return *this;
    }
    std::string done() { return s + "}"; }
};

inline bool readline(FILE *f, std::string &line) {
    line.clear();
    int c;
    while ((c = fgetc(f)) != EOF) { if (c == '\n') return true; line += char(c); }
    return !line.empty();
}

} // namespace vj
