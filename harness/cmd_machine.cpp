// C07 (first clause): replay of spec/Machine.tla programs through Machine::Code (loader) and Machine::run.
#include "common.hpp"
#include "registry.hpp"
#include "inc/Code.h"
#include "inc/Rule.h"
#include "inc/Silf.h"
#include "inc/Face.h"
#include "inc/Segment.h"
#include "inc/Slot.h"

using namespace grv;
using namespace graphite2;
using namespace vm;

static const char *status_name(Machine::status_t s) {
    switch (s) {
    case Machine::finished: return "finished"; case Machine::stack_underflow: return "stack_underflow";
    case Machine::stack_not_empty: return "stack_not_empty"; case Machine::stack_overflow: return "stack_overflow";
    case Machine::slot_offset_out_bounds: return "slot_offset_out_bounds"; case Machine::died_early: return "died_early";
    }
    return "?";
}

// grv machine <cases.ndjson> <font>
GRV_CMD(machine) {
    if (argc < 2) return 2;
    FILE *f = fopen(argv[0], "r"); if (!f) { perror(argv[0]); return 2; }
    gr_face *gface = gr_make_file_face(argv[1], gr_face_default);
    if (!gface) { fprintf(stderr, "cannot load %s\n", argv[1]); return 2; }
    const Face *face = static_cast<const Face *>(gface);
    Silf silf;
    std::string line; long ran = 0, rejected = 0, finished = 0, died = 0;
    while (vj::readline(f, line)) {
        if (line.empty()) continue;
        vj::P v = vj::parse(line);
        ++g_cases;
        set_case("machine line=%ld %s", g_cases, line.substr(0, 300).c_str());
        std::vector<long long> pb = (*v)["prog"].ints();
        const bool mloads = (*v)["loads"].truth();
        const std::string mstatus = (*v)["status"].s;
        const int32 mret = int32((*v)["ret"].num());
        // exact-size guarded copy of the bytecode: the loader must not read past it
        Guarded g(pb.size());
        for (size_t i = 0; i < pb.size(); ++i) g.data()[i] = uint8_t(pb[i]);
        for (int constraint = 0; constraint < 2; ++constraint) {
            Machine::Code prog(constraint != 0, g.data(), g.end(), 0, 1, silf, *face, PASS_TYPE_UNKNOWN);
            const bool loads = bool(prog) && prog.status() == Machine::Code::loaded;
            if (!mloads) {
                ++rejected;
                if (loads) report_fail("C07", "the loader accepted a program whose stack underflows (no defined value under the opcode specification)", line);
                continue;
            }
            if (!loads) { ++g_drift; continue; }           // loader stricter than the model: not a C07 matter
            Segment seg(1, face, 0, 0);
            Slot s1;
            SlotMap smap(seg, 0, 0);
            Machine m(smap);
            smap.pushSlot(&s1);
            slotref *map = smap.begin();
            const int32 ret = prog.run(m, map);
            ++ran;
            const char *st = status_name(m.status());
            if (mstatus == "finished") {
                ++finished;
                if (m.status() != Machine::finished || ret != mret) {
                    char b[200]; snprintf(b, sizeof b, "returned %d (status %s), opcode specification gives %d (finished)%s", ret, st, mret, constraint ? " [constraint code]" : "");
                    report_fail("C07", b, line);
                }
            } else if (mstatus == "died_early") {
                ++died;
                if (m.status() != Machine::died_early) {
                    report_fail("C07", std::string("division by zero / INT_MIN/-1 must fail safely (died_early), got status ") + st, line);
                }
            } else if (mstatus != st) ++g_drift;
        }
    }
    fclose(f);
    gr_face_destroy(gface);
    vj::W w; w.i("runs", ran).i("rejected_checked", rejected).i("finished", finished).i("died_early", died);
    report_summary(w.done().c_str());
    return 0;
}
