// grv: conformance harness driver. Each sub-command lives in its own cmd_*.cpp and registers itself.
#include "common.hpp"
#include "registry.hpp"

namespace grv {
std::map<std::string, cmd_fn> & registry() { static std::map<std::string, cmd_fn> r; return r; }
}

int main(int argc, char **argv) {
    grv::install_fault_handlers();
    if (argc < 2 || !grv::registry().count(argv[1])) {
        fprintf(stderr, "usage: grv <cmd> ...\ncommands:");
        for (auto &kv : grv::registry()) fprintf(stderr, " %s", kv.first.c_str());
        fprintf(stderr, "\n");
        return 2;
    }
    try {
        return grv::registry()[argv[1]](argc - 2, argv + 2);
    } catch (const std::exception &e) {
        fprintf(stderr, "grv: exception: %s (case %s)\n", e.what(), grv::g_case);
        return 2;
    }
}
