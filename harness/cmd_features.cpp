// C18: replay of spec/Features.tla behaviours (set / clone / for_lang sequences) on a face whose Feat, Sill and
// name tables were synthesised from the behaviour's font; the specification's abstract map is the oracle.
#include "common.hpp"
#include "registry.hpp"
#include "tableface.hpp"

using namespace grv;

namespace {
std::string J(const std::string &l, size_t n) { vj::W w; w.str("spec", l.substr(0, n)); return w.done(); }
const gr_uint32 FEAT_ID0 = 1001;
const gr_uint32 LANG_TAGS[2] = {0x656E0000u, 0x76696500u};
gr_uint32 spacepad(gr_uint32 t) { for (int sh = 0; sh < 32; sh += 8) { if (((t >> sh) & 0xFF) == 0) t |= 0x20u << sh; else break; } return t; }

struct FontCtx {
    std::string key; TableFace *tf = 0; gr_face *face = 0; std::vector<const gr_feature_ref *> fref; std::vector<std::vector<long long>> defs;
    void close() { if (face) gr_face_destroy(face); delete tf; tf = 0; face = 0; fref.clear(); }
};

bool values_equal(const FontCtx &fc, const gr_feature_val *fv, const std::vector<long long> &want, std::string &why) {
    for (size_t f = 0; f < fc.fref.size(); ++f) {
        unsigned got = gr_fref_feature_value(fc.fref[f], fv);
        if (got != unsigned(want[f])) { why = "feature " + std::to_string(f + 1) + " reads " + std::to_string(got) + ", specification says " + std::to_string(want[f]); return false; }
    }
    return true;
}
}

// grv features <cases.ndjson> <hostfont> <sweep>
GRV_CMD(features) {
    if (argc < 3) return 2;
    FILE *f = fopen(argv[0], "r"); if (!f) { perror(argv[0]); return 2; }
    const bool sweep = atoi(argv[2]) != 0;
    std::string line; FontCtx fc; long ops = 0, fonts = 0, labels = 0, sweeps = 0;
    while (vj::readline(f, line)) {
        if (line.empty()) continue;
        vj::P v = vj::parse(line);
        ++g_cases;
        const std::string key = (*v)["feat_hex"].s;
        set_case("features line=%ld %s", g_cases, line.substr(0, 260).c_str());
        if (key != fc.key) {
            fc.close(); fc.key = key; ++fonts;
            fc.tf = new TableFace();
            if (!fc.tf->load(argv[1])) { fprintf(stderr, "cannot read host font\n"); return 2; }
            fc.tf->set("Feat", unhex((*v)["feat_hex"].s)); fc.tf->set("Sill", unhex((*v)["sill_hex"].s)); fc.tf->set("name", unhex((*v)["name_hex"].s));
            fc.face = fc.tf->make((fonts & 1) ? gr_face_default : gr_face_preloadAll);
            fc.defs.clear();
            for (auto &d : (*v)["defs"].a) fc.defs.push_back(d->ints());
            if (!fc.face) { report_fail("C18", "face with synthesised Feat/Sill/name tables failed to load", J(line, 500)); fc.key.clear(); continue; }
            bool okf = true;
            for (size_t k = 0; k < fc.defs.size(); ++k) {
                const gr_uint32 fid = v->has("ids") ? gr_uint32((*v)["ids"].a[k]->num()) : FEAT_ID0 + gr_uint32(k);
                const gr_feature_ref *r = gr_face_find_fref(fc.face, fid);
                if (r && gr_fref_id(r) != fid) { report_fail("C18", "gr_face_find_fref returns a feature with another id", J(line, 500)); okf = false; break; }
                if (!r) { report_fail("C18", "gr_face_find_fref does not find feature " + std::to_string(k + 1), J(line, 500)); okf = false; break; }
                fc.fref.push_back(r);
            }
            if (!okf) { fc.close(); fc.key.clear(); continue; }
            // ---- once per font: self-reports, settings, labels, unknown language, full value sweep
            for (size_t k = 0; k < fc.defs.size(); ++k) {
                const gr_feature_ref *r = fc.fref[k];
                if (gr_fref_n_values(r) != fc.defs[k].size()) report_fail("C18", "gr_fref_n_values differs from the Feat table", J(line, 500));
                for (size_t j = 0; j < fc.defs[k].size(); ++j)
                    if (uint16_t(gr_fref_value(r, gr_uint16(j))) != uint16_t(fc.defs[k][j])) report_fail("C18", "gr_fref_value differs from the Feat table", J(line, 500));
                const vj::Value &lab = (*(*v)["labels"].a[k]);
                const char *keys[3] = {"u8", "u16", "u32"}; const gr_encform encs[3] = {gr_utf8, gr_utf16, gr_utf32};
                for (int e = 0; e < 3; ++e) for (int which = 0; which < 2; ++which) {
                    if (which == 1 && fc.defs[k].empty()) continue;
                    gr_uint16 lang = 0x409; gr_uint32 len = 0;
                    void *p = which == 0 ? gr_fref_label(r, &lang, encs[e], &len) : gr_fref_value_label(r, 0, &lang, encs[e], &len);
                    ++labels;
                    std::vector<long long> want = lab[keys[e]].ints();
                    bool good = p && len == want.size();
                    for (size_t q = 0; good && q <= want.size(); ++q) {       // reads length+1 units: the terminator must be there
                        unsigned long u = e == 0 ? ((uint8_t *)p)[q] : e == 1 ? ((uint16_t *)p)[q] : ((uint32_t *)p)[q];
                        good = u == (q < want.size() ? (unsigned long)want[q] : 0ul);
                    }
                    if (!good) { vj::W w; w.i("feature", (long long)k + 1).i("enc", 8 << e).i("len", len).b("value_label", which).i("opts", (fonts & 1) ? 0 : 7).str("feat_hex", key).str("name_hex", (*v)["name_hex"].s); report_fail("C18", "label is not the NUL-terminated name-table string in this encoding", w.done()); }
                    if (p) gr_label_destroy(p);
                }
            }
            {   // a refused set leaves the object as it was: an empty object (gr_featureval_clone(NULL)) stays unbound and can
                // still be used with the features of another face made from the same tables
                gr_face *other = fc.tf->make((fonts & 1) ? gr_face_default : gr_face_preloadAll);
                for (size_t k = 0; other && k < fc.defs.size(); ++k) {
                    if (fc.defs[k].empty()) continue;
                    long mx = -1; for (long long sv : fc.defs[k]) mx = std::max<long>(mx, long(sv));
                    if (mx >= 65535) continue;
                    const gr_feature_ref *ro = gr_face_find_fref(other, gr_fref_id(fc.fref[k]));
                    if (!ro) { report_fail("C18", "a second face made from the same tables lacks a feature", J(line, 500)); continue; }
                    gr_feature_val *fv = gr_featureval_clone(0);
                    const int rc1 = gr_fref_set_feature_value(fc.fref[k], gr_uint16(mx + 1), fv);
                    const int rc2 = gr_fref_set_feature_value(ro, gr_uint16(mx), fv);
                    if (rc1 != 0 || rc2 == 0 || gr_fref_feature_value(ro, fv) != unsigned(mx))
                        report_fail("C18", "a refused gr_fref_set_feature_value changed the object (an empty object can no longer be used with another face)", J(line, 500));
                    gr_featureval_destroy(fv);
                }
                if (other) gr_face_destroy(other);
            }
            {   // unknown language -> defaults; tag 0 and the all-space tag -> defaults (also when the Sill table has an entry
                // under tag 0), and they are the values the Feat table declares first
                gr_feature_val *a = gr_face_featureval_for_lang(fc.face, 0x7A7A7A00u), *b = gr_face_featureval_for_lang(fc.face, 0), *c = gr_face_featureval_for_lang(fc.face, 0x20202020u);
                for (size_t k = 0; k < fc.fref.size(); ++k) {
                    if (gr_fref_feature_value(fc.fref[k], a) != gr_fref_feature_value(fc.fref[k], b)) report_fail("C18", "unknown language does not give the defaults", J(line, 500));
                    if (gr_fref_feature_value(fc.fref[k], c) != gr_fref_feature_value(fc.fref[k], b)) report_fail("C18", "the all-space language tag does not give what tag 0 gives", J(line, 500));
                    if (!fc.defs[k].empty() && gr_fref_feature_value(fc.fref[k], b) != unsigned(fc.defs[k][0])) report_fail("C18", "language 0 does not give the font's default values", J(line, 500));
                }
                gr_featureval_destroy(a); gr_featureval_destroy(b); gr_featureval_destroy(c);
            }
            if (sweep) for (size_t k = 0; k < fc.defs.size(); ++k) {          // all 65536 values on feature k
                long mx = -1; for (long long s : fc.defs[k]) mx = std::max<long>(mx, long(s));
                gr_feature_val *fv = gr_face_featureval_for_lang(fc.face, 0);
                std::vector<unsigned> before; for (auto r : fc.fref) before.push_back(gr_fref_feature_value(r, fv));
                for (unsigned val = 0; val < 65536; ++val) {
                    const bool allowed = fc.defs[k].empty() || long(val) <= mx;
                    const int rc = gr_fref_set_feature_value(fc.fref[k], gr_uint16(val), fv);
                    ++sweeps;
                    bool good = (rc != 0) == allowed;
                    if (good && allowed) { good = gr_fref_feature_value(fc.fref[k], fv) == val; before[k] = val; }
                    for (size_t o = 0; good && o < fc.fref.size(); ++o) good = gr_fref_feature_value(fc.fref[o], fv) == before[o];
                    if (!good) { vj::W w; w.i("feature", (long long)k + 1).i("value", val).i("rc", rc).b("allowed", allowed); report_fail("C18", "set_feature_value sweep: wrong acceptance, read-back or isolation", w.done()); break; }
                }
                gr_featureval_destroy(fv);
            }
        }
        if (!fc.face) continue;
        // ---- replay the behaviour
        std::map<int, gr_feature_val *> fvs; std::map<int, std::vector<long long>> shadow;
        fvs[0] = gr_face_featureval_for_lang(fc.face, 0);
        { std::vector<long long> d; for (auto &x : fc.defs) d.push_back(x.empty() ? 0 : x[0]); shadow[0] = d; }
        std::string why;
        if (!values_equal(fc, fvs[0], shadow[0], why)) report_fail("C18", "defaults: " + why, J(line, 700));
        int step = 0;
        for (auto &e : (*v)["log"].a) {
            ++ops; ++step;
            const std::string op = (*e)["op"].s; const int fv = int((*e)["fv"].num()); const long val = long((*e)["v"].num());
            std::vector<long long> after = (*e)["after"].ints();
            if (op == "set") {
                const int fi = int((*e)["f"].num()) - 1;
                const int rc = gr_fref_set_feature_value(fc.fref[fi], gr_uint16(val), fvs[fv]);
                if ((rc != 0) != (*e)["ok"].truth()) report_fail("C18", "step " + std::to_string(step) + ": set_feature_value(" + std::to_string(val) + ") returned " + std::to_string(rc), J(line, 900));
                shadow[fv] = after;
            } else if (op == "clone") {
                fvs[int(val)] = gr_featureval_clone(fvs[fv]); shadow[int(val)] = after;
            } else if (op == "lang") {
                const gr_uint32 tag = v->has("langtags") ? gr_uint32((*v)["langtags"].a[val - 1]->num()) : LANG_TAGS[val - 1];
                fvs[fv] = gr_face_featureval_for_lang(fc.face, (g_cases & 1) ? tag : spacepad(tag)); shadow[fv] = after;
            }
            for (auto &kv : fvs) if (!values_equal(fc, kv.second, shadow[kv.first], why)) { report_fail("C18", "step " + std::to_string(step) + " (" + op + "), value set " + std::to_string(kv.first) + ": " + why, J(line, 900)); break; }
        }
        for (auto &kv : fvs) gr_featureval_destroy(kv.second);
    }
    fc.close();
    fclose(f);
    vj::W w; w.i("ops", ops).i("fonts", fonts).i("label_queries", labels).i("sweep_sets", sweeps);
    report_summary(w.done().c_str());
    return 0;
}

// grv featfonts <cases.ndjson>: shipped fonts against the independent reader's feature model
GRV_CMD(featfonts) {
    if (argc < 1) return 2;
    FILE *f = fopen(argv[0], "r"); if (!f) { perror(argv[0]); return 2; }
    std::string line; long fonts = 0, sets = 0, labels = 0, langs = 0;
    while (vj::readline(f, line)) {
        if (line.empty()) continue;
        vj::P v = vj::parse(line);
        const std::string font = (*v)["font"].s;
        for (int opts = 0; opts < 8; opts += 7) {
            set_case("featfonts %s opts=%d", font.c_str(), opts);
            gr_face *face = gr_make_file_face(font.c_str(), opts);
            if (!face) { vj::W w; w.str("font", font); report_fail("C18", "shipped font failed to load", w.done()); continue; }
            ++fonts; ++g_cases;
            std::vector<const gr_feature_ref *> fr; std::vector<std::vector<long long>> settings;
            bool ok = true;
            for (auto &ft : (*v)["feats"].a) {
                const gr_feature_ref *r = gr_face_find_fref(face, gr_uint32((*ft)["id"].num()));
                if (!r) { vj::W w; w.str("font", font).i("id", (*ft)["id"].num()); report_fail("C18", "feature of the Feat table not found by id", w.done()); ok = false; break; }
                fr.push_back(r); settings.push_back((*ft)["settings"].ints());
            }
            if (!ok) { gr_face_destroy(face); continue; }
            auto fail = [&](const std::string &why, long long k, long long val) { vj::W w; w.str("font", font).i("feature_index", k).i("value", val).i("opts", opts); report_fail("C18", why, w.done()); };
            // defaults
            gr_feature_val *dv = gr_face_featureval_for_lang(face, 0);
            std::vector<long long> dflt = (*v)["defaults"].ints();
            for (size_t k = 0; k < fr.size(); ++k) if (gr_fref_feature_value(fr[k], dv) != unsigned(dflt[k])) fail("default feature value is not the first setting", k, gr_fref_feature_value(fr[k], dv));
            // languages (zero- and space-padded tag)
            for (auto &lg : (*v)["langs"].a) {
                const gr_uint32 tag = gr_uint32((*lg)["tag"].num());
                for (int pad = 0; pad < 2; ++pad) {
                    gr_feature_val *lv = gr_face_featureval_for_lang(face, pad ? spacepad(tag) : tag);
                    ++langs;
                    for (size_t k = 0; k < fr.size(); ++k) {
                        const vj::Value &want = *(*lg)["values"].a[k];
                        if (want.kind == vj::Value::Null) continue;
                        if (gr_fref_feature_value(fr[k], lv) != unsigned(want.num())) fail("language feature values are not the defaults overridden by the Sill entry", k, tag);
                    }
                    gr_feature_val *cl = gr_featureval_clone(lv);
                    for (size_t k = 0; k < fr.size(); ++k) if (gr_fref_feature_value(fr[k], cl) != gr_fref_feature_value(fr[k], lv)) fail("clone differs from its source", k, tag);
                    gr_featureval_destroy(cl); gr_featureval_destroy(lv);
                }
            }
            // every value on every feature: acceptance, read-back, isolation
            for (size_t k = 0; k < fr.size(); ++k) {
                long mx = -1; for (long long s : settings[k]) mx = std::max<long>(mx, long(s));
                gr_feature_val *fv = gr_featureval_clone(dv);
                std::vector<unsigned> cur; for (auto r : fr) cur.push_back(gr_fref_feature_value(r, fv));
                for (unsigned val = 0; val < 65536; ++val) {
                    const bool allowed = settings[k].empty() || long(val) <= mx;
                    const int rc = gr_fref_set_feature_value(fr[k], gr_uint16(val), fv);
                    ++sets;
                    bool good = (rc != 0) == allowed;
                    if (good && allowed) { good = gr_fref_feature_value(fr[k], fv) == val; cur[k] = val; }
                    for (size_t o = 0; good && o < fr.size(); ++o) good = gr_fref_feature_value(fr[o], fv) == cur[o];
                    if (!good) { fail("set_feature_value: wrong acceptance, read-back or isolation", k, val); break; }
                }
                gr_featureval_destroy(fv);
            }
            // labels in three encodings
            size_t k = 0;
            for (auto &ft : (*v)["feats"].a) {
                const vj::Value &lu = (*ft)["label_u16"];
                if (lu.kind == vj::Value::Arr) {
                    std::vector<long long> u16 = lu.ints();
                    gr_uint16 lang = 0x409; gr_uint32 len = 0;
                    uint16_t *p16 = (uint16_t *)gr_fref_label(fr[k], &lang, gr_utf16, &len);
                    ++labels;
                    bool good = p16 && len == u16.size();
                    for (size_t q = 0; good && q <= u16.size(); ++q) good = p16[q] == (q < u16.size() ? uint16_t(u16[q]) : 0);
                    if (!good) fail("UTF-16 label differs from the name-table string", k, len);
                    // UTF-8 and UTF-32 must decode to the same scalars and be NUL-terminated
                    lang = 0x409; gr_uint32 l8 = 0, l32 = 0;
                    uint8_t *p8 = (uint8_t *)gr_fref_label(fr[k], &lang, gr_utf8, &l8);
                    lang = 0x409;
                    uint32_t *p32 = (uint32_t *)gr_fref_label(fr[k], &lang, gr_utf32, &l32);
                    if (!p8 || !p32 || p8[l8] != 0 || p32[l32] != 0) fail("UTF-8/UTF-32 label missing or not NUL-terminated", k, l8);
                    else {
                        size_t c8 = gr_count_unicode_characters(gr_utf8, p8, p8 + l8, 0), c16 = gr_count_unicode_characters(gr_utf16, p16, p16 + len, 0);
                        if (c8 != l32 || c16 != l32) fail("label has different character counts in the three encodings", k, l32);
                    }
                    if (p16) gr_label_destroy(p16);
                    if (p8) gr_label_destroy(p8);
                    if (p32) gr_label_destroy(p32);
                }
                ++k;
            }
            gr_featureval_destroy(dv);
            gr_face_destroy(face);
        }
    }
    fclose(f);
    vj::W w; w.i("fonts", fonts).i("sets", sets).i("label_queries", labels).i("lang_queries", langs);
    report_summary(w.done().c_str());
    return 0;
}
