// C09: free-running threads on one shared preloaded face and unhinted font (run in the TSan build), logging per-thread
// results for validation by spec/ThreadsTrace.tla against a sequential reference taken on a private face.
#include "common.hpp"
#include "registry.hpp"
#include "tableface.hpp"
#include <atomic>
#include <fstream>
#include <thread>

using namespace grv;

namespace {
uint64_t fnv(const std::string &s) { uint64_t h = 1469598103934665603ULL; for (unsigned char c : s) { h ^= c; h *= 1099511628211ULL; } return h; }
struct Ev { int t, seq; std::string key, h; };
// the feature values the face gives for its k-th language (k = number of languages: for language 0, the defaults)
std::string lang_hash(const gr_face *face, unsigned k) {
    const gr_uint32 lg = k < gr_face_n_languages(face) ? gr_face_lang_by_index(face, gr_uint16(k)) : 0;
    gr_feature_val *fv = gr_face_featureval_for_lang(face, lg);
    std::string s = std::to_string(lg) + ":";
    for (unsigned q = 0; fv && q < gr_face_n_fref(face); ++q) s += std::to_string(gr_fref_feature_value(gr_face_fref(face, gr_uint16(q)), fv)) + ",";
    if (fv) gr_featureval_destroy(fv);
    return s;
}
std::string label_hash(const gr_face *face, unsigned k) {
    const gr_feature_ref *r = gr_face_fref(face, gr_uint16(k));
    gr_uint16 lang = 0x409; gr_uint32 len = 0;
    char *p = (char *)gr_fref_label(r, &lang, gr_utf8, &len);
    std::string s = p ? std::string(p, len) : std::string("(null)");
    if (p) gr_label_destroy(p);
    if (gr_fref_n_values(r)) { lang = 0x409; p = (char *)gr_fref_value_label(r, 0, &lang, gr_utf8, &len); s += "|" + (p ? std::string(p, len) : std::string("(null)")); if (p) gr_label_destroy(p); }
    return std::to_string(fnv(s));
}
std::string shape_hash(const gr_face *face, const gr_font *font, const std::string &t, int dir) {
    const size_t nch = gr_count_unicode_characters(gr_utf8, t.data(), t.data() + t.size(), 0);
    GRV_WATCHDOG;
    gr_segment *s = gr_make_seg(font, face, 0, 0, gr_utf8, t.data(), nch, dir);
    SegP p = project(s, face, font, true);
    std::string d = dump(p);
    if (!p.wf.empty()) d += "|WF:" + p.wf;
    if (s) gr_seg_destroy(s);
    return std::to_string(fnv(d));
}
}

// grv threads <font> <textfile> <dir> <nthreads> <rounds> <trace-out> <seed>
GRV_CMD(threads) {
    if (argc < 7) return 2;
    const std::string font = argv[0]; const int dir = atoi(argv[2]), nth = atoi(argv[3]), rounds = atoi(argv[4]); const unsigned seed = atoi(argv[6]);
    std::vector<std::string> texts;
    { std::ifstream in(argv[1]); std::string l; while (std::getline(in, l)) if (l.size() >= 3) { if (l.size() > 120) { l.resize(120); while (!l.empty() && (l.back() & 0xC0) == 0x80) l.pop_back(); if (!l.empty() && (unsigned char)l.back() >= 0xC0) l.pop_back(); } texts.push_back(l); } }
    if (texts.size() > 400) texts.resize(400);
    FILE *tr = fopen(argv[5], "w"); if (!tr) { perror(argv[5]); return 2; }
    // sequential reference on a private face / font
    std::vector<uint8_t> nameov;
    if (argc > 7) { std::string hx = slurp(argv[7]); while (!hx.empty() && (hx.back() == '\n' || hx.back() == ' ')) hx.pop_back(); nameov = unhex(hx); }
    // optional staging: "badglyph" gives glyph 99 an empty attribute range - such a font is refused when all glyphs are
    // loaded up front, so there is nothing to share (unless the library quietly falls back to loading on demand)
    const bool badglyph = argc > 8 && !strcmp(argv[8], "badglyph");
    // "noname" / "name1": no name table, or one of a format the library does not read - labels are absent, and asking for
    // them from many threads must still not reach the table callbacks of a preloaded face
    const std::string stagekind = argc > 8 ? argv[8] : "";
    auto stage = [&](TableFace &t) {
        if (stagekind == "noname") t.drop("name");
        if (stagekind == "name1") { std::vector<uint8_t> n = t.tables[tagof("name")]; if (n.size() >= 2) { n[0] = 0; n[1] = 1; t.tables[tagof("name")] = n; } }
        if (!badglyph) return;
        std::vector<uint8_t> g = t.tables[tagof("Gloc")];
        const bool lng = be16(&g[4]) & 1; const size_t esz = lng ? 4 : 2, at = 8 + esz * 99;
        if (at + 2 * esz <= g.size()) memcpy(&g[at], &g[at + esz], esz);
        t.tables[tagof("Gloc")] = g;
    };
    {
        TableFace rtf; if (!rtf.load(font)) return 2;
        if (!nameov.empty()) rtf.set("name", nameov);
        stage(rtf);
        gr_face *rf = rtf.make(gr_face_preloadAll);
        if (!rf && badglyph) { fclose(tr); vj::W w; w.i("jobs", 0).i("refused", 1); report_summary(w.done().c_str()); return 0; }
        if (!rf) { fprintf(stderr, "cannot load %s\n", font.c_str()); return 2; }
        gr_font *rfont = gr_make_font(14.0f, rf);
        for (size_t i = 0; i < texts.size(); ++i) { fprintf(tr, "{\"e\":\"Ref\",\"key\":\"s%zu\",\"h\":\"%s\"}\n", i, shape_hash(rf, rfont, texts[i], dir).c_str()); fprintf(tr, "{\"e\":\"Ref\",\"key\":\"n%zu\",\"h\":\"%s\"}\n", i, shape_hash(rf, 0, texts[i], dir).c_str()); }
        for (unsigned k = 0; k < gr_face_n_fref(rf); ++k) fprintf(tr, "{\"e\":\"Ref\",\"key\":\"l%u\",\"h\":\"%s\"}\n", k, label_hash(rf, k).c_str());
        for (unsigned k = 0; k <= gr_face_n_languages(rf); ++k) fprintf(tr, "{\"e\":\"Ref\",\"key\":\"v%u\",\"h\":\"%s\"}\n", k, lang_hash(rf, k).c_str());
        gr_font_destroy(rfont); gr_face_destroy(rf);
    }
    // the shared cold face, created through counting callbacks
    TableFace tf; tf.poison = true;
    if (!tf.load(font)) return 2;
    if (!nameov.empty()) tf.set("name", nameov);
    stage(tf);
    tf.events.reserve(1024); tf.bufs.reserve(256);
    gr_face *face = tf.make(gr_face_preloadAll);
    if (!face) { fprintf(stderr, "shared face failed to load\n"); return 2; }
    gr_font *gf = gr_make_font(14.0f, face);
    for (auto &e : tf.events) if (e.kind == 'G') fprintf(tr, "{\"e\":\"Get\",\"tag\":\"%s\"}\n", tagstr(e.tag).c_str());
    fprintf(tr, "{\"e\":\"MakeDone\"}\n");
    const long gets0 = tf.gets;
    const unsigned nf = gr_face_n_fref(face), nl = gr_face_n_languages(face);
    std::vector<std::vector<Ev>> logs(nth);
    std::atomic<int> go(0);
    std::vector<std::thread> th;
    for (int t = 0; t < nth; ++t) th.emplace_back([&, t]() {
        while (!go.load()) {}
        unsigned rng = seed * 7919u + t * 104729u + 1;
        int seq = 0;
        for (int r = 0; r < rounds; ++r) for (size_t q = 0; q < texts.size(); ++q) {
            rng = rng * 1664525u + 1013904223u;
            const size_t i = (q * 7 + t * 13 + (rng >> 20)) % texts.size();          // overlapping and distinct texts
            const bool withfont = (rng >> 8) & 1;
            logs[t].push_back(Ev{t, ++seq, std::string(withfont ? "s" : "n") + std::to_string(i), shape_hash(face, withfont ? gf : 0, texts[i], dir)});
            if (nf && (rng & 15) == 0) { const unsigned k = (rng >> 4) % nf; logs[t].push_back(Ev{t, ++seq, "l" + std::to_string(k), label_hash(face, k)}); }
            // every thread asks for the settings of the languages too (and of language 0), in its own order
            if ((rng & 3) == 1) { const unsigned k = (rng >> 5) % (nl + 1); logs[t].push_back(Ev{t, ++seq, "v" + std::to_string(k), lang_hash(face, k)}); }
        }
    });
    go.store(1);
    for (auto &x : th) x.join();
    long jobs = 0;
    for (auto &lg : logs) for (auto &e : lg) { fprintf(tr, "{\"e\":\"Job\",\"t\":%d,\"seq\":%d,\"key\":\"%s\",\"h\":\"%s\"}\n", e.t, e.seq, e.key.c_str(), e.h.c_str()); ++jobs; }
    fprintf(tr, "{\"e\":\"End\",\"gets_after\":%ld}\n", tf.gets - gets0);
    gr_font_destroy(gf); gr_face_destroy(face);
    fclose(tr);
    g_cases = jobs;
    vj::W w; w.i("jobs", jobs).i("threads", nth).i("texts", (long long)texts.size()).i("gets_after_make", tf.gets - gets0);
    report_summary(w.done().c_str());
    return 0;
}
