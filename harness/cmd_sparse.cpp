// C01 (glyph attribute storage): replay of spec/Sparse.tla cases.  Each case is a font whose Glat data for one glyph
// holds the given attribute runs; the face is loaded lazily and preloaded, the glyph's attributes are read back
// through sparse::operator[] for every attribute number of the runs and a range beyond them.
#include "common.hpp"
#include "registry.hpp"
#include "tableface.hpp"
#include "inc/Main.h"
#include "inc/Face.h"
#include "inc/GlyphCache.h"
#include "inc/GlyphFace.h"

using namespace grv;
using namespace graphite2;

// grv sparse <cases.ndjson>
//   case: {"id", "font_hex", "gid", "valid": bool, "nchunks": n, "attrs": [{"k","v"}...], "numattrs": n}
GRV_CMD(sparse) {
    if (argc < 1) return 2;
    FILE *f = fopen(argv[0], "r"); if (!f) { perror(argv[0]); return 2; }
    std::string line; long loads = 0, accepted = 0, lookups = 0;
    while (vj::readline(f, line)) {
        if (line.empty()) continue;
        vj::P v = vj::parse(line);
        ++g_cases;
        const std::string id = v->has("id") ? (*v)["id"].s : std::to_string(g_cases);
        const unsigned gid = unsigned(v->get("gid", 1));
        const bool valid = (*v)["valid"].truth();
        const long numattrs = long(v->get("numattrs", 0));
        for (unsigned opts : {0u, unsigned(gr_face_preloadGlyphs)}) {
            set_case("sparse case=%s opts=%u", id.c_str(), opts);
            TableFace tf;
            { std::vector<uint8_t> b = unhex((*v)["font_hex"].s); if (!tf.load_mem(std::string((const char *)b.data(), b.size()))) { fprintf(stderr, "bad font bytes\n"); return 2; } }
            gr_face *face = tf.make(opts);
            ++loads;
            if (!face) { if (valid && opts) ++g_drift; continue; }      // the model expected these runs to be accepted
            ++accepted;
            const GlyphFace *g = static_cast<const Face *>(face)->glyphs().glyphSafe(uint16(gid));
            bool present = g && g->attrs();
            if (present != valid && (valid || opts)) ++g_drift;
            if (present) {
                long maxk = 0;
                for (auto &a : (*v)["attrs"].a) {
                    const long k = long((*a)["k"].num()), want = long((*a)["v"].num());
                    maxk = std::max(maxk, k);
                    ++lookups;
                    if (valid && k < numattrs && long(g->attrs()[uint16(k)]) != want) ++g_drift;
                }
                // every attribute number up to one chunk beyond the last one, and the ends of the key space
                unsigned long sink = 0;
                for (long k = 0; k <= maxk + 100; ++k) { sink += g->attrs()[uint16(k)]; ++lookups; }
                sink += g->attrs()[65535] + g->attrs()[32768];
                if (sink == 0xFFFFFFFFFFUL) fputs("", stderr);
                // the engine reads glyph attributes while shaping, too
                const uint32_t cps[] = {97, 98, 99};
                GRV_WATCHDOG;
                gr_segment *seg = gr_make_seg(0, face, 0, 0, gr_utf32, cps, 3, 0);
                if (seg) gr_seg_destroy(seg);
            }
            gr_face_destroy(face);
        }
    }
    fclose(f);
    vj::W w; w.i("loads", loads).i("accepted", accepted).i("lookups", lookups);
    report_summary(w.done().c_str());
    return 0;
}
