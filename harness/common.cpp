#include "common.hpp"
#include <cstdarg>

extern "C" void __sanitizer_set_death_callback(void (*)(void)) __attribute__((weak));

#include <atomic>
#include "inc/Verif.h"

namespace grv {

std::atomic<long> g_passes(0), g_iter_worst_permille(0);
void (*g_rule_sink)(int ev, long a, long b, long c, long d) = 0;      // set by a command that records rule events
static void iter_sink(int ev, long a, long b, long c, long d) {
    if (g_rule_sink) g_rule_sink(ev, a, b, c, d);
    if (ev != 1) return;
    g_passes.fetch_add(1, std::memory_order_relaxed);
    const long bound = d * (b + c + 2);
    if (bound > 0) { long pm = a * 1000 / bound; long cur = g_iter_worst_permille.load(std::memory_order_relaxed); while (pm > cur && !g_iter_worst_permille.compare_exchange_weak(cur, pm)) {} }
    if (a > bound) {
        vj::W w; w.i("iterations", a).i("slots_at_start", b).i("insert_budget", c).i("max_rule_loop", d).str("case", g_case);
        report_fail("C02", "rule loop of a pass ran more iterations than maxRuleLoop x (slots + insert budget + 2)", w.done());
    }
}

char g_case[512] = "(none)";
long g_fail = 0, g_cases = 0, g_drift = 0;

void set_case(const char *fmt, ...) {
    va_list ap; va_start(ap, fmt); vsnprintf(g_case, sizeof g_case, fmt, ap); va_end(ap);
}

static void say_fault(const char *kind) {
    char buf[700];
    int n = snprintf(buf, sizeof buf, "\nGRV-FAULT kind=%s case=%s\n", kind, g_case);
    if (write(2, buf, n) < 0) {}
    if (write(1, buf, n) < 0) {}
}
static void on_death() { say_fault("sanitizer"); }
static void on_sig(int sig) {
    say_fault(sig == SIGSEGV ? "segv" : sig == SIGBUS ? "bus" : sig == SIGFPE ? "fpe" : sig == SIGABRT ? "abort" : sig == SIGALRM ? "watchdog" : "signal");
    _exit(70);
}
void install_fault_handlers() {
    graphite2::verif_sink = iter_sink;
    if (&__sanitizer_set_death_callback) __sanitizer_set_death_callback(on_death);
    struct sigaction sa; memset(&sa, 0, sizeof sa); sa.sa_handler = on_sig;
    static char altstack[1 << 16];
    stack_t ss; ss.ss_sp = altstack; ss.ss_size = sizeof altstack; ss.ss_flags = 0; sigaltstack(&ss, 0);
    sa.sa_flags = SA_ONSTACK;
    sigaction(SIGSEGV, &sa, 0); sigaction(SIGBUS, &sa, 0); sigaction(SIGFPE, &sa, 0);
    sigaction(SIGABRT, &sa, 0); sigaction(SIGALRM, &sa, 0); sigaction(SIGILL, &sa, 0);
}

void report_fail(const char *prop, const std::string &why, const std::string &caseJson) {
    ++g_fail;
    static long printed = 0;
    static long cap = getenv("GRV_MAXFAIL") ? atol(getenv("GRV_MAXFAIL")) : 300;
    if (++printed <= cap) {
        vj::W w; w.str("fail", prop).str("why", why).raw("case", caseJson.empty() ? "null" : caseJson);
        puts(w.done().c_str());
    }
}
void report_summary(const char *extra) {
    vj::W w; w.i("summary", 1).i("cases", g_cases).i("fail", g_fail).i("drift", g_drift).i("passes_counted", g_passes.load()).i("worst_iter_permille_of_bound", g_iter_worst_permille.load());
    if (extra) w.raw("extra", extra);
    puts(w.done().c_str());
    fflush(stdout);
}

std::string slurp(const std::string &path) {
    FILE *f = fopen(path.c_str(), "rb"); if (!f) return std::string();
    std::string r; char buf[65536]; size_t n;
    while ((n = fread(buf, 1, sizeof buf, f)) > 0) r.append(buf, n);
    fclose(f); return r;
}

std::vector<uint8_t> encode_units(int enc, const std::vector<long long> &units) {
    std::vector<uint8_t> r;
    for (long long u : units) {
        if (enc == 8) r.push_back(uint8_t(u));
        else if (enc == 16) { uint16_t v = uint16_t(u); r.insert(r.end(), (uint8_t *)&v, (uint8_t *)&v + 2); }
        else { uint32_t v = uint32_t(u); r.insert(r.end(), (uint8_t *)&v, (uint8_t *)&v + 4); }
    }
    return r;
}

// ------------------------------------------------------------------------------------------
SegP project(gr_segment *seg, const gr_face *face, const gr_font *font, bool gidCheck, int nUser) {
    SegP r;
    if (!seg) return r;
    r.null = false;
    auto bad = [&](const char *prop, const std::string &why) { if (r.wf.empty()) { r.wf = why; r.wfprop = prop; } };
    const unsigned n = gr_seg_n_slots(seg);
    r.nslots = n;
    r.advX = gr_seg_advance_X(seg); r.advY = gr_seg_advance_Y(seg);
    if (!std::isfinite(r.advX) || !std::isfinite(r.advY)) bad("C03", "segment advance not finite");
    const gr_slot *first = gr_seg_first_slot(seg), *last = gr_seg_last_slot(seg);
    std::map<const gr_slot *, int> ord;
    std::vector<const gr_slot *> order;
    const gr_slot *prev = 0;
    for (const gr_slot *s = first; s; s = gr_slot_next_in_segment(s)) {
        if (ord.count(s)) { bad("C03", "next chain revisits a slot"); break; }
        if (order.size() > size_t(n) + 4) { bad("C03", "next chain longer than n_slots"); break; }
        if (gr_slot_prev_in_segment(s) != prev) bad("C03", "prev is not the inverse of next at position " + std::to_string(order.size()));
        ord[s] = int(order.size()); order.push_back(s); prev = s;
    }
    if (order.size() != n) bad("C03", "next chain visits " + std::to_string(order.size()) + " slots, n_slots=" + std::to_string(n));
    if ((order.empty() ? (const gr_slot *)0 : order.back()) != last) bad("C03", "next chain does not end at last_slot");
    if (n == 0 && (first || last)) bad("C03", "empty segment with first/last");
    // reverse walk
    { size_t k = 0; const gr_slot *nx = 0;
      for (const gr_slot *s = last; s && k <= order.size(); s = gr_slot_prev_in_segment(s), ++k) {
          if (gr_slot_next_in_segment(s) != nx) { bad("C03", "next is not the inverse of prev"); break; }
          nx = s;
      }
      if (k != order.size()) bad("C03", "prev chain visits " + std::to_string(k) + " slots"); }

    const unsigned nglyphs = face ? gr_face_n_glyphs(face) : 0xFFFF;
    const unsigned nc = gr_seg_n_cinfo(seg);
    std::vector<char> seenIdx(order.size(), 0);
    size_t curK = 0;
    auto idOf = [&](const gr_slot *p, const char *what) -> int {
        if (!p) return -1;
        auto it = ord.find(p);
        if (it == ord.end()) { bad("C04", std::string(what) + " of slot " + std::to_string(curK) + " names a slot outside the segment's stream"); return -2; }
        return it->second;
    };
    for (size_t k = 0; k < order.size(); ++k) {
        const gr_slot *s = order[k];
        SlotP p;
        curK = k;
        p.gid = gr_slot_gid(s); p.index = int(gr_slot_index(s));
        p.before = gr_slot_before(s); p.after = gr_slot_after(s); p.original = gr_slot_original(s);
        p.parent = idOf(gr_slot_attached_to(s), "attached_to");
        p.firstChild = idOf(gr_slot_first_attachment(s), "first_attachment");
        p.nextSib = idOf(gr_slot_next_sibling_attachment(s), "next_sibling_attachment");
        p.insertBefore = gr_slot_can_insert_before(s);
        p.ox = gr_slot_origin_X(s); p.oy = gr_slot_origin_Y(s);
        p.ax = gr_slot_advance_X(s, face, font); p.ay = gr_slot_advance_Y(s, face, font);
        p.advAttr = gr_slot_attr(s, seg, gr_slatAdvX, 0);
        p.shiftX = gr_slot_attr(s, seg, gr_slatShiftX, 0); p.shiftY = gr_slot_attr(s, seg, gr_slatShiftY, 0);
        p.attX = gr_slot_attr(s, seg, gr_slatAttX, 0); p.attY = gr_slot_attr(s, seg, gr_slatAttY, 0);
        p.user0 = nUser > 0 ? gr_slot_attr(s, seg, gr_slatUserDefn, 0) : 0;
        p.user1 = nUser > 1 ? gr_slot_attr(s, seg, gr_slatUserDefn, 1) : 0;
        p.attLevel = gr_slot_attr(s, seg, gr_slatAttLevel, 0);
        if (!std::isfinite(p.ox) || !std::isfinite(p.oy) || !std::isfinite(p.ax) || !std::isfinite(p.ay))
            bad("C03", "slot " + std::to_string(k) + " has a non-finite origin/advance");
        if (p.index < 0 || size_t(p.index) >= order.size() || seenIdx[p.index]) bad("C03", "slot indices are not a permutation of 0..n-1");
        else seenIdx[p.index] = 1;
        if (gidCheck && unsigned(p.gid) >= nglyphs) bad("C03", "gid " + std::to_string(p.gid) + " >= n_glyphs");
        if (p.before < 0 || unsigned(p.before) >= nc || p.after < 0 || unsigned(p.after) >= nc || p.original < 0 || unsigned(p.original) >= nc)
            bad("C05", "slot " + std::to_string(k) + " before/after/original outside [0,n): " + std::to_string(p.before) + "/" + std::to_string(p.after) + "/" + std::to_string(p.original) + " n=" + std::to_string(nc));
        r.slots.push_back(p);
    }
    // C04: forest
    const int N = int(r.slots.size());
    for (int k = 0; k < N && r.wf.empty(); ++k) {
        int steps = 0, q = k;
        while (q >= 0 && r.slots[q].parent >= 0 && steps <= N) { q = r.slots[q].parent; ++steps; }
        if (steps > N) { bad("C04", "attached_to chain from slot " + std::to_string(k) + " does not reach a base"); break; }
        const int par = r.slots[k].parent;
        if (par >= 0) {
            int occ = 0, c = r.slots[par].firstChild, guard = 0;
            while (c >= 0 && guard++ <= N) {
                if (c == k) ++occ;
                if (r.slots[c].parent != par) bad("C04", "slot " + std::to_string(c) + " is in the child chain of " + std::to_string(par) + " but names parent " + std::to_string(r.slots[c].parent));
                c = r.slots[c].nextSib;
            }
            if (guard > N + 1) bad("C04", "child chain of slot " + std::to_string(par) + " does not terminate");
            if (occ != 1) bad("C04", "slot " + std::to_string(k) + " occurs " + std::to_string(occ) + " times in the child chain of its parent " + std::to_string(par));
        }
    }
    // every member of the chain first_attachment(p), next_sibling_attachment... names p as its parent
    for (int k = 0; k < N && r.wf.empty(); ++k) {
        int c = r.slots[k].firstChild, guard = 0;
        while (c >= 0 && guard++ <= N) {
            if (r.slots[c].parent != k) { bad("C04", "slot " + std::to_string(c) + " is in the child chain of " + std::to_string(k) + " but names parent " + std::to_string(r.slots[c].parent)); break; }
            c = r.slots[c].nextSib;
        }
        if (guard > N + 1) bad("C04", "child chain of slot " + std::to_string(k) + " does not terminate");
    }
    if (r.wf.empty() && N > 0) {
        // bases form one chain containing each base exactly once; its head is the base no other base points to
        std::vector<int> bases; std::vector<int> indeg(N, 0);
        for (int k = 0; k < N; ++k) if (r.slots[k].parent == -1) bases.push_back(k);
        for (int b : bases) { int s = r.slots[b].nextSib; if (s >= 0) { if (r.slots[s].parent != -1) bad("C04", "base " + std::to_string(b) + " has a non-base sibling " + std::to_string(s)); else indeg[s]++; } }
        int head = -1, heads = 0;
        for (int b : bases) if (indeg[b] == 0) { head = b; ++heads; }
        if (!bases.empty() && heads != 1) bad("C04", "bases are not linked into one chain (" + std::to_string(heads) + " heads, " + std::to_string(bases.size()) + " bases)");
        else if (!bases.empty()) {
            std::set<int> seen; int c = head;
            while (c >= 0 && !seen.count(c)) { seen.insert(c); c = r.slots[c].nextSib; }
            if (c >= 0) bad("C04", "base chain is cyclic");
            else if (seen.size() != bases.size()) bad("C04", "base chain contains " + std::to_string(seen.size()) + " of " + std::to_string(bases.size()) + " bases");
        }
    }
    // C05: char infos
    size_t lastBase = 0;
    std::vector<char> covered(nc, 0);
    for (unsigned i = 0; i < nc; ++i) {
        const gr_char_info *ci = gr_seg_cinfo(seg, i);
        CharP c; c.usv = gr_cinfo_unicode_char(ci); c.before = gr_cinfo_before(ci); c.after = gr_cinfo_after(ci);
        c.base = gr_cinfo_base(ci); c.bw = gr_cinfo_break_weight(ci);
        if (i > 0 && c.base <= lastBase) bad("C05", "char-info bases are not strictly increasing at " + std::to_string(i));
        lastBase = c.base;
        if (N > 0 && (c.before < 0 || c.before >= N || c.after < 0 || c.after >= N))
            bad("C05", "char-info " + std::to_string(i) + " before/after outside [0,n_slots): " + std::to_string(c.before) + "/" + std::to_string(c.after));
        r.chars.push_back(c);
    }
    if (N > 0) {
        for (auto &p : r.slots) for (int i = p.before; i <= p.after; ++i) if (i >= 0 && unsigned(i) < nc) covered[i] = 1;
        for (unsigned i = 0; i < nc; ++i) if (!covered[i]) { bad("C05", "character " + std::to_string(i) + " is in no slot's [before,after] range"); break; }
    }
    return r;
}

std::string dump(const SegP &s, bool withBase, bool withPos) {
    if (s.null) return "NULL";
    std::string r; char b[256];
    snprintf(b, sizeof b, "n=%u", s.nslots); r += b;
    if (withPos) { snprintf(b, sizeof b, " adv=%.4f,%.4f", s.advX, s.advY); r += b; }
    r += "\n";
    for (auto &p : s.slots) {
        snprintf(b, sizeof b, "g%d i%d b%d a%d o%d p%d c%d s%d ins%d A%d S%d,%d T%d,%d U%d,%d L%d", p.gid, p.index, p.before, p.after, p.original,
                 p.parent, p.firstChild, p.nextSib, p.insertBefore, p.advAttr, p.shiftX, p.shiftY, p.attX, p.attY, p.user0, p.user1, p.attLevel);
        r += b;
        if (withPos) { snprintf(b, sizeof b, " @%.4f,%.4f +%.4f,%.4f", p.ox, p.oy, p.ax, p.ay); r += b; }
        r += "\n";
    }
    for (auto &c : s.chars) {
        snprintf(b, sizeof b, "u%X b%d a%d w%d", c.usv, c.before, c.after, c.bw); r += b;
        if (withBase) { snprintf(b, sizeof b, " @%zu", c.base); r += b; }
        r += "\n";
    }
    return r;
}

std::string dump_json(const SegP &s) {
    if (s.null) return "null";
    std::string r = "{\"n\":" + std::to_string(s.nslots) + ",\"slots\":[";
    bool f = true;
    for (auto &p : s.slots) {
        if (!f) r += ","; f = false;
        vj::W w; w.i("gid", p.gid).i("idx", p.index).i("b", p.before).i("a", p.after).i("o", p.original).i("par", p.parent)
            .i("x", (long long)std::lround(p.ox)).i("y", (long long)std::lround(p.oy)).i("adv", p.advAttr).i("sx", p.shiftX).i("sy", p.shiftY)
            .i("u0", p.user0).i("u1", p.user1).i("ins", p.insertBefore);
        r += w.done();
    }
    r += "],\"chars\":[";
    f = true;
    for (auto &c : s.chars) { if (!f) r += ","; f = false; vj::W w; w.i("usv", c.usv).i("b", c.before).i("a", c.after).i("base", (long long)c.base); r += w.done(); }
    r += "],\"advx\":" + std::to_string((long long)std::lround(s.advX)) + "}";
    return r;
}

} // namespace grv
