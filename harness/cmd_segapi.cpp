// C19: replays SegmentApi behaviours (break sets + justify calls) on real segments and logs every line's forward and
// backward walk after each call, for validation by spec/SegmentApiTrace.tla.
#include "common.hpp"
#include "registry.hpp"
#include <fstream>
#include <algorithm>

using namespace grv;

namespace {
// hook events 6 / 7 of Segment::justify: the chain with the line-end markers in, and after they came out
FILE *g_jtr = 0; int g_allbase = 0;      // g_allbase: left-to-right segment and no slot of the justified line is attached to another
void just_sink(int ev, long a, long b, long c, long d) {
    if (!g_jtr || (ev != 6 && ev != 7)) return;
    fprintf(g_jtr, "{\"e\":\"%s\",\"le\":%ld,\"rev\":%ld,\"reach\":%ld,\"linked\":%ld,\"n\":%ld,\"allbase\":%d}\n", ev == 6 ? "Markers" : "Unmarked", a & 1, (a >> 1) & 1, b, c, d, g_allbase);
}
// advance callback of an application-hinted font: depends on the glyph id only
float hinted_adv(const void *, gr_uint16 gid) { return 2.0f + float(gid % 47) * 0.5f; }
const gr_font_ops hinted_font_ops = { sizeof(gr_font_ops), hinted_adv, 0 };
struct Line { std::vector<int> ids; };
std::string arr2(const std::vector<std::vector<int>> &v) {
    std::string r = "[";
    for (size_t i = 0; i < v.size(); ++i) { if (i) r += ","; r += "["; for (size_t k = 0; k < v[i].size(); ++k) { if (k) r += ","; r += std::to_string(v[i][k]); } r += "]"; }
    return r + "]";
}
}

// grv segapi <behaviours.ndjson> <trace-out.ndjson> <sources.ndjson> <per-source-behaviours>
//   source: {"font":path,"text":utf8,"dir":int,"ppm":float}
GRV_CMD(segapi) {
    if (argc < 4) return 2;
    std::vector<vj::P> beh;
    { FILE *f = fopen(argv[0], "r"); if (!f) { perror(argv[0]); return 2; } std::string line; while (vj::readline(f, line)) if (!line.empty()) beh.push_back(vj::parse(line)); fclose(f); }
    FILE *tr = fopen(argv[1], "w"); if (!tr) { perror(argv[1]); return 2; }
    FILE *sf = fopen(argv[2], "r"); if (!sf) { perror(argv[2]); return 2; }
    const size_t per = size_t(atoi(argv[3]));
    std::string line; long nseg = 0, ncalls = 0, skipped = 0; size_t bi = 0;
    std::map<std::string, gr_face *> faces;
    while (vj::readline(sf, line)) {
        if (line.empty()) continue;
        vj::P src = vj::parse(line);
        const std::string font = (*src)["font"].s, text = (*src)["text"].s;
        const int dir = int(src->get("dir", 0)); const double ppm = src->has("ppm") ? (*src)["ppm"].dbl() : 0;
        if (!faces.count(font)) faces[font] = gr_make_file_face(font.c_str(), 0);
        gr_face *face = faces[font];
        if (!face) { fprintf(stderr, "cannot load %s\n", font.c_str()); return 2; }
        gr_font *gf = ppm > 0 ? (src->get("hinted", 0) ? gr_make_font_with_ops(float(ppm), &hinted_font_ops, &hinted_font_ops, face) : gr_make_font(float(ppm), face)) : 0;
        const gr_faceinfo *fi = gr_face_info(face, 0);
        const bool nojust = !(fi && fi->justifies);
        const size_t nch = gr_count_unicode_characters(gr_utf8, text.data(), text.data() + text.size(), 0);
        for (size_t q = 0; q < per; ++q, ++bi) {
            const vj::Value &b = *beh[bi % beh.size()];
            const int N = int(b["n"].num());
            set_case("segapi source=%ld font=%s dir=%d ppm=%g behaviour=%zu", nseg, font.c_str(), dir, ppm, bi % beh.size());
            GRV_WATCHDOG;
            gr_segment *seg = gr_make_seg(gf, face, 0, 0, gr_utf8, text.data(), nch, dir);
            if (!seg) { ++skipped; continue; }
            std::vector<const gr_slot *> slots;
            for (const gr_slot *s = gr_seg_first_slot(seg); s && slots.size() < 100000; s = gr_slot_next_in_segment(s)) slots.push_back(s);
            const int n = int(slots.size());
            if (n < 1 || n != int(gr_seg_n_slots(seg))) { ++skipped; gr_seg_destroy(seg); continue; }
            // segments shorter than the abstract one cannot be cut the way the behaviour says: they are justified as they
            // are (every justify call of the behaviour, on the only line)
            const bool shortseg = n < N;
            ++nseg; ++g_cases;
            std::map<const gr_slot *, int> idof; for (int i = 0; i < n; ++i) idof[slots[i]] = i + 1;
            std::vector<std::vector<int>> lines(1);
            for (int i = 1; i <= n; ++i) lines[0].push_back(i);
            auto observe = [&](bool &finite, std::vector<int> &gids, std::vector<std::vector<int>> &fw, std::vector<std::vector<int>> &bw) {
                finite = true; gids.clear(); fw.clear(); bw.clear();
                for (auto &ln : lines) {
                    std::vector<int> f, bk;
                    int guard = 0;
                    for (const gr_slot *s = slots[ln.front() - 1]; s && guard++ <= n + 2; s = gr_slot_next_in_segment(s)) f.push_back(idof.count(s) ? idof[s] : -1);
                    guard = 0;
                    for (const gr_slot *s = slots[ln.back() - 1]; s && guard++ <= n + 2; s = gr_slot_prev_in_segment(s)) bk.push_back(idof.count(s) ? idof[s] : -1);
                    std::reverse(bk.begin(), bk.end());
                    fw.push_back(f); bw.push_back(bk);
                }
                for (int i = 0; i < n; ++i) { gids.push_back(gr_slot_gid(slots[i])); finite &= std::isfinite(gr_slot_origin_X(slots[i])) && std::isfinite(gr_slot_origin_Y(slots[i])); }
            };
            bool finite; std::vector<int> gids; std::vector<std::vector<int>> fw, bw;
            observe(finite, gids, fw, bw);
            { vj::W w; w.str("e", "Seg").arr("ids", lines[0]).arr("gids", gids).raw("fw", arr2(fw)).raw("bw", arr2(bw)).str("font", font.substr(font.rfind('/') + 1)).i("dir", dir).i("ppm10", (long long)(ppm * 10)).i("beh", (long long)(bi % beh.size())).str("text", text);
              fprintf(tr, "%s\n", w.done().c_str()); }
            for (auto &o : b["hist"].a) {
                const std::string op = (*o)["op"].s;
                if (op == "break") {
                    if (shortseg) continue;
                    const int s = int((*o)["at"].num());
                    const int real = 1 + ((s - 1) * (n - 1)) / (N - 1);
                    // split the line containing `real`
                    size_t li = 0, k = 0; bool found = false;
                    for (li = 0; li < lines.size() && !found; ++li) for (k = 0; k < lines[li].size(); ++k) if (lines[li][k] == real) { found = true; break; }
                    --li;
                    if (!found || k == 0) continue;              // cannot happen: the map is strictly increasing
                    gr_slot_linebreak_before(const_cast<gr_slot *>(slots[real - 1]));
                    ++ncalls;
                    std::vector<int> a(lines[li].begin(), lines[li].begin() + k), c(lines[li].begin() + k, lines[li].end());
                    lines[li] = a; lines.insert(lines.begin() + li + 1, c);
                    observe(finite, gids, fw, bw);
                    vj::W w; w.str("e", "Break").i("at", real).raw("fw", arr2(fw)).raw("bw", arr2(bw)); fprintf(tr, "%s\n", w.done().c_str());
                } else {
                    const int li = shortseg ? 0 : int((*o)["line"].num()) - 1;
                    if (li < 0 || li >= int(lines.size())) continue;
                    const std::vector<int> &ln = lines[li];
                    auto pick = [&](const std::string &w) -> const gr_slot * { if (w == "null") return 0; if (w == "first") return slots[ln.front() - 1]; if (w == "last") return slots[ln.back() - 1]; return slots[ln[ln.size() / 2] - 1]; };
                    const gr_slot *head = slots[ln.front() - 1], *tail = slots[ln.back() - 1];
                    double natural = double(gr_slot_origin_X(tail)) + gr_slot_advance_X(tail, face, gf) - gr_slot_origin_X(head);
                    if (!(natural > 0) || !std::isfinite(natural)) natural = 100;
                    const std::string wd = (*o)["width"].s;
                    const double width = wd == "neg" ? -1.0 : wd == "zero" ? 0.0 : wd == "natural" ? natural : 2 * natural;
                    fflush(tr); alarm(90);
                    g_allbase = (dir & 1) ? 0 : 1;      // (in a right-to-left segment the sibling links of the bases run backwards)
                    for (int id : ln) if (gr_slot_attached_to(slots[id - 1])) g_allbase = 0;
                    g_jtr = tr; g_rule_sink = just_sink;
                    const float ret = gr_seg_justify(seg, head, gf, width, gr_justFlags(int((*o)["flags"].num())), pick((*o)["pf"].s), pick((*o)["pl"].s));
                    g_rule_sink = 0; g_jtr = 0;
                    alarm(0);
                    ++ncalls;
                    observe(finite, gids, fw, bw);
                    vj::W w; w.str("e", "Justify").i("line", li + 1).b("finite", finite && std::isfinite(ret)).b("nojust", nojust).arr("gids", gids).raw("fw", arr2(fw)).raw("bw", arr2(bw))
                        .str("width", wd).i("flags", (*o)["flags"].num()).str("pf", (*o)["pf"].s).str("pl", (*o)["pl"].s);
                    fprintf(tr, "%s\n", w.done().c_str());
                }
            }
            gr_seg_destroy(seg);
            fprintf(tr, "{\"e\":\"Destroy\"}\n");
        }
        if (gf) gr_font_destroy(gf);
    }
    for (auto &kv : faces) if (kv.second) gr_face_destroy(kv.second);
    fclose(sf); fclose(tr);
    vj::W w; w.i("segments", nseg).i("calls", ncalls).i("skipped_short", skipped);
    report_summary(w.done().c_str());
    return 0;
}
