#pragma once
#include <map>
#include <string>
namespace grv {
typedef int (*cmd_fn)(int argc, char **argv);
std::map<std::string, cmd_fn> & registry();
struct Reg { Reg(const char *n, cmd_fn f) { registry()[n] = f; } };
}
#define GRV_CMD(name) static int cmd_##name(int, char **); static grv::Reg reg_##name(#name, cmd_##name); static int cmd_##name(int argc, char **argv)
