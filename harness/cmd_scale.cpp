// C15: pairs of gr_make_seg calls (font = NULL vs an unhinted font of P ppm) recorded for validation by spec/Scale.tla.
#include "common.hpp"
#include "registry.hpp"
#include <fstream>

using namespace grv;

static long q1024(float v) { return std::lround(double(v) * 1024.0); }

// grv scale <jobs.ndjson> <records-out.ndjson>     job: {"font","file","dir","p2":[..],"maxlines","step"}
GRV_CMD(scale) {
    if (argc < 2) return 2;
    FILE *f = fopen(argv[0], "r"); if (!f) { perror(argv[0]); return 2; }
    FILE *out = fopen(argv[1], "w"); if (!out) { perror(argv[1]); return 2; }
    std::string line; long pairs = 0, skipped = 0;
    while (vj::readline(f, line)) {
        if (line.empty()) continue;
        vj::P j = vj::parse(line);
        const std::string font = (*j)["font"].s; const int dir = int(j->get("dir", 0));
        const long maxlines = j->get("maxlines", 1000000), step = j->get("step", 1);
        gr_face *face = gr_make_file_face(font.c_str(), int(j->get("opts", 0)));
        if (!face) { fprintf(stderr, "cannot load %s\n", font.c_str()); return 2; }
        const gr_faceinfo *fi = gr_face_info(face, 0);
        const long upem = fi ? fi->upem : 0;
        if (upem <= 0) { gr_face_destroy(face); continue; }
        gr_face *face2 = gr_make_file_face(font.c_str(), int(j->get("opts", 0)));       // a second face object of the same font
        // texts: lines of a file (cut to 400 bytes so that design-unit positions stay inside the fixed-point range)
        // or one explicit code point sequence
        std::vector<std::string> texts;
        if (j->has("cps")) {
            std::string u;
            for (auto &x : (*j)["cps"].a) { uint32_t c = uint32_t(x->num()); if (c == 0 || (c >= 0xD800 && c < 0xE000) || c > 0x10FFFF) continue;
                if (c < 0x80) u += char(c); else if (c < 0x800) { u += char(0xC0 | (c >> 6)); u += char(0x80 | (c & 63)); }
                else if (c < 0x10000) { u += char(0xE0 | (c >> 12)); u += char(0x80 | ((c >> 6) & 63)); u += char(0x80 | (c & 63)); }
                else { u += char(0xF0 | (c >> 18)); u += char(0x80 | ((c >> 12) & 63)); u += char(0x80 | ((c >> 6) & 63)); u += char(0x80 | (c & 63)); } }
            if (!u.empty()) texts.push_back(u);
        } else {
            std::ifstream in((*j)["file"].s);
            std::string l0; long ln0 = 0;
            while (std::getline(in, l0) && ln0 < maxlines) {
                if (l0.empty() || (ln0++ % step)) continue;
                if (l0.size() > 400) l0.resize(400);
                while (!l0.empty() && (l0.back() & 0xC0) == 0x80) l0.pop_back();
                if (!l0.empty() && (unsigned char)l0.back() >= 0xC0) l0.pop_back();
                texts.push_back(l0);
            }
        }
        long ln = j->get("lineno", 0);
        for (const std::string &l : texts) {
            ++ln;
            const size_t nch = gr_count_unicode_characters(gr_utf8, l.data(), l.data() + l.size(), 0);
            GRV_WATCHDOG;
            gr_segment *s0 = gr_make_seg(0, face, 0, 0, gr_utf8, l.data(), nch, dir);
            SegP p0 = project(s0, face, 0, true);
            for (auto &pv : (*j)["p2"].a) {
                const long p2 = long(pv->num());
                set_case("scale %s line=%ld p2=%ld", font.c_str(), ln, p2);
                gr_font *gf = gr_make_font(float(p2) / 2.0f, face);
                GRV_WATCHDOG;
                gr_segment *s1 = gr_make_seg(gf, face, 0, 0, gr_utf8, l.data(), nch, dir);
                SegP p1 = project(s1, face, gf, true);
                ++pairs; ++g_cases;
                if (!p1.wf.empty()) report_fail(p1.wfprop.c_str(), p1.wf, "null");
                // Segment.h: for an unhinted font the face may be omitted when asking for a slot's advance
                if (s1) { size_t k = 0; for (const gr_slot *q = gr_seg_first_slot(s1); q && k < p1.slots.size(); q = gr_slot_next_in_segment(q), ++k)
                    if (gr_slot_advance_X(q, 0, gf) != p1.slots[k].ax) { vj::W w; w.str("font", font).i("line", ln).i("p2", p2).i("slot", (long long)k); report_fail("C15", "gr_slot_advance_X without a face differs from the value with the face for an unhinted font", w.done()); break; } }
                // structure strings (font independent part) and position vectors
                auto structure = [](const SegP &p) { std::string r; char b[96]; for (auto &s : p.slots) { snprintf(b, sizeof b, "g%d i%d b%d a%d o%d p%d c%d s%d;", s.gid, s.index, s.before, s.after, s.original, s.parent, s.firstChild, s.nextSib); r += b; }
                                                     for (auto &c : p.chars) { snprintf(b, sizeof b, "u%X b%d a%d;", c.usv, c.before, c.after); r += b; } return r; };
                std::vector<long long> du, px;
                bool range = true;
                for (size_t k = 0; k < p0.slots.size() && k < p1.slots.size(); ++k) {
                    const SlotP &a = p0.slots[k], &b = p1.slots[k];
                    const float da[4] = {a.ox, a.oy, a.ax, a.ay}, pb[4] = {b.ox, b.oy, b.ax, b.ay};
                    for (int q = 0; q < 4; ++q) { du.push_back(q1024(da[q])); px.push_back(q1024(pb[q])); range &= std::fabs(da[q]) < 60000.f && std::fabs(pb[q]) < 1.9e6f; }
                }
                du.push_back(q1024(p0.advX)); px.push_back(q1024(p1.advX)); du.push_back(q1024(p0.advY)); px.push_back(q1024(p1.advY));
                du.push_back(0); px.push_back(0); du.push_back(0); px.push_back(0);
                range &= std::fabs(p0.advX) < 60000.f && std::fabs(p1.advX) < 1.9e6f;
                if (!range) ++skipped;
                else { vj::W w; w.str("font", font.substr(font.rfind('/') + 1)).i("line", ln).i("upem", upem).i("p2", p2).i("j", 0).str("s0", structure(p0)).str("s1", structure(p1)).arr("du", du).arr("px", px); fprintf(out, "%s\n", w.done().c_str()); }
                // the same relation after the segment has been cut into two lines and the second one justified (every fourth
                // pair): width, origins and the returned width are handed over in the units of the font used
                if (s0 && s1 && p0.slots.size() >= 4 && p0.slots.size() == p1.slots.size() && ((ln + p2) & 3) == 0) {
                    gr_segment *js[2] = { gr_make_seg(0, face, 0, 0, gr_utf8, l.data(), nch, dir), gr_make_seg(gf, face, 0, 0, gr_utf8, l.data(), nch, dir) };
                    const gr_font *jf[2] = { 0, gf };
                    const double sc[2] = { 1.0, double(p2) / (2.0 * double(upem)) };
                    std::vector<long long> jv[2]; bool jok = js[0] && js[1]; double natural = 0;
                    for (int w = 0; w < 2 && jok; ++w) {
                        std::vector<const gr_slot *> sl; for (const gr_slot *q = gr_seg_first_slot(js[w]); q; q = gr_slot_next_in_segment(q)) sl.push_back(q);
                        if (sl.size() != p0.slots.size()) { jok = false; break; }
                        const size_t cut = sl.size() / 2;
                        gr_slot_linebreak_before(const_cast<gr_slot *>(sl[cut]));
                        if (w == 0) { natural = std::fabs(double(gr_slot_origin_X(sl.back())) + gr_slot_advance_X(sl.back(), face, 0) - gr_slot_origin_X(sl[cut])); if (!(natural > 1) || !(natural < 50000)) natural = 1000; }
                        GRV_WATCHDOG;
                        const float ret = gr_seg_justify(js[w], sl[cut], jf[w], 1.25 * natural * sc[w], gr_justCompleteLine, 0, 0);
                        for (size_t k = cut; k < sl.size(); ++k) { jv[w].push_back(q1024(gr_slot_origin_X(sl[k]))); jv[w].push_back(q1024(gr_slot_origin_Y(sl[k]))); jv[w].push_back(q1024(gr_slot_advance_X(sl[k], face, jf[w]))); jv[w].push_back(0); }
                        jv[w].push_back(q1024(ret)); jv[w].push_back(0); jv[w].push_back(0); jv[w].push_back(0);
                        for (long long x : jv[w]) if (std::llabs(x) > (w ? 1900000000LL : 61000000LL)) jok = false;
                    }
                    if (jok && jv[0].size() == jv[1].size()) { ++pairs; vj::W w; w.str("font", font.substr(font.rfind('/') + 1)).i("line", ln).i("upem", upem).i("p2", p2).i("j", 1).str("s0", "").str("s1", "").arr("du", jv[0]).arr("px", jv[1]); fprintf(out, "%s\n", w.done().c_str()); }
                    for (int w = 0; w < 2; ++w) if (js[w]) gr_seg_destroy(js[w]);
                }
                // a gr_font of the same size made from ANOTHER face object of the same font: the same positions
                if (s1 && face2 && ((ln + p2) % 5) == 0) {
                    gr_font *gf2 = gr_make_font(float(p2) / 2.0f, face2);
                    gr_segment *s2 = gr_make_seg(gf2, face, 0, 0, gr_utf8, l.data(), nch, dir);
                    SegP p2p = project(s2, face, gf2, true);
                    bool same = p2p.slots.size() == p1.slots.size() && p2p.advX == p1.advX && p2p.advY == p1.advY;
                    for (size_t k = 0; same && k < p1.slots.size(); ++k) same = p2p.slots[k].ox == p1.slots[k].ox && p2p.slots[k].oy == p1.slots[k].oy && p2p.slots[k].ax == p1.slots[k].ax && p2p.slots[k].gid == p1.slots[k].gid;
                    if (!same) { vj::W w; w.str("font", font).i("line", ln).i("p2", p2); report_fail("C15", "a gr_font made from another face object of the same font gives other positions than one made from this face", w.done()); }
                    if (s2) gr_seg_destroy(s2);
                    gr_font_destroy(gf2);
                }
                if (s1) gr_seg_destroy(s1);
                gr_font_destroy(gf);
            }
            if (s0) gr_seg_destroy(s0);
        }
        gr_face_destroy(face);
        if (face2) gr_face_destroy(face2);
    }
    fclose(f); fclose(out);
    vj::W w; w.i("pairs", pairs).i("out_of_fixed_point_range", skipped);
    report_summary(w.done().c_str());
    return 0;
}
