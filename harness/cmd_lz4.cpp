// C14 (decoder clause): replay of spec/Lz4.tla cases into lz4::decompress on exact-size guarded buffers.
#include "common.hpp"
#include "registry.hpp"
#include "inc/Decompressor.h"

using namespace grv;

// grv lz4 <cases.ndjson>
GRV_CMD(lz4) {
    if (argc < 1) return 2;
    FILE *f = fopen(argv[0], "r"); if (!f) { perror(argv[0]); return 2; }
    std::string line; long calls = 0, accepted = 0, rejected = 0;
    while (vj::readline(f, line)) {
        if (line.empty()) continue;
        vj::P v = vj::parse(line);
        ++g_cases;
        std::vector<long long> in = (*v)["in"].ints(), ref = (*v)["ref"].ints();
        const size_t osize = size_t((*v)["osize"].num());
        const bool refok = (*v)["refok"].truth(), must = (*v)["must"].truth();
        for (int front = 0; front < 2; ++front) {
            set_case("lz4 line=%ld front=%d in_size=%zu out_size=%zu", g_cases, front, in.size(), osize);
            Guarded gi(in.size(), front != 0), go(osize, front != 0);
            for (size_t i = 0; i < in.size(); ++i) gi.data()[i] = uint8_t(in[i]);
            memset(go.data(), 0xCD, osize);
            ++calls;
            const int ret = lz4::decompress(gi.data(), in.size(), go.data(), osize);
            std::string why;
            if (ret == int(osize)) {
                ++accepted;
                if (!refok || ref.size() != osize) why = "decoder produced the announced size but the block is not a valid encoding of that many bytes";
                else for (size_t i = 0; i < osize; ++i) if (go.data()[i] != uint8_t(ref[i])) { why = "decoded byte " + std::to_string(i) + " differs from the LZ4 block format's plaintext"; break; }
            } else {
                ++rejected;
                if (must) why = "a conforming encoding shorter than its plaintext was rejected (returned " + std::to_string(ret) + ")";
                else if (ret > int(osize)) why = "decoder returned more than the announced output size";
            }
            if (!why.empty()) { vj::W w; w.arr("in", in).i("osize", (long long)osize).i("ret", ret).b("front_guard", front != 0); report_fail("C14", why, w.done()); break; }
        }
    }
    fclose(f);
    vj::W w; w.i("calls", calls).i("accepted", accepted).i("rejected", rejected);
    report_summary(w.done().c_str());
    return 0;
}
