// C16 (and history replay for C08): executes TLC-generated client histories of spec/FaceLife.tla on a face served by
// the instrumented table callbacks, and records Call/Get/Rel/Ret/Quiesce events for validation by FaceLifeTrace.
#include "common.hpp"
#include "registry.hpp"
#include "tableface.hpp"

extern "C" size_t __sanitizer_get_current_allocated_bytes() __attribute__((weak));

using namespace grv;

namespace {
std::string fontdir;
bool prepare(TableFace &tf, const std::string &kind) {
    if (kind == "compressed") return tf.load(fontdir + "/Awami_compressed_test.ttf");
    if (!tf.load(fontdir + "/Padauk.ttf")) return false;
    if (kind == "noname") tf.drop("name");
    else if (kind == "badlabel") {      // every Windows-platform name string ends in an unpaired lead surrogate
        std::vector<uint8_t> n = tf.tables[tagof("name")];
        const unsigned cnt = be16(&n[2]), so = be16(&n[4]);
        for (unsigned i = 0; i < cnt; ++i) {
            const uint8_t *r = &n[6 + 12 * i];
            if (be16(r) == 3 && be16(r + 8) >= 2) { size_t at = so + be16(r + 10) + be16(r + 8) - 2; if (at + 1 < n.size()) { n[at] = 0xD8; n[at + 1] = 0x3D; } }
        }
        tf.tables[tagof("name")] = n;
    }
    else if (kind == "nocmap") tf.drop("cmap");
    else if (kind == "nogloc") tf.drop("Gloc");
    else if (kind == "badsilf") { std::vector<uint8_t> s = tf.tables[tagof("Silf")]; s[1] = 1; s[0] = 0; tf.tables[tagof("Silf")] = s; }   // version 1.0: too old
    return true;
}
const uint32_t T_PADAUK[2][6] = {{0x1000, 0x103C, 0x102D, 0x102F, 0x20, 0x41}, {0x1004, 0x103A, 0x1039, 0x1005, 0x1031, 0x1038}};
const uint32_t T_AWAMI[2][6] = {{0x0628, 0x0628, 0x064E, 0x0644, 0x0627, 0x06CC}, {0x06A9, 0x06CC, 0x0627, 0x20, 0x0646, 0x06C1}};
}

// grv facelife <histories.ndjson> <trace-out.ndjson> <fontdir>
GRV_CMD(facelife) {
    if (argc < 3) return 2;
    FILE *f = fopen(argv[0], "r"); if (!f) { perror(argv[0]); return 2; }
    FILE *tr = fopen(argv[1], "w"); if (!tr) { perror(argv[1]); return 2; }
    fontdir = argv[2];
    std::string line; long calls = 0, histories = 0;
    while (vj::readline(f, line)) {
        if (line.empty()) continue;
        vj::P v = vj::parse(line);
        ++g_cases; ++histories;
        const std::string kind = (*v)["kind"].s;
        set_case("facelife line=%ld %s", g_cases, line.substr(0, 300).c_str());
        TableFace *tf = new TableFace();
        if (!prepare(*tf, kind)) { fprintf(stderr, "cannot prepare font kind %s\n", kind.c_str()); return 2; }
        tf->events.reserve(4096); tf->bufs.reserve(512);
        fprintf(tr, "{\"e\":\"Reset\",\"kind\":\"%s\"}\n", kind.c_str());
        size_t cursor = 0;
        auto flush_events = [&]() {
            for (; cursor < tf->events.size(); ++cursor) {
                const TableFace::Event &e = tf->events[cursor];
                if (e.kind == 'G') fprintf(tr, "{\"e\":\"Get\",\"tag\":\"%s\",\"buf\":%d}\n", tagstr(e.tag).c_str(), e.buf);
                else fprintf(tr, "{\"e\":\"Rel\",\"buf\":%d}\n", e.buf);
            }
        };
        gr_face *face = 0; std::vector<gr_font *> fonts; std::vector<gr_segment *> segs; std::vector<gr_feature_val *> fvals;
        fonts.reserve(8); segs.reserve(8); fvals.reserve(8);
        const size_t mem0 = &__sanitizer_get_current_allocated_bytes ? __sanitizer_get_current_allocated_bytes() : 0;
        const bool awami = kind == "compressed";
        for (auto &o : (*v)["hist"].a) {
            const std::string op = (*o)["op"].s; const long arg = long((*o)["arg"].num());
            ++calls;
            fprintf(tr, "{\"e\":\"Call\",\"op\":\"%s\",\"arg\":%ld}\n", op.c_str(), arg);
            int ok = 1;
            if (op == "make_face") { face = tf->make(unsigned(arg)); ok = face != 0; }
            else if (op == "label") {
                const gr_feature_ref *r = gr_face_n_fref(face) ? gr_face_fref(face, 0) : 0;
                if (r) { gr_uint16 lang = 0x409; gr_uint32 len = 0; void *p = gr_fref_label(r, &lang, gr_utf8, &len); if (p) gr_label_destroy(p);
                         if (gr_fref_n_values(r)) { lang = 0x409; p = gr_fref_value_label(r, 0, &lang, gr_utf16, &len); if (p) gr_label_destroy(p); } }
            }
            else if (op == "face_query") {
                volatile unsigned sink = gr_face_n_glyphs(face) + gr_face_n_fref(face) + gr_face_n_languages(face) + gr_face_is_char_supported(face, 0x1000, 0) + gr_face_is_char_supported(face, 0x10FFFF, 0);
                const gr_faceinfo *fi = gr_face_info(face, 0); sink = sink + (fi ? fi->extra_ascent : 0);
                for (unsigned k = 0; k < gr_face_n_languages(face); ++k) sink = sink + gr_face_lang_by_index(face, gr_uint16(k));
                (void)sink;
            }
            else if (op == "featval") fvals.push_back(gr_face_featureval_for_lang(face, 0));
            else if (op == "destroy_fval") { gr_featureval_destroy(fvals.back()); fvals.pop_back(); }
            else if (op == "make_font") { gr_font *gf = gr_make_font(arg ? float(arg) : 16.5f, face); fonts.push_back(gf); ok = gf != 0; }
            else if (op == "destroy_font") { gr_font_destroy(fonts.back()); fonts.pop_back(); }
            else if (op == "make_seg") {
                const uint32_t *t = awami ? T_AWAMI[arg & 1] : T_PADAUK[arg & 1];
                gr_segment *s = gr_make_seg(fonts.empty() ? 0 : fonts.back(), face, 0, fvals.empty() ? 0 : fvals.back(), gr_utf32, t, 6, awami ? 1 : 0);
                segs.push_back(s); ok = s != 0;
            }
            else if (op == "query_seg") { if (segs.back()) { SegP p = project(segs.back(), face, fonts.empty() ? 0 : fonts.back(), true); if (!p.wf.empty()) report_fail(p.wfprop.c_str(), p.wf, "null"); } }
            else if (op == "justify") { if (segs.back() && gr_seg_first_slot(segs.back())) gr_seg_justify(segs.back(), gr_seg_first_slot(segs.back()), fonts.empty() ? 0 : fonts.back(), 500.0, gr_justCompleteLine, 0, 0); }
            else if (op == "destroy_seg") { if (segs.back()) gr_seg_destroy(segs.back()); segs.pop_back(); }
            else if (op == "destroy_face") { gr_face_destroy(face); face = 0; }
            flush_events();
            // tags still borrowed
            std::string held = "[";
            bool first = true;
            for (auto &b : tf->bufs) if (!b.released) { held += (first ? "\"" : ",\"") + tagstr(b.tag) + "\""; first = false; }
            held += "]";
            fprintf(tr, "{\"e\":\"Ret\",\"op\":\"%s\",\"arg\":%ld,\"ok\":%d,\"held\":%s}\n", op.c_str(), arg, ok, held.c_str());
            if (tf->doubleRel || tf->unknownRel) { report_fail("C16", "release_table called twice for a buffer or with a pointer get_table never returned", "null"); tf->doubleRel = tf->unknownRel = 0; }
        }
        // the model only emits histories in which the client destroyed everything it owns
        const size_t mem1 = &__sanitizer_get_current_allocated_bytes ? __sanitizer_get_current_allocated_bytes() : 0;
        fprintf(tr, "{\"e\":\"Quiesce\",\"live\":%ld}\n", long(mem1) - long(mem0));
        delete tf;
    }
    fclose(f); fclose(tr);
    vj::W w; w.i("calls", calls).i("histories", histories);
    report_summary(w.done().c_str());
    return 0;
}
