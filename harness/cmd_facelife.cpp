// C16 (and history replay for C08): executes TLC-generated client histories of spec/FaceLife.tla on a face served by
// the instrumented table callbacks, and records Call/Get/Rel/Ret/Quiesce events for validation by FaceLifeTrace.
#include "common.hpp"
#include "registry.hpp"
#include "tableface.hpp"

extern "C" size_t __sanitizer_get_current_allocated_bytes() __attribute__((weak));

using namespace grv;

namespace {
std::string fontdir, stagedir;
std::string file_of(const std::string &kind) {
    if (kind == "name1") return stagedir + "/facelife_name1.ttf";      // written by stage_files()
    if (kind == "fmt12") return fontdir + "/charis_r_gr.ttf";         // cmap with a format 12 and a format 4 subtable
    if (kind == "charisfast") return fontdir + "/charis_fast.ttf";    // passes guarded by constraints on feature values
    if (kind == "underflow") return fontdir + "/underflow.ttf";        // shaping "baaaaaab" is refused at run time: the call returns NULL
    return fontdir + (kind == "compressed" || kind == "badlz4" || kind == "badlz4s" ? "/Awami_compressed_test.ttf" : kind == "awami" ? "/AwamiNastaliq-Regular.ttf" : "/Padauk.ttf");
}
bool prepare(TableFace &tf, const std::string &kind) {
    if (!tf.load(kind == "name1" ? fontdir + "/Padauk.ttf" : file_of(kind))) return false;
    if (kind == "name1") {             // a name table of format 1: well formed OpenType, but not a table the library reads
        std::vector<uint8_t> n = tf.tables[tagof("name")];
        if (n.size() < 6) return false;
        n[0] = 0; n[1] = 1;
        tf.tables[tagof("name")] = n;
        return true;
    }
    if (kind == "compressed" || kind == "awami" || kind == "underflow" || kind == "fmt12" || kind == "charisfast") return true;
    if (kind == "badlz4" || kind == "badlz4s") {      // the compressed Glat / Silf payload is damaged: decompression fails
        std::vector<uint8_t> t = tf.tables[tagof(kind == "badlz4" ? "Glat" : "Silf")];
        for (size_t i = t.size() / 3; i < t.size() / 3 + 24 && i < t.size(); ++i) t[i] = 0xFF;
        tf.tables[tagof(kind == "badlz4" ? "Glat" : "Silf")] = t;
        return true;
    }
    if (kind == "badglyph") {          // glyph 99 (U+1000) gets an empty attribute range: it cannot be loaded
        std::vector<uint8_t> g = tf.tables[tagof("Gloc")];
        const bool lng = be16(&g[4]) & 1; const size_t esz = lng ? 4 : 2, at = 8 + esz * 99;
        if (at + 2 * esz <= g.size()) memcpy(&g[at], &g[at + esz], esz);
        tf.tables[tagof("Gloc")] = g;
    }
    if (kind == "hiddenfeat") {        // every feature carries the hidden flag: gr_face_n_fref reports none
        std::vector<uint8_t> ft = tf.tables[tagof("Feat")];
        if (ft.size() >= 12) {
            const bool v2 = be16(&ft[0]) >= 2; const unsigned n = be16(&ft[4]); const size_t rec = v2 ? 16 : 12, fo = v2 ? 12 : 8;
            for (unsigned i = 0; i < n && 12 + rec * i + fo + 1 < ft.size(); ++i) ft[12 + rec * i + fo] |= 0x08;
        }
        tf.tables[tagof("Feat")] = ft;
    }
    if (kind == "badfeat" || kind == "badfeat2") {      // Feat: a settings offset beyond the table / a settings array running past its end
        std::vector<uint8_t> ft = tf.tables[tagof("Feat")];
        if (ft.size() < 12) return false;
        const bool v2 = be16(&ft[0]) >= 2; const unsigned n = be16(&ft[4]); const size_t rec = v2 ? 16 : 12;
        const unsigned i = kind == "badfeat" ? 0 : (n > 1 ? n - 1 : 0);
        uint8_t *r = &ft[12 + rec * i];
        if (12 + rec * (i + 1) > ft.size()) return false;
        if (kind == "badfeat") { uint8_t *o = r + (v2 ? 8 : 4); o[0] = 0x7F; o[1] = 0xFF; o[2] = 0xFF; o[3] = 0xF0; }
        else { uint8_t *c = r + (v2 ? 4 : 2); c[0] = 0xFF; c[1] = 0xFF; }
        tf.tables[tagof("Feat")] = ft;
    }
    if (kind == "badsill") {           // Sill: the last language's settings lie beyond the table
        std::vector<uint8_t> sl = tf.tables[tagof("Sill")];
        if (sl.size() < 20) return false;
        const unsigned n = be16(&sl[4]);
        if (!n || 12 + 8 * size_t(n) > sl.size()) return false;
        uint8_t *e = &sl[12 + 8 * (n - 1)];
        e[4] = 0; e[5] = 3; e[6] = 0xFF; e[7] = 0xF0;
        tf.tables[tagof("Sill")] = sl;
    }
    // zero-length tables: the client hands out a (non-NULL) buffer of length 0, which has to come back like any other
    if (kind == "emptyname") tf.tables[tagof("name")] = std::vector<uint8_t>();
    if (kind == "emptyglyf") tf.tables[tagof("glyf")] = std::vector<uint8_t>();
    if (kind == "noname") tf.drop("name");
    else if (kind == "badlabel") {      // every Windows-platform name string ends in an unpaired lead surrogate
        std::vector<uint8_t> n = tf.tables[tagof("name")];
        const unsigned cnt = be16(&n[2]), so = be16(&n[4]);
        for (unsigned i = 0; i < cnt; ++i) {
            const uint8_t *r = &n[6 + 12 * i];
            if (be16(r) == 3 && be16(r + 8) >= 2) { size_t at = so + be16(r + 10) + be16(r + 8) - 2; if (at + 1 < n.size()) { n[at] = 0xD8; n[at + 1] = 0x3D; } }
        }
        tf.tables[tagof("name")] = n;
    }
    else if (kind == "nocmap") tf.drop("cmap");
    else if (kind == "nogloc") tf.drop("Gloc");
    else if (kind == "badsilf") { std::vector<uint8_t> s = tf.tables[tagof("Silf")]; s[1] = 1; s[0] = 0; tf.tables[tagof("Silf")] = s; }   // version 1.0: too old
    return true;
}
// kinds that are also served from disk but are not shipped: written next to the trace
bool stage_files() {
    TableFace tf;
    if (!prepare(tf, "name1")) return false;
    const std::string d = tf.to_sfnt();
    FILE *o = fopen(file_of("name1").c_str(), "wb"); if (!o) return false;
    const bool ok = fwrite(d.data(), 1, d.size(), o) == d.size();
    fclose(o);
    return ok;
}
std::vector<std::string> texts_padauk, texts_awami;
const std::vector<std::string> texts_latin = {"Hello World", "affix \xF0\x9D\x94\x90 fi", "The Quick Brown", "small caps 123", "e\xCC\x81\xCC\x80 a\xCC\x8A", "WAVE Typography", "office", "Q"};
const std::vector<std::string> texts_underflow = {"baaaaaab", "ab", "baab", "baaaaaab b", "a", "bab", "baaaaaab", "abba"};
std::vector<std::string> read_lines(const std::string &p) { std::vector<std::string> r; std::string d = slurp(p), cur; for (char c : d) { if (c == '\n') { if (!cur.empty()) r.push_back(cur); cur.clear(); } else cur += c; } if (!cur.empty()) r.push_back(cur); return r; }
uint64_t fnv(const std::string &s) { uint64_t h = 1469598103934665603ULL; for (unsigned char c : s) { h ^= c; h *= 1099511628211ULL; } return h; }
std::string self_report(const gr_face *face) {
    std::string r = "g" + std::to_string(gr_face_n_glyphs(face)) + " f" + std::to_string(gr_face_n_fref(face)) + " l" + std::to_string(gr_face_n_languages(face));
    for (unsigned k = 0; k < gr_face_n_fref(face); ++k) {
        const gr_feature_ref *q = gr_face_fref(face, gr_uint16(k));
        r += " [" + std::to_string(gr_fref_id(q)) + ":";
        for (unsigned j = 0; j < gr_fref_n_values(q); ++j) r += std::to_string(gr_fref_value(q, gr_uint16(j))) + ",";
        r += "]";
    }
    for (unsigned k = 0; k < gr_face_n_languages(face); ++k) {
        const gr_uint32 lg = gr_face_lang_by_index(face, gr_uint16(k)); r += " L" + std::to_string(lg);
        gr_feature_val *fv = gr_face_featureval_for_lang(face, lg);
        for (unsigned q = 0; q < gr_face_n_fref(face); ++q) r += "," + std::to_string(gr_fref_feature_value(gr_face_fref(face, gr_uint16(q)), fv));
        gr_featureval_destroy(fv);
    }
    const gr_uint32 cps[] = {0, 0x20, 0x41, 0x3B1, 0x627, 0x6A9, 0x1000, 0x1039, 0x109F, 0x200C, 0x25CC, 0xFFFF, 0x10000, 0x1D510, 0x10FFFF};
    for (gr_uint32 c : cps) r += gr_face_is_char_supported(face, c, 0) ? "1" : "0";
    const gr_faceinfo *fi = gr_face_info(face, 0);
    if (fi) r += " i" + std::to_string(fi->extra_ascent) + "," + std::to_string(fi->extra_descent) + "," + std::to_string(fi->upem) + "," + std::to_string(fi->has_bidi_pass) + std::to_string(fi->line_ends) + std::to_string(fi->justifies);
    return r;
}
}

// grv facelife <histories.ndjson> <trace-out.ndjson> <fontdir>
GRV_CMD(facelife) {
    if (argc < 3) return 2;
    FILE *f = fopen(argv[0], "r"); if (!f) { perror(argv[0]); return 2; }
    FILE *tr = fopen(argv[1], "w"); if (!tr) { perror(argv[1]); return 2; }
    fontdir = argv[2];
    { std::string t = argv[1]; size_t sl = t.rfind('/'); stagedir = sl == std::string::npos ? "." : t.substr(0, sl); }
    if (!stage_files()) { fprintf(stderr, "cannot stage font files in %s\n", stagedir.c_str()); return 2; }
    const std::string datadir = argc > 3 ? argv[3] : ".";
    texts_padauk = read_lines(datadir + "/texts_padauk.txt"); texts_awami = read_lines(datadir + "/texts_awami.txt");
    if (texts_padauk.size() < 8 || texts_awami.size() < 8) { fprintf(stderr, "text files missing in %s\n", datadir.c_str()); return 2; }
    std::string line; long calls = 0, histories = 0;
    while (vj::readline(f, line)) {
        if (line.empty()) continue;
        vj::P v = vj::parse(line);
        ++g_cases; ++histories;
        const std::string kind = (*v)["kind"].s;
        set_case("facelife line=%ld %s", g_cases, line.substr(0, 300).c_str());
        TableFace *tf = new TableFace();
        if (!prepare(*tf, kind)) { fprintf(stderr, "cannot prepare font kind %s\n", kind.c_str()); return 2; }
        tf->events.reserve(4096); tf->bufs.reserve(512);
        // a face made without a release_table callback (make_face argument 16..23) never hands anything back
        const bool norel = !(*v)["hist"].a.empty() && (*(*v)["hist"].a[0])["op"].s == "make_face" && (*(*v)["hist"].a[0])["arg"].num() >= 16 && (*(*v)["hist"].a[0])["arg"].num() < 24;
        tf->noRelease = norel;
        fprintf(tr, "{\"e\":\"Reset\",\"kind\":\"%s\",\"nr\":%d}\n", kind.c_str(), norel ? 1 : 0);
        size_t cursor = 0;
        auto flush_events = [&]() {
            for (; cursor < tf->events.size(); ++cursor) {
                const TableFace::Event &e = tf->events[cursor];
                if (e.kind == 'G') fprintf(tr, "{\"e\":\"Get\",\"tag\":\"%s\",\"buf\":%d}\n", tagstr(e.tag).c_str(), e.buf);
                else fprintf(tr, "{\"e\":\"Rel\",\"buf\":%d}\n", e.buf);
            }
        };
        gr_face *face = 0; std::vector<gr_font *> fonts; std::vector<gr_segment *> segs; std::vector<gr_feature_val *> fvals; std::vector<long> fvlang;
        std::vector<std::string> segkeys; std::vector<float> fontppm;
        fonts.reserve(8); segs.reserve(8); fvals.reserve(8); fvlang.reserve(8); segkeys.reserve(8); fontppm.reserve(8);
        const size_t mem0 = &__sanitizer_get_current_allocated_bytes ? __sanitizer_get_current_allocated_bytes() : 0;
        const bool awami = kind == "compressed" || kind == "awami";
        for (auto &o : (*v)["hist"].a) {
            const std::string op = (*o)["op"].s; const long arg = long((*o)["arg"].num());
            ++calls;
            fprintf(tr, "{\"e\":\"Call\",\"op\":\"%s\",\"arg\":%ld}\n", op.c_str(), arg);
            int ok = 1; std::string h, key;
            if (op == "make_face") { face = arg >= 8 && arg < 16 ? gr_make_file_face(file_of(kind).c_str(), unsigned(arg - 8)) : arg >= 24 ? tf->make_with_seg_cache(unsigned(arg & 7)) : tf->make(unsigned(arg & 7)); ok = face != 0; }
            else if (op == "label") {
                // hidden features are not counted by gr_face_n_fref but can be found by their id
                gr_uint32 firstId = 0;
                { auto it = tf->tables.find(tagof("Feat")); if (it != tf->tables.end() && it->second.size() >= 16) firstId = be16(&it->second[0]) >= 2 ? ((gr_uint32(be16(&it->second[12])) << 16) | be16(&it->second[14])) : be16(&it->second[12]); }
                const gr_feature_ref *r = gr_face_n_fref(face) ? gr_face_fref(face, 0) : gr_face_find_fref(face, firstId);
                // what the face says about its first feature is part of "the features reported" (C10) and of the results (C08)
                std::string rep = r ? "f" + std::to_string(gr_fref_id(r)) : "nofeature";
                if (r) { gr_uint16 lang = 0x409; gr_uint32 len = 0; void *p = gr_fref_label(r, &lang, gr_utf8, &len);
                         rep += p ? " L" + std::to_string(lang) + ":" + std::to_string(len) + ":" + std::string((const char *)p, len) : " nolabel";
                         if (p) gr_label_destroy(p);
                         if (gr_fref_n_values(r)) { lang = 0x409; len = 0; p = gr_fref_value_label(r, 0, &lang, gr_utf16, &len);
                             rep += p ? " V" + std::to_string(lang) + ":" + std::to_string(len) + ":" : " novlabel";
                             if (p) { for (gr_uint32 q = 0; q < len; ++q) rep += std::to_string(((const gr_uint16 *)p)[q]) + ","; gr_label_destroy(p); } } }
                h = std::to_string(fnv(rep)); key = "label";
            }
            else if (op == "face_query") {
                volatile unsigned sink = gr_face_n_glyphs(face) + gr_face_n_fref(face) + gr_face_n_languages(face) + gr_face_is_char_supported(face, 0x1000, 0) + gr_face_is_char_supported(face, 0x10FFFF, 0);
                (void)sink;
                h = std::to_string(fnv(self_report(face))); key = "self";
            }
            else if (op == "featval") {     // argument 0: the font's defaults; 1: the settings of the first language the font lists
                const gr_uint32 lg = arg && gr_face_n_languages(face) ? gr_face_lang_by_index(face, 0) : 0;
                fvals.push_back(gr_face_featureval_for_lang(face, lg)); fvlang.push_back(lg ? 1 : 0);
                std::string rep;
                for (unsigned q = 0; q < gr_face_n_fref(face); ++q) rep += std::to_string(gr_fref_feature_value(gr_face_fref(face, gr_uint16(q)), fvals.back())) + ",";
                h = std::to_string(fnv(rep)); key = "fv" + std::to_string(fvlang.back());
            }
            else if (op == "edit_fval") {   // every feature of the newest object is set to its last (usually highest) value, in place
                for (unsigned q = 0; q < gr_face_n_fref(face); ++q) { const gr_feature_ref *r = gr_face_fref(face, gr_uint16(q)); const unsigned nv = gr_fref_n_values(r);
                    if (nv) gr_fref_set_feature_value(r, gr_uint16(gr_fref_value(r, gr_uint16(nv - 1))), fvals.back()); }
                fvlang.back() = 2 + (fvlang.back() & 1);      // 2: was the defaults, 3: was the language's settings
            }
            else if (op == "destroy_fval") { gr_featureval_destroy(fvals.back()); fvals.pop_back(); fvlang.pop_back(); }
            else if (op == "make_font") { const float ppm = arg ? float(arg) : 16.5f; gr_font *gf = gr_make_font(ppm, face); fonts.push_back(gf); fontppm.push_back(ppm); ok = gf != 0; }
            else if (op == "destroy_font") { gr_font_destroy(fonts.back()); fonts.pop_back(); fontppm.pop_back(); }
            else if (op == "make_seg") {
                const std::vector<std::string> &tl = kind == "underflow" ? texts_underflow : (kind == "fmt12" || kind == "charisfast") ? texts_latin : awami ? texts_awami : texts_padauk;
                const std::string &t = tl[size_t(arg) % tl.size()];
                const size_t nch = gr_count_unicode_characters(gr_utf8, t.data(), t.data() + t.size(), 0);
                GRV_WATCHDOG;
                gr_segment *s = gr_make_seg(fonts.empty() ? 0 : fonts.back(), face, 0, fvals.empty() ? 0 : fvals.back(), gr_utf8, t.data(), nch, awami ? 1 : 0);
                segs.push_back(s); ok = s != 0;
                key = "t" + std::to_string(size_t(arg) % tl.size()) + ":p" + std::to_string(fonts.empty() ? 0 : int(fontppm.back() * 10)) + (fvlang.empty() || !fvlang.back() ? "" : fvlang.back() == 2 ? ":edited0" : fvlang.back() == 3 ? ":edited1" : ":lang");
                segkeys.push_back(key);
                SegP p = project(s, face, fonts.empty() ? 0 : fonts.back(), kind != "badglyph");
                if (!p.wf.empty()) { vj::W w; w.str("kind", kind).i("text", arg); report_fail(p.wfprop.c_str(), p.wf, w.done()); }
                h = std::to_string(fnv(dump(p)));
            }
            else if (op == "shape") {
                const std::vector<std::string> &tl = kind == "underflow" ? texts_underflow : (kind == "fmt12" || kind == "charisfast") ? texts_latin : awami ? texts_awami : texts_padauk;
                const std::string &t = tl[size_t(arg) % tl.size()];
                const size_t nch = gr_count_unicode_characters(gr_utf8, t.data(), t.data() + t.size(), 0);
                GRV_WATCHDOG;
                // (shaped with the client's newest feature-value object when it has one, like make_seg)
                gr_segment *s = gr_make_seg(fonts.empty() ? 0 : fonts.back(), face, 0, fvals.empty() ? 0 : fvals.back(), gr_utf8, t.data(), nch, awami ? 1 : 0);
                key = "t" + std::to_string(size_t(arg) % tl.size()) + ":p" + std::to_string(fonts.empty() ? 0 : int(fontppm.back() * 10))
                      + (fvlang.empty() || !fvlang.back() ? "" : fvlang.back() == 2 ? ":edited0" : fvlang.back() == 3 ? ":edited1" : ":lang");
                SegP p = project(s, face, fonts.empty() ? 0 : fonts.back(), kind != "badglyph");
                if (!p.wf.empty()) { vj::W w; w.str("kind", kind).i("text", arg); report_fail(p.wfprop.c_str(), p.wf, w.done()); }
                h = std::to_string(fnv(dump(p)));
                if (s) gr_seg_destroy(s);
            }
            else if (op == "query_seg") {
                if (segs.back() && !segkeys.back().empty()) {
                    // the font used for advances is the one the segment was made with only if it is still the newest; query without it
                    SegP p = project(segs.back(), face, 0, kind != "badglyph");
                    if (!p.wf.empty()) report_fail(p.wfprop.c_str(), p.wf, "null");
                    key = segkeys.back() + ":q"; h = std::to_string(fnv(dump(p)));
                }
            }
            else if (op == "justify") { if (segs.back() && gr_seg_first_slot(segs.back())) { gr_seg_justify(segs.back(), gr_seg_first_slot(segs.back()), fonts.empty() ? 0 : fonts.back(), 500.0, gr_justCompleteLine, 0, 0); segkeys.back().clear(); } }
            else if (op == "destroy_seg") { if (segs.back()) gr_seg_destroy(segs.back()); segs.pop_back(); segkeys.pop_back(); }
            else if (op == "destroy_face") { gr_face_destroy(face); face = 0; }
            flush_events();
            // tags still borrowed
            std::string held = "[";
            bool first = true;
            for (auto &b : tf->bufs) if (!b.released) { held += (first ? "\"" : ",\"") + tagstr(b.tag) + "\""; first = false; }
            held += "]";
            fprintf(tr, "{\"e\":\"Ret\",\"op\":\"%s\",\"arg\":%ld,\"ok\":%d,\"held\":%s,\"h\":\"%s\",\"key\":\"%s\"}\n", op.c_str(), arg, ok, held.c_str(), h.c_str(), key.c_str());
            if (tf->doubleRel || tf->unknownRel) { report_fail("C16", "release_table called twice for a buffer or with a pointer get_table never returned", "null"); tf->doubleRel = tf->unknownRel = 0; }
        }
        // the model only emits histories in which the client destroyed everything it owns
        const size_t mem1 = &__sanitizer_get_current_allocated_bytes ? __sanitizer_get_current_allocated_bytes() : 0;
        fprintf(tr, "{\"e\":\"Quiesce\",\"live\":%ld}\n", long(mem1) - long(mem0));
        delete tf;
    }
    fclose(f); fclose(tr);
    vj::W w; w.i("calls", calls).i("histories", histories);
    report_summary(w.done().c_str());
    return 0;
}
