// Replay of spec/ReverseSlots.tla: every sequence of bases and marks is shaped against the direction of a synthesised font
// whose glyph 'f' has bidi class 16 (and whose only rule changes nothing); hook event 8 records the stream after every
// call of Segment::reverseSlots, the public API the stream the client finally sees.  spec/ReverseSlotsTrace.tla validates.
#include "common.hpp"
#include "registry.hpp"
#include "inc/Verif.h"

using namespace grv;

namespace {
FILE *g_rv = 0; std::vector<long> g_cur; long g_calls = 0;
void rev_sink(int ev, long a, long b, long, long) {
    if (!g_rv || ev != 8) return;
    if (a >= 0) { g_cur.push_back(b + 1); return; }
    std::string o = "[";
    for (size_t k = 0; k < g_cur.size(); ++k) { if (k) o += ","; o += std::to_string(g_cur[k]); }
    fprintf(g_rv, "{\"e\":\"Rev\",\"order\":%s]}\n", o.c_str());
    g_cur.clear(); ++g_calls;
}
}

// grv revslots <cases.ndjson> <font> <trace-out.ndjson>
GRV_CMD(revslots) {
    if (argc < 3) return 2;
    FILE *f = fopen(argv[0], "r"); if (!f) { perror(argv[0]); return 2; }
    FILE *tr = fopen(argv[2], "w"); if (!tr) { perror(argv[2]); return 2; }
    gr_face *face = gr_make_file_face(argv[1], 0);
    if (!face) { fprintf(stderr, "cannot load %s\n", argv[1]); return 2; }
    std::string line; long segs = 0;
    const char bases[] = {'a', 'b', 'c', 'd', 'e'};
    while (vj::readline(f, line)) {
        if (line.empty()) continue;
        vj::P v = vj::parse(line);
        ++g_cases;
        std::string text, seqj = "[";
        size_t k = 0;
        for (auto &c : (*v)["seq"].a) { const bool mark = c->s == "m"; text += mark ? 'f' : bases[k % 5]; seqj += std::string(k ? "," : "") + (mark ? "\"m\"" : "\"b\""); ++k; }
        seqj += "]";
        for (int dir : {1, 3, 0, 5}) {
            set_case("revslots line=%ld dir=%d %s", g_cases, dir, line.substr(0, 200).c_str());
            fprintf(tr, "{\"e\":\"Case\",\"seq\":%s,\"dir\":%d}\n", seqj.c_str(), dir);
            g_rv = tr; g_rule_sink = rev_sink; graphite2::verif_rule_events = 2;
            GRV_WATCHDOG;
            gr_segment *seg = gr_make_seg(0, face, 0, 0, gr_utf8, text.data(), text.size(), dir);
            graphite2::verif_rule_events = 0; g_rule_sink = 0; g_rv = 0; g_cur.clear();
            ++segs;
            SegP p = project(seg, face, 0, true);
            if (!p.wf.empty()) { vj::W w; w.str("text", text).i("dir", dir); report_fail(p.wfprop.c_str(), p.wf, w.done()); }
            std::string o = "[";
            if (seg) { bool first = true; for (const gr_slot *s = gr_seg_first_slot(seg); s; s = gr_slot_next_in_segment(s)) { o += (first ? "" : ",") + std::to_string(gr_slot_original(s) + 1); first = false; } }
            fprintf(tr, "{\"e\":\"Final\",\"order\":%s],\"ok\":%d}\n", o.c_str(), seg ? 1 : 0);
            if (seg) gr_seg_destroy(seg);
        }
    }
    fclose(f); fclose(tr);
    gr_face_destroy(face);
    vj::W w; w.i("segments", segs).i("reverse_calls", g_calls);
    report_summary(w.done().c_str());
    return 0;
}
