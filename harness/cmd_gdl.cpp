// C06 (and C02-C05 on synthesised fonts): shapes the (program, text) cases of spec/GdlRef.tla with the font that
// fontgen compiled from the program, and compares glyphs, attachments, attributes and design-unit positions with
// the reference semantics' output.
#include "common.hpp"
#include "registry.hpp"
#include "tableface.hpp"

#include "inc/Verif.h"

using namespace grv;

namespace {
// rule events of the case being shaped (hook events 1 = pass finished, 2 = findNDoRule returned), written as NDJSON
FILE *g_rtrace = 0;
void rule_sink(int ev, long a, long b, long c, long) {
    if (!g_rtrace) return;
    if (ev == 2) fprintf(g_rtrace, "{\"e\":\"Step\",\"rule\":%ld,\"pos\":%ld,\"adv\":%ld}\n", a + 1, b + 1, c);
    else if (ev == 1) fputs("{\"e\":\"PassEnd\"}\n", g_rtrace);
    else if (ev == 5) fprintf(g_rtrace, "{\"e\":\"PassBegin\",\"p\":%ld}\n", a + 1);      // the engine decided to run pass a (not skipped)
}
}

// grv gdl <cases.ndjson> [nocompare]
GRV_CMD(gdl) {
    if (argc < 1) return 2;
    const bool nocompare = argc > 1 && !strcmp(argv[1], "nocompare");
    // grv gdl <cases> trace <file>: additionally record every rule-loop step of the first direction of each case
    FILE *rtrace = (argc > 2 && !strcmp(argv[1], "trace")) ? fopen(argv[2], "w") : 0;
    if (rtrace) { g_rule_sink = rule_sink; graphite2::verif_rule_events = 1; }
    FILE *f = fopen(argv[0], "r"); if (!f) { perror(argv[0]); return 2; }
    std::string line; long compared = 0, nullsegs = 0, loadfail = 0;
    while (vj::readline(f, line)) {
        if (line.empty()) continue;
        vj::P v = vj::parse(line);
        ++g_cases;
        const std::string id = v->has("id") ? (*v)["id"].s : std::to_string(g_cases);
        set_case("gdl case=%s", id.c_str());
        TableFace tf;
        { std::vector<uint8_t> b = unhex((*v)["font_hex"].s); if (!tf.load_mem(std::string((const char *)b.data(), b.size()))) { fprintf(stderr, "bad font bytes\n"); return 2; } }
        const int rtl = int(v->get("rtl", 0));
        const unsigned opts = v->has("opts") ? unsigned((*v)["opts"].num()) : unsigned(g_cases % 8);
        gr_face *face = tf.make(opts);
        if (!face) { ++loadfail; vj::W w; w.str("id", id).raw("prog", "null"); report_fail(v->has("must_load") && !(*v)["must_load"].truth() ? "none" : "C06", "a font compiled from a well-formed rule program failed to load", w.done()); continue; }
        std::vector<uint32_t> cps; for (auto &g : (*v)["text"].a) cps.push_back(uint32_t(96 + g->num()));
        const std::vector<int> dirs = v->has("dirs") ? std::vector<int>() : std::vector<int>{rtl};
        std::vector<int> dl = dirs; if (v->has("dirs")) for (auto &d : (*v)["dirs"].a) dl.push_back(int(d->num()));
        gr_feature_val *fv = 0;
        if (v->has("feats") && !(*v)["feats"].a.empty()) {
            // the program's features follow "featpad" others; with padding, every other case builds the values sparsely:
            // an empty object (gr_featureval_clone(NULL)) in which only the non-zero values are set - the rest reads 0
            const size_t pad = size_t(v->get("featpad", 0));
            const bool sparse = pad && (g_cases & 1);
            fv = sparse ? gr_featureval_clone(0) : gr_face_featureval_for_lang(face, 0);
            // (sparse: one of the features in front is given a value first, so that the object is bound to the face while
            //  being only one chunk long)
            if (sparse && fv) { const gr_feature_ref *f0 = gr_face_fref(face, 0); if (f0) gr_fref_set_feature_value(f0, 1, fv); }
            size_t fi = pad;
            for (auto &x : (*v)["feats"].a) { const gr_feature_ref *fr = gr_face_fref(face, gr_uint16(fi++)); if (fr && fv && !(sparse && x->num() == 0)) gr_fref_set_feature_value(fr, gr_uint16(x->num()), fv); }
        }
        for (int dir : dl) {
            GRV_WATCHDOG;
            if (rtrace && dir == rtl) { fprintf(rtrace, "{\"e\":\"Case\",\"c\":%ld}\n", g_cases); g_rtrace = rtrace; }
            gr_segment *seg = gr_make_seg(0, face, 0, fv, gr_utf32, cps.data(), cps.size(), dir);
            if (g_rtrace) fputs("{\"e\":\"CaseEnd\"}\n", g_rtrace);
            g_rtrace = 0;
            if (!seg) { ++nullsegs; if (!nocompare) { vj::W w; w.str("id", id); report_fail("C06", "gr_make_seg returned NULL for a progress-only rule program", w.done()); } continue; }
            SegP p = project(seg, face, 0, true);
            if (!p.wf.empty()) { vj::W w; w.str("id", id).i("dir", dir); if (getenv("GRV_DUMP")) w.str("got", dump_json(p)); report_fail(p.wfprop.c_str(), p.wf, w.done()); }
            if (p.nslots > 64 * std::max<size_t>(cps.size(), 1)) { vj::W w; w.str("id", id); report_fail("C02", "more than 64 slots per input character", w.done()); }
            if (!nocompare && dir == rtl) {
                ++compared;
                const vj::Value &out = (*v)["out"];
                std::string why;
                if (out.a.size() != p.slots.size()) why = "reference has " + std::to_string(out.a.size()) + " slots, segment has " + std::to_string(p.slots.size());
                for (size_t i = 0; why.empty() && i < p.slots.size(); ++i) {
                    const vj::Value &e = *out.a[i]; const SlotP &s = p.slots[i];
                    auto chk = [&](const char *what, long got, long want) { if (why.empty() && got != want) why = "slot " + std::to_string(i) + " " + what + " is " + std::to_string(got) + ", reference semantics give " + std::to_string(want); };
                    chk("glyph", s.gid, e["gid"].num());
                    chk("attachment parent", s.parent + 1, e["par"].num());
                    chk("advance attribute", s.advAttr, e["adv"].num());
                    chk("user attribute", s.user0, e["user"].num());
                    if (e.has("user2")) chk("second user attribute", s.user1, e["user2"].num());
                    chk("shift", s.shiftX, e["shift"].num());
                    chk("origin x", std::lround(s.ox), e["x"].num());
                }
                if (why.empty() && std::lround(p.advX) != (*v)["advance"].num()) why = "segment advance is " + std::to_string(std::lround(p.advX)) + ", reference gives " + std::to_string((*v)["advance"].num());
                if (!why.empty()) { vj::W w; w.str("id", id).raw("prog", line.substr(line.find("\"prog\":") + 7, line.find(",\"text\"") - line.find("\"prog\":") - 7)).arr("text", (*v)["text"].ints()).i("rtl", rtl).str("got", dump_json(p)); report_fail("C06", why, w.done()); }
            }
            gr_seg_destroy(seg);
        }
        if (fv) gr_featureval_destroy(fv);
        gr_face_destroy(face);
    }
    fclose(f);
    if (rtrace) { fclose(rtrace); g_rule_sink = 0; graphite2::verif_rule_events = 0; }
    vj::W w; w.i("compared", compared).i("null_segments", nullsegs).i("load_failures", loadfail);
    report_summary(w.done().c_str());
    return 0;
}
