// Instrumented table source for gr_make_face_with_ops: serves the tables of an sfnt file, with per-tag overrides,
// every get_table returning a fresh exact-size guarded copy with a new id; release_table poisons the copy
// (PROT_NONE) so that any later dereference faults; an event log records Get/Rel for trace validation (C16).
#pragma once
#include "common.hpp"
#include <functional>

namespace grv {

inline uint32_t be32(const uint8_t *p) { return (uint32_t(p[0]) << 24) | (uint32_t(p[1]) << 16) | (uint32_t(p[2]) << 8) | p[3]; }
inline uint16_t be16(const uint8_t *p) { return uint16_t((p[0] << 8) | p[1]); }
inline std::string tagstr(uint32_t t) { char b[5] = {char(t >> 24), char(t >> 16), char(t >> 8), char(t), 0}; return b; }
inline uint32_t tagof(const char *s) { return (uint32_t(uint8_t(s[0])) << 24) | (uint32_t(uint8_t(s[1])) << 16) | (uint32_t(uint8_t(s[2])) << 8) | uint8_t(s[3]); }

class TableFace {
public:
    struct Buf { int id; uint32_t tag; uint8_t *map; size_t maplen; uint8_t *p; size_t n; bool released; };
    struct Event { char kind; uint32_t tag; int buf; size_t len; };   // 'G' get (buf -1 = absent), 'R' release

    std::map<uint32_t, std::vector<uint8_t>> tables;
    std::vector<Buf> bufs;
    std::vector<Event> events;
    long gets = 0, rels = 0, doubleRel = 0, unknownRel = 0;
    bool poison = true;          // mprotect released buffers
    bool noRelease = false;      // offer release_table = NULL
    std::function<void(const Event &)> onEvent;

    bool load(const std::string &path) { return load_mem(slurp(path)); }
    bool load_mem(const std::string &d) {
        if (d.size() < 12) return false;
        const uint8_t *p = (const uint8_t *)d.data();
        unsigned n = be16(p + 4);
        if (12 + 16 * size_t(n) > d.size()) return false;
        for (unsigned i = 0; i < n; ++i) {
            const uint8_t *e = p + 12 + 16 * i;
            uint32_t tag = be32(e), off = be32(e + 8), len = be32(e + 12);
            if (size_t(off) + len > d.size()) continue;
            tables[tag] = std::vector<uint8_t>(p + off, p + off + len);
        }
        return true;
    }
    void set(const char *tag, const std::vector<uint8_t> &bytes) { tables[tagof(tag)] = bytes; }
    void drop(const char *tag) { tables.erase(tagof(tag)); }
    bool has(const char *tag) const { return tables.count(tagof(tag)) != 0; }

    // the tables as an sfnt file image (checksums are not computed: nothing in the library reads them)
    std::string to_sfnt() const {
        auto p16 = [](std::string &o, unsigned v) { o += char(v >> 8); o += char(v); };
        auto p32 = [&](std::string &o, uint32_t v) { p16(o, v >> 16); p16(o, v & 0xFFFF); };
        const unsigned n = unsigned(tables.size());
        unsigned sr = 1, es = 0; while (sr * 2 <= n) { sr *= 2; ++es; }
        std::string o; p32(o, 0x00010000); p16(o, n); p16(o, sr * 16); p16(o, es); p16(o, n * 16 - sr * 16);
        size_t off = 12 + 16 * size_t(n); std::string body;
        for (auto &t : tables) {
            p32(o, t.first); p32(o, 0); p32(o, uint32_t(off + body.size())); p32(o, uint32_t(t.second.size()));
            body.append((const char *)t.second.data(), t.second.size());
            while (body.size() & 3) body += char(0);
        }
        return o + body;
    }

    ~TableFace() { for (auto &b : bufs) munmap(b.map, b.maplen); }

    size_t outstanding() const { size_t k = 0; for (auto &b : bufs) if (!b.released) ++k; return k; }

    static const void *get_table(const void *h, unsigned int name, size_t *len) {
        TableFace *self = (TableFace *)h;
        ++self->gets;
        auto it = self->tables.find(name);
        if (it == self->tables.end()) { Event e{'G', name, -1, 0}; self->events.push_back(e); if (self->onEvent) self->onEvent(e); return 0; }
        const std::vector<uint8_t> &t = it->second;
        const size_t pg = 4096, n = t.size();
        size_t body = ((n + pg - 1) / pg) * pg; if (!body) body = pg;
        Buf b; b.id = int(self->bufs.size()); b.tag = name; b.maplen = body + 2 * pg; b.n = n; b.released = false;
        b.map = (uint8_t *)mmap(0, b.maplen, PROT_READ | PROT_WRITE, MAP_PRIVATE | MAP_ANONYMOUS, -1, 0);
        if (b.map == MAP_FAILED) { perror("mmap"); _exit(2); }
        b.p = b.map + pg + body - n;                 // table ends exactly at the trailing guard page
        memset(b.map + pg, 0xEE, body - n);
        if (n) memcpy(b.p, t.data(), n);
        mprotect(b.map, pg, PROT_NONE); mprotect(b.map + pg + body, pg, PROT_NONE);
        self->bufs.push_back(b);
        if (len) *len = n;
        Event e{'G', name, b.id, n}; self->events.push_back(e); if (self->onEvent) self->onEvent(e);
        return b.p;
    }
    static void release_table(const void *h, const void *buf) {
        TableFace *self = (TableFace *)h;
        ++self->rels;
        for (auto &b : self->bufs) if (b.p == buf) {
            if (b.released) ++self->doubleRel;
            b.released = true;
            if (self->poison) mprotect(b.map, b.maplen, PROT_NONE);
            Event e{'R', b.tag, b.id, b.n}; self->events.push_back(e); if (self->onEvent) self->onEvent(e);
            return;
        }
        ++self->unknownRel;
        Event e{'R', 0, -2, 0}; self->events.push_back(e); if (self->onEvent) self->onEvent(e);
    }
    // the older entry points that still exist (declared deprecated): the same tables, the same callbacks
    gr_face *make_with_seg_cache(unsigned opts) {
        gr_face_ops ops = {sizeof(gr_face_ops), &TableFace::get_table, noRelease ? 0 : &TableFace::release_table};
#pragma GCC diagnostic push
#pragma GCC diagnostic ignored "-Wdeprecated-declarations"
        return gr_make_face_with_seg_cache_and_ops(this, &ops, 1000, opts);
#pragma GCC diagnostic pop
    }
    gr_face *make(unsigned opts) {
        gr_face_ops ops = {sizeof(gr_face_ops), &TableFace::get_table, noRelease ? 0 : &TableFace::release_table};
        return gr_make_face_with_ops(this, &ops, opts);
    }
};

inline std::vector<uint8_t> unhex(const std::string &h) {
    std::vector<uint8_t> r; r.reserve(h.size() / 2);
    auto v = [](char c) { return c <= '9' ? c - '0' : (c | 32) - 'a' + 10; };
    for (size_t i = 0; i + 1 < h.size(); i += 2) r.push_back(uint8_t(v(h[i]) * 16 + v(h[i + 1])));
    return r;
}

} // namespace grv
