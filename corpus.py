"""The corpus of shipped fonts x texts used by the corpus-driven checks (font, text, rtl)."""
import os, re
import vlib

F = os.path.join(vlib.REPO, "tests/fonts")
T = os.path.join(vlib.REPO, "tests/texts")

PAIRS = [
    ("Padauk.ttf", "my_HeadwordSyllables.txt", 0),
    ("charis_r_gr.ttf", "udhr_eng.txt", 0),
    ("charis_r_gr.ttf", "udhr_yor.txt", 0),
    ("Scheherazadegr.ttf", "udhr_arb.txt", 1),
    ("Annapurnarc2.ttf", "udhr_nep.txt", 0),
    ("Annapurnarc2.ttf", "udhr_hin.txt", 0),
    ("Awami_test.ttf", "awami_tests.txt", 1),
    ("AwamiNastaliq-Regular.ttf", "udhr_arb.txt", 1),
    ("AwamiNastaliq-Regular.ttf", "awami_tests.txt", 1),
    ("Awami_compressed_test.ttf", "awami_tests.txt", 1),
    ("MagyarLinLibertineG.ttf", "udhr_eng.txt", 0),
    ("PigLatinBenchmark_v3.ttf", "udhr_eng.txt", 0),
    ("general.ttf", "test_small.txt", 0),
    ("grtest1gr.ttf", "test_small.txt", 0),
]


def fonttests():
    """The 33 golden strings of tests/CMakeLists.txt: (name, font, [code points], rtl)."""
    out = []
    src = open(os.path.join(vlib.REPO, "tests/CMakeLists.txt")).read()
    for m in re.finditer(r"^fonttest\((\S+)\s+(\S+)\s+([^)]*)\)", src, re.M):
        name, font, rest = m.groups()
        toks = rest.split()
        cps, rtl = [], 0
        for t in toks:
            if t == "-rtl":
                rtl = 1
            elif t.startswith("-") or "=" in t or t.startswith('"'):
                break
            else:
                try:
                    cps.append(int(t, 16))
                except ValueError:
                    break
        out.append((name, font, cps, rtl))
    return out


def jobs(maxlines=40, chunk=0, opts=0, ppm=0, dirs=None, pairs=None, with_fonttests=True):
    js = []
    for font, text, rtl in (pairs or PAIRS):
        for d in (dirs if dirs is not None else [rtl]):
            js.append({"font": os.path.join(F, font), "file": os.path.join(T, text), "dir": d, "opts": opts, "ppm": ppm,
                       "maxlines": maxlines, "chunk": chunk, "id": "%s:%s:d%d" % (font, text, d)})
    if with_fonttests:
        for name, font, cps, rtl in fonttests():
            js.append({"font": os.path.join(F, font), "cps": cps, "dir": rtl, "opts": opts, "ppm": ppm, "id": "fonttest:" + name})
    return js


def collision_jobs(tmp, n=40, opts=0, ppm=0, dirs=(0, 1)):
    """Synthesised collision-enabled fonts (octaboxes with and without sub-boxes; fontgen/collgen.py), one text each."""
    from fontgen import collgen
    d = os.path.join(tmp, "collfonts")
    os.makedirs(d, exist_ok=True)
    out = []
    for s in range(n):
        p = os.path.join(d, "coll%d.ttf" % s)
        font, cps, _ = collgen.font_and_text(s, subboxes=(s % 2 == 1))
        if not os.path.exists(p):
            open(p, "wb").write(font)
        for dr in dirs:
            out.append({"font": p, "cps": cps, "dir": dr, "opts": opts, "ppm": ppm, "id": "collfont%d:d%d" % (s, dr)})
    return out


def random_jobs(n=100, seed=1, opts=0, ppm=0, dirs=None, fonts=None):
    """Pseudo-random strings over the characters of each font's corpus text (plus a few characters of other scripts):
    sequences no natural text contains, so that rarely combined rules meet (deterministic in the seed)."""
    import random
    rng = random.Random(seed * 7919 + 13)
    out = []
    seen = set()
    for font, text, rtl in PAIRS:
        if font in seen or (fonts and font not in fonts):
            continue
        seen.add(font)
        try:
            chars = sorted({ord(c) for c in open(os.path.join(T, text), encoding="utf-8", errors="ignore").read() if not c.isspace()})
        except OSError:
            continue
        if not chars:
            continue
        extra = [0x20, 0x200C, 0x200D, 0x25CC, 0x41, 0x627, 0x1000, 0x915, 0x10000, 0xFFFD]
        for k in range(n):
            ln = rng.choice([1, 2, 2, 3, 3, 4, 5, 6, 8, 12])
            cps = [rng.choice(chars) if rng.random() < 0.92 else rng.choice(extra) for _ in range(ln)]
            if rng.random() < 0.3:            # repeated marks / the same character several times
                j = rng.randrange(len(cps))
                cps[j:j] = [cps[j]] * rng.choice([1, 2, 3])
            for d in (dirs if dirs is not None else [rtl]):
                out.append({"font": os.path.join(F, font), "cps": cps, "dir": d, "opts": opts, "ppm": ppm, "id": "random:%s:%d:d%d" % (font, k, d)})
    return out



def cmap_jobs(n=30, seed=1, opts=0, ppm=0, dirs=(0, 1), fonts=None):
    """Pseudo-random strings over the characters each shipped font itself maps (its cmap), for every font in
    tests/fonts with a Silf table - including the small test fonts no corpus text belongs to - in the given directions
    (also the direction opposite to the font's own)."""
    import random, glob
    from fontgen import sfnt
    rng = random.Random(seed * 104729 + 7)
    out = []
    for path in sorted(glob.glob(os.path.join(F, "*.ttf"))):
        name = os.path.basename(path)
        if fonts and name not in fonts:
            continue
        try:
            S = sfnt.Sfnt(path)
            if "Silf" not in S.order or "cmap" not in S.order:
                continue
            cm = sfnt.read_cmap(S.table("cmap"))
        except Exception:
            continue
        chars = []
        for pc in cm["ref"]:
            for c in range(pc["lo"], min(pc["hi"], pc["lo"] + 400) + 1):
                g = pc["gids"][c - pc["lo"]] if pc["kind"] == "list" else (pc["base"] + c - pc["lo"]) & 0xFFFF
                if g and c not in (0xFFFF,) and not 0xD800 <= c <= 0xDFFF:
                    chars.append(c)
        if not chars:
            continue
        if len(chars) > 300:
            chars = sorted(rng.sample(chars, 300))
        for k in range(n):
            ln = rng.choice([1, 2, 3, 4, 4, 5, 6, 9])
            cps = [0x20 if rng.random() < 0.12 else rng.choice(chars) for _ in range(ln)]
            if rng.random() < 0.4:            # the same character repeated: runs that let every pass be skipped, or a rule repeat
                j = rng.randrange(len(cps))
                cps[j:j] = [cps[j]] * rng.choice([1, 2])
            for d in dirs:
                out.append({"font": path, "cps": cps, "dir": d, "opts": opts, "ppm": ppm, "id": "cmap:%s:%d:d%d" % (name, k, d)})
    return out


def _cmap_chars(path):
    """[(code point, glyph id)] of a shipped font, from the independent cmap reader (None without Silf/cmap)."""
    from fontgen import sfnt
    try:
        S = sfnt.Sfnt(path)
        if "Silf" not in S.order or "cmap" not in S.order:
            return None
        cm = sfnt.read_cmap(S.table("cmap"))
    except Exception:
        return None
    out = []
    for pc in cm["ref"]:
        for c in range(pc["lo"], min(pc["hi"], pc["lo"] + 6000) + 1):
            g = pc["gids"][c - pc["lo"]] if pc["kind"] == "list" else (pc["base"] + c - pc["lo"]) & 0xFFFF
            if g and c >= 0x20 and c != 0xFFFF and not 0xD800 <= c <= 0xDFFF and c not in (0x2028, 0x2029, 0x85, 0xFEFF):
                out.append((c, g))
    return out


def cmap_text_jobs(tmp, nlines=60, seed=1, fonts=None):
    """One text file per shipped Silf font: lines over the characters the font maps, half of them pseudo-random, half
    made of characters whose glyph ids are congruent modulo a power of two (256..4096) - glyphs that any per-glyph
    table indexed by a truncated id would confuse.  Returned as "file" jobs (many lines on one face and one font)."""
    import random, glob
    rng = random.Random(seed * 15485863 + 11)
    d = os.path.join(tmp, "cmaptexts")
    os.makedirs(d, exist_ok=True)
    out = []
    for path in sorted(glob.glob(os.path.join(F, "*.ttf"))):
        name = os.path.basename(path)
        if fonts and name not in fonts:
            continue
        cg = _cmap_chars(path)
        if not cg:
            continue
        lines = []
        for k in range(nlines):
            if k % 2 == 0 or len(cg) < 40:
                ln = [rng.choice(cg)[0] for _ in range(rng.choice([2, 3, 5, 8]))]
            else:
                c0, g0 = rng.choice(cg)
                m = 1 << rng.choice([8, 9, 10, 11, 12])
                al = [c for c, g in cg if (g - g0) % m == 0 and g != g0]
                if not al:
                    ln = [c0, rng.choice(cg)[0]]
                else:
                    ln = [c0] + [rng.choice(al) for _ in range(rng.choice([1, 2, 3]))]
                    if rng.random() < 0.5:
                        ln.reverse()
                    if rng.random() < 0.5:      # the aliasing glyphs alone on a line of their own, before the probe
                        lines.append("".join(chr(c) for c in ln[1:]))
            lines.append("".join(chr(c) for c in ln))
        tf = os.path.join(d, name + ".txt")
        open(tf, "w", encoding="utf-8").write("\n".join(lines) + "\n")
        out.append({"font": path, "file": tf, "dir": 0, "opts": 0, "ppm": 0, "maxlines": 4 * nlines, "id": "cmaptext:" + name})
    return out


def manytables_jobs(tmp, opts=0, counts=(39, 40, 41, 64)):
    """Padauk with additional (ignored) tables so that the sfnt directory has exactly `count` entries: file faces look
    tables up in that directory, callback faces do not."""
    from fontgen import sfnt
    d = os.path.join(tmp, "manytables")
    os.makedirs(d, exist_ok=True)
    S = sfnt.Sfnt(os.path.join(F, "Padauk.ttf"))
    base = {t: S.table(t) for t in S.order}
    out = []
    for n in counts:
        p = os.path.join(d, "padauk_%dtables.ttf" % n)
        if not os.path.exists(p):
            t = dict(base)
            k = 0
            while len(t) < n:
                t["zz%02d" % k] = bytes([k & 0xFF, 1, 2, 3])
                k += 1
            open(p, "wb").write(sfnt.build_sfnt(t))
        for cps in ([0x1000, 0x1031, 0x102C], [0x1000, 0x103C, 0x102D, 0x102F, 0x20, 0x1019]):
            out.append({"font": p, "cps": cps, "dir": 0, "opts": opts, "ppm": 0, "id": "manytables%d:%d" % (n, len(cps))})
    return out



def pseudo_font_job(tmp):
    """A synthesised font whose Silf pseudo-glyph map lists one code point twice (the first entry wins), with a text
    file whose lines use the pseudo-mapped characters in changing company: a `file` job for the order comparisons."""
    from fontgen import gfont
    d = os.path.join(tmp, "pseudofont")
    os.makedirs(d, exist_ok=True)
    fp, tp = os.path.join(d, "pseudo.ttf"), os.path.join(d, "pseudo.txt")
    if not os.path.exists(fp):
        adv = [0, 500, 600, 450, 700, 300, 250]
        m = {"upem": 1000, "rtl": 0, "nuser": 1, "glyphs": [{"adv": a, "attrs": {}} for a in adv],
             "cmap": {97 + g: g + 1 for g in range(3)}, "classes": [[1, 2], [4, 5, 6]], "nlinear": 2,
             "pseudos": [(0xE000, 4), (0xE001, 5), (0xE000, 6), (0xE002, 2), (0xE001, 3)],
             "passes": [{"kind": "sub", "maxloop": 3, "rules": [{"pre": 0, "ctx": [1, 0], "con": b"", "act": bytes([25, 28, 1, 25, 49])}]}]}
        open(fp, "wb").write(gfont.build_font(m))
        lines = ["a\ue000b", "\ue001\ue000", "\ue002a\ue001", "\ue000\ue000c", "b\ue001\ue002\ue000", "\ue002", "c\ue000", "\ue001a\ue001"]
        open(tp, "w", encoding="utf-8").write("\n".join(lines * 2) + "\n")
    return {"font": fp, "file": tp, "dir": 0, "opts": 0, "ppm": 0, "maxlines": 1000, "chunk": 0, "id": "pseudofont:dup"}



def step_justification_font(tmp):
    """charis_r_gr.ttf with the step attribute of its first justification level pointed at the break-weight glyph
    attribute, so that glyphs declare justification steps larger than one design unit (valid, but no shipped font does)."""
    from fontgen import sfnt
    p = os.path.join(tmp, "charis_step.ttf")
    if os.path.exists(p):
        return p
    S = sfnt.Sfnt(os.path.join(F, "charis_r_gr.ttf"))
    t = {k: S.table(k) for k in S.order}
    silf = bytearray(t["Silf"])
    ver = int.from_bytes(silf[0:4], "big")
    q = 4 + (4 if ver >= 0x00030000 else 0)
    sub = int.from_bytes(silf[q + 4:q + 8], "big")
    hdr = sub + (8 if ver >= 0x00030000 else 0)
    abreak, numj = silf[hdr + 15], silf[hdr + 19]
    if numj == 0:
        return None
    silf[hdr + 20 + 2] = abreak
    t["Silf"] = bytes(silf)
    open(p, "wb").write(sfnt.build_sfnt(t))
    return p


def lineend_fonts(tmp, names=("charis_r_gr.ttf", "Padauk.ttf", "Scheherazadegr.ttf", "Charis5_eursub.ttf")):
    """Shipped fonts with bit 0 of the Silf flags set ("line end contextuals": gr_seg_justify brackets the line with
    marker slots while the justification passes run, and removes them again).  Valid; no shipped font sets it."""
    from fontgen import sfnt
    out = []
    for name in names:
        p = os.path.join(tmp, "lineend_" + name)
        if not os.path.exists(p):
            S = sfnt.Sfnt(os.path.join(F, name))
            t = {k: S.table(k) for k in S.order}
            silf = bytearray(t["Silf"])
            ver = int.from_bytes(silf[0:4], "big")
            q = 4 + (4 if ver >= 0x00030000 else 0)
            sub = int.from_bytes(silf[q + 4:q + 8], "big")
            hdr = sub + (8 if ver >= 0x00030000 else 0)
            silf[hdr + 11] |= 1
            t["Silf"] = bytes(silf)
            open(p, "wb").write(sfnt.build_sfnt(t))
        out.append(p)
    return out


def smp_start_jobs(tmp, opts=0):
    """charis_r_gr.ttf with the first supplementary group of its format 12 cmap moved down as a whole to begin at U+10000 (the first
    code point beyond the BMP: the boundary between what a cached cmap takes from format 4 and from format 12)."""
    import struct
    from fontgen import sfnt
    p = os.path.join(tmp, "charis_u10000.ttf")
    if not os.path.exists(p):
        S = sfnt.Sfnt(os.path.join(F, "charis_r_gr.ttf"))
        t = {k: S.table(k) for k in S.order}
        cm = bytearray(t["cmap"])
        n = struct.unpack(">H", cm[2:4])[0]
        done = False
        for i in range(n):
            pid, eid, off = struct.unpack(">HHI", cm[4 + 8 * i:12 + 8 * i])
            if struct.unpack(">H", cm[off:off + 2])[0] != 12:
                continue
            ng = struct.unpack(">I", cm[off + 12:off + 16])[0]
            for g in range(ng):
                a = off + 16 + 12 * g
                s0, e0, g0 = struct.unpack(">III", cm[a:a + 12])
                if s0 > 0xFFFF:
                    cm[a:a + 8] = struct.pack(">II", 0x10000, 0x10000 + (e0 - s0))      # the group as a whole: same glyphs
                    done = True
                    break
        if not done:
            return []
        t["cmap"] = bytes(cm)
        open(p, "wb").write(sfnt.build_sfnt(t))
    texts = [[0x10000], [0x41, 0x10000, 0x42], [0x10000, 0x10001, 0xFFFF, 0x10000], [0x1D510, 0x10000]]
    return [{"font": p, "cps": cps, "dir": 0, "opts": opts, "ppm": 0, "id": "u10000:%d" % k} for k, cps in enumerate(texts)]


def oob_glyph_jobs(tmp, opts=0):
    """Padauk with a cmap that sends 'A'..'D' to glyph ids the font does not have (numGlyphs, numGlyphs + 1, 0xFFFE, 0xFFFF)
    next to a few Myanmar letters with their real glyphs: valid for a cmap, and every per-glyph table of the library is
    then asked about a glyph beyond its end."""
    import struct
    from fontgen import sfnt, cmap as cmapmod
    p = os.path.join(tmp, "padauk_oobglyphs.ttf")
    if not os.path.exists(p):
        src = os.path.join(F, "Padauk.ttf")
        S = sfnt.Sfnt(src)
        t = {k: S.table(k) for k in S.order}
        n = struct.unpack(">H", t["maxp"][4:6])[0]
        real = dict(_cmap_chars(src))
        m = {0x41: n, 0x42: n + 1, 0x43: 0xFFFE, 0x44: 0xFFFF}
        for c in range(0x1000, 0x1022):
            if c in real:
                m[c] = real[c]
        segs = [{"s": c, "e": c, "delta": (m[c] - c) & 0xFFFF, "off": 0} for c in sorted(m)]
        segs.append({"s": 0xFFFF, "e": 0xFFFF, "delta": 1, "off": 0})
        t["cmap"] = cmapmod.table([(3, 1, cmapmod.fmt4(segs, []))])
        open(p, "wb").write(sfnt.build_sfnt(t))
    texts = [[0x41], [0x1000, 0x41, 0x1001], [0x42, 0x43, 0x44], [0x44, 0x1002, 0x102C, 0x43], [0x41, 0x41, 0x42]]
    out = []
    for k, cps in enumerate(texts):
        for d in (0, 1):
            for hinted in (0, 1, 2):
                out.append({"font": p, "cps": cps, "dir": d, "opts": opts, "ppm": 11 if hinted else (0 if k % 2 else 14), "hinted": hinted, "nogid": 1, "id": "oobglyph:%d:d%d:h%d" % (k, d, hinted)})
    return out


def posonly_font(tmp):
    """A synthesised font whose first pass is already a positioning pass (no substitution, no justification passes:
    iSubst = iPos = iJust = 0) and whose bidi step is placed in front of it (bidi pass index 0, not 0xFF)."""
    from fontgen import gfont, gdl
    p = os.path.join(tmp, "posonly.ttf")
    if not os.path.exists(p):
        keep = dict(op="keep", cls=0, ref=0, adv=-1, user=-1, user2=-1, shift=-1, att=-1, attref=-1, sf=0, sv=0)
        none = {"kind": "none", "item": 0, "val": 0, "f": 0}
        prog = [{"kind": "pos", "rules": [{"pre": 0, "ctx": [1, 2], "items": [dict(keep, shift=40), dict(keep, adv=250)], "con": none, "ret": 0}]},
                {"kind": "pos", "rules": [{"pre": 0, "ctx": [2], "items": [dict(keep, att=30, attref=-1)], "con": none, "ret": 0}]}]
        m = gdl.font_model(prog, [[1, 2], [2, 3], [4, 5]], [0, 500, 600, 450, 700, 300, 0], [0] * 7, 0)
        m["jpass"] = 0
        m["bidipass"] = 0
        m["cmap"][0x20] = 6
        open(p, "wb").write(gfont.build_font(m))
    return p


def emptysub_jobs(tmp, opts=0):
    """A synthesised font with two Silf sub-tables of which the first - the one segments are shaped with - has no passes."""
    from fontgen import gfont, gdl
    p = os.path.join(tmp, "emptysub.ttf")
    if not os.path.exists(p):
        keep = dict(op="keep", cls=0, ref=0, adv=-1, user=-1, user2=-1, shift=-1, att=-1, attref=-1, sf=0, sv=0)
        none = {"kind": "none", "item": 0, "val": 0, "f": 0}
        prog = [{"kind": "sub", "rules": [{"pre": 0, "ctx": [1], "items": [dict(keep, op="glyph", cls=2)], "con": none, "ret": 0}]},
                {"kind": "pos", "rules": [{"pre": 0, "ctx": [2], "items": [dict(keep, shift=40)], "con": none, "ret": 0}]}]
        m = gdl.font_model(prog, [[2], [1]], [0, 500, 600, 450, 700], [0] * 5, 0)
        m["empty_first"] = 1
        open(p, "wb").write(gfont.build_font(m))
    out = []
    for k, t in enumerate(("a", "ab", "abca", "dcbabcd", "bb b")):
        for d in range(8):
            out.append({"font": p, "cps": [ord(c) for c in t], "dir": d, "opts": opts, "ppm": 12 if d % 2 else 0, "id": "emptysub:%d:d%d" % (k, d)})
    return out


def twolevel_font(tmp):
    """tests/fonts/underflow.ttf declares two justification levels with all-zero records; here both levels take stretch,
    shrink and weight from glyph attribute 1, so that gr_seg_justify really hands out space at the second level
    (per-slot justification data of more than one level; no shipped font does that)."""
    from fontgen import sfnt
    p = os.path.join(tmp, "underflow_twolevel.ttf")
    if os.path.exists(p):
        return p
    S = sfnt.Sfnt(os.path.join(F, "underflow.ttf"))
    t = {k: S.table(k) for k in S.order}
    silf = bytearray(t["Silf"])
    ver = int.from_bytes(silf[0:4], "big")
    q = 4 + (4 if ver >= 0x00030000 else 0)
    sub = int.from_bytes(silf[q + 4:q + 8], "big")
    hdr = sub + (8 if ver >= 0x00030000 else 0)
    numj = silf[hdr + 19]
    if numj < 2:
        return None
    for i in range(numj):
        r = hdr + 20 + 8 * i
        silf[r + 0] = 1; silf[r + 1] = 1; silf[r + 3] = 1
    t["Silf"] = bytes(silf)
    open(p, "wb").write(sfnt.build_sfnt(t))
    return p


def stress_jobs(opts=0, long_n=70000):
    """Inputs at the edges of the engine's own limits: a base under 60..130 stacked combining marks (attachment chains as
    deep as the stack), texts of more than 65536 characters (every per-slot and per-character index beyond 16 bits),
    and segments that are justified before they are looked at (per-slot justification records of more than one pool block)."""
    out = []
    charis = os.path.join(F, "charis_r_gr.ttf")
    for n in (60, 99, 100, 101, 130):
        for d in (0, 1):
            out.append({"font": charis, "cps": [0x61] + [0x0301] * n + [0x62], "dir": d, "opts": opts, "ppm": 0, "id": "markstack:%d:d%d" % (n, d)})
    for font, unit in ((os.path.join(F, "Padauk.ttf"), [0x1000, 0x1031, 0x102C, 0x20]), (charis, [0x61, 0x0301, 0x62, 0x20, 0x63])):
        out.append({"font": font, "cps": (unit * (long_n // len(unit) + 1))[:long_n], "dir": 0, "opts": opts, "ppm": 0, "id": "long:%s" % os.path.basename(font)})
    # texts none of whose characters the font maps (nothing but glyph 0), and digits spelled out by a feature
    # (MagyarLinLibertineG, feature 210: three characters become eighteen glyphs)
    for font in ("Padauk.ttf", "charis_r_gr.ttf", "Scheherazadegr.ttf", "PigLatinBenchmark_v3.ttf"):
        for k, t in enumerate(("\u6f22\u5b57", "\ud55c", "\u13a0\u13a1\u13a2 \u13a3")):
            for d in (0, 1):
                out.append({"font": os.path.join(F, font), "cps": [ord(c) for c in t], "dir": d, "opts": opts, "ppm": 0, "id": "unmapped:%s:%d:d%d" % (font, k, d)})
    for k, t in enumerate(("777", "1234567", "9", "1000000 99")):
        out.append({"font": os.path.join(F, "MagyarLinLibertineG.ttf"), "cps": [ord(c) for c in t], "dir": 0, "opts": opts, "ppm": 0, "feats": [[210, 1]], "id": "spelled:%d" % k})
    for font in ("Padauk.ttf", "charis_r_gr.ttf", "Scheherazadegr.ttf"):
        for k, t in enumerate(("HelloMum", "a b c d e f g h", "The quick brown fox jumps over the lazy dog", "\u1000\u1031\u102c \u1000\u1031 \u1019", "\u0627\u0644\u0633\u0644\u0627\u0645 \u0639\u0644\u064a\u0643\u0645")):
            for ppm in (0, 12):
                out.append({"font": os.path.join(F, font), "cps": [ord(c) for c in t], "dir": 1 if font.startswith("Sch") else 0, "opts": opts, "ppm": ppm, "justify": 1, "id": "justified:%s:%d:%d" % (font, k, ppm)})
    return out


def advy_jobs(tmp):
    """A synthesised font one of whose rules gives a glyph a vertical advance (no shipped font has one)."""
    from fontgen import gfont, gdl
    p = os.path.join(tmp, "advy.ttf")
    if not os.path.exists(p):
        keep = dict(op="keep", cls=0, ref=0, adv=-1, user=-1, user2=-1, shift=-1, att=-1, attref=-1, sf=0, sv=0)
        none = {"kind": "none", "item": 0, "val": 0, "f": 0}
        prog = [{"kind": "pos", "rules": [{"pre": 0, "ctx": [1], "items": [dict(keep, advy=130, adv=420)], "con": none, "ret": 0}]}]
        m = gdl.font_model(prog, [[1, 2], [3]], [0, 500, 600, 450, 700], [0] * 5, 0)
        open(p, "wb").write(gfont.build_font(m))
    return [{"font": p, "cps": [ord(c) for c in t], "dir": d} for t in ("a", "abc", "cabbac", "ccc") for d in (0, 1)]
