"""Fonts whose Glat table gives one glyph an arbitrary list of attribute runs (spec/Sparse.tla cases)."""
import struct
from . import gfont, sfnt

NUM_ATTRS = 400
_BASE = None


def _base():
    global _BASE
    if _BASE is None:
        m = {"upem": 1000, "rtl": 0, "nuser": 1,
             "glyphs": [{"adv": 0, "attrs": {}}] + [{"adv": 500, "attrs": {}} for _ in range(3)],
             "cmap": {97: 1, 98: 2, 99: 3}, "classes": [[1], [2, 3]], "nlinear": 2,
             "passes": [{"kind": "sub", "maxloop": 3, "rules": [{"pre": 0, "ctx": [0], "con": b"", "act": bytes([28, 1, 25, 49])}]}]}
        S = sfnt.Sfnt(data=gfont.build_font(m))
        _BASE = {t: S.table(t) for t in S.order}
    return dict(_BASE)


def build(runs, gid=1, nglyphs=4):
    """runs: [(k, [v...]), ...] for glyph gid; the other glyphs get the single entry (0, [0])."""
    glat = struct.pack(">I", 0x00010000)
    locs = []
    for g in range(nglyphs):
        locs.append(len(glat))
        rs = runs if g == gid else [(0, [0])]
        for k, vs in rs:
            glat += struct.pack(">BB", k & 0xFF, len(vs) & 0xFF) + b"".join(struct.pack(">H", v & 0xFFFF) for v in vs)
    locs.append(len(glat))
    gloc = struct.pack(">IHH", 0x00010000, 0, NUM_ATTRS) + b"".join(struct.pack(">H", o) for o in locs)
    t = _base()
    t["Glat"], t["Gloc"] = glat, gloc
    return sfnt.build_sfnt(t)
