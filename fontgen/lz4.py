"""LZ4 block format: reference decoder (trusted, lenient) and several encoders used to re-encode font tables (C14)."""
import random, struct


def decode(src):
    """Reference LZ4 block decoder. Returns bytes or raises ValueError."""
    out = bytearray()
    p, n = 0, len(src)
    while True:
        if p >= n:
            raise ValueError("block ends without a token")
        tok = src[p]; p += 1
        ll = tok >> 4
        if ll == 15:
            while True:
                if p >= n:
                    raise ValueError("truncated literal length")
                b = src[p]; p += 1
                ll += b
                if b != 255:
                    break
        if p + ll > n:
            raise ValueError("literals run past the end")
        out += src[p:p + ll]; p += ll
        if p == n:
            return bytes(out)
        if p + 2 > n:
            raise ValueError("truncated offset")
        off = src[p] | (src[p + 1] << 8); p += 2
        ml = tok & 15
        if ml == 15:
            while True:
                if p >= n:
                    raise ValueError("truncated match length")
                b = src[p]; p += 1
                ml += b
                if b != 255:
                    break
        ml += 4
        if off == 0 or off > len(out):
            raise ValueError("bad offset")
        for _ in range(ml):
            out.append(out[-off])


def _emit(out, lits, off, ml):
    ll = len(lits)
    m = ml - 4 if ml else 0
    tok = (min(ll, 15) << 4) | (min(m, 15) if ml else 0)
    out.append(tok)
    if ll >= 15:
        r = ll - 15
        while r >= 255:
            out.append(255); r -= 255
        out.append(r)
    out += lits
    if ml:
        out += struct.pack("<H", off)
        if m >= 15:
            r = m - 15
            while r >= 255:
                out.append(255); r -= 255
            out.append(r)


def encode(data, mode="greedy", seed=1, min_tail=5):
    """Conforming encoders. mode: greedy | lazy_random | overlap | longrun | sparse
       The last 5 bytes are literals and the last match ends at least 5 bytes before the end (12 from the start of it)."""
    rng = random.Random(seed)
    n = len(data)
    out = bytearray()
    table = {}
    i, anchor = 0, 0
    limit = n - 12          # no match may start after this (MFLIMIT)
    while i < limit:
        key = data[i:i + 4]
        cand = table.get(key)
        table[key] = i
        use = None
        if mode == "overlap":
            # prefer run-length style matches with distance 1..8 when the data repeats
            for d in (1, 2, 3, 4, 7, 8):
                if i - d >= 0 and data[i - d:i - d + 4] == key[:4] and data[i - d] == data[i]:
                    l = 0
                    while i + l < n - 5 and data[i + l - d] == data[i + l]:
                        l += 1
                    if l >= 4:
                        use = (d, l); break
        if use is None and cand is not None and i - cand <= 65535:
            l = 0
            while i + l < n - 5 and data[cand + l] == data[i + l]:
                l += 1
            if l >= 4:
                if mode == "lazy_random" and rng.random() < 0.35:
                    use = None                      # skip this match
                elif mode == "lazy_random" and l > 6 and rng.random() < 0.5:
                    use = (i - cand, rng.randint(4, l))   # shorten it
                elif mode == "sparse" and rng.random() < 0.8:
                    use = None
                else:
                    use = (i - cand, l)
        if use is None:
            i += 1
            continue
        d, l = use
        if mode == "longrun":
            pass
        _emit(out, data[anchor:i], d, l)
        i += l
        anchor = i
    _emit(out, data[anchor:], 0, 0)
    return bytes(out)


def compress_table(plain, mode, seed=1):
    """Graphite compressed table: version word, (scheme 1 << 27 | size), LZ4 block of the whole plaintext."""
    blk = encode(plain, mode, seed)
    assert decode(blk) == plain
    if len(blk) >= len(plain) or len(plain) >= (1 << 27):       # the decoder refuses blocks that do not shrink the data
        return None
    return plain[:4] + struct.pack(">I", (1 << 27) | len(plain)) + blk


def decompress_table(tbl):
    ver, hdr = struct.unpack(">II", tbl[:8])
    if hdr >> 27 != 1:
        return None
    plain = decode(tbl[8:])
    assert len(plain) == (hdr & 0x07FFFFFF) and plain[:4] == tbl[:4]
    return plain


def sequences(data):
    """greedy parse as a list of (literal bytes, offset, match length) plus the final literals"""
    n = len(data)
    table = {}
    i, anchor, limit = 0, 0, n - 12
    seqs = []
    while i < limit:
        key = data[i:i + 4]
        cand = table.get(key)
        table[key] = i
        if cand is not None and i - cand <= 65535:
            l = 0
            while i + l < n - 5 and data[cand + l] == data[i + l]:
                l += 1
            if l >= 4:
                seqs.append([bytes(data[anchor:i]), i - cand, l])
                i += l
                anchor = i
                continue
        i += 1
    return seqs, bytes(data[anchor:])


def serialize(seqs, tail):
    out = bytearray()
    for lits, off, ml in seqs:
        _emit(out, lits, off, ml)
    _emit(out, tail, 0, 0)
    return bytes(out)


def _ext(n):
    return 0 if n < 15 else 1 + (n - 15) // 255


def _seq_size(ll, ml):
    """bytes a sequence with ll literals and a match of ml takes (ml = 0: final literals)"""
    return 1 + _ext(ll) + ll + (2 + _ext(ml - 4) if ml else 0)


def encode_to_size(data, target):
    """A conforming encoding of exactly `target` bytes (None if the search does not hit it): matches of the greedy
    parse are turned back into literals from the end, the last kept match is shortened to land on the size."""
    seqs, tail = sequences(data)
    total = sum(_seq_size(len(l), ml) for l, _, ml in seqs) + _seq_size(len(tail), 0)
    nt = len(tail)                        # current length of the final literals
    k = len(seqs)                         # matches kept
    while True:
        if total == target:
            break
        if total > target or k == 0:
            return None
        lits, off, ml = seqs[k - 1]
        need = target - total
        hit = None
        for c in range(max(1, need - 2), need + 3):          # length-extension bytes may add or save one
            if c <= ml - 4:
                t2 = total - _seq_size(len(lits), ml) - _seq_size(nt, 0) + _seq_size(len(lits), ml - c) + _seq_size(nt + c, 0)
                if t2 == target:
                    hit = c
                    break
        if hit:
            seqs = seqs[:k - 1] + [[lits, off, ml - hit]]
            nt += hit
            total = target
            break
        # give the whole match back to the literals
        total += -_seq_size(len(lits), ml) - _seq_size(nt, 0) + _seq_size(nt + len(lits) + ml, 0)
        nt += len(lits) + ml
        k -= 1
    blk = serialize(seqs[:k], bytes(data[len(data) - nt:]))
    return blk if len(blk) == target and decode(blk) == data else None


def compress_table_to(plain, saved):
    """compressed table whose LZ4 block is exactly `saved` bytes shorter than the plaintext"""
    blk = encode_to_size(plain, len(plain) - saved)
    if blk is None or len(plain) >= (1 << 27):
        return None
    return plain[:4] + struct.pack(">I", (1 << 27) | len(plain)) + blk
