"""cmap table bytes from the abstract description used by spec/Cmap.tla (format 4: segs + gia, format 12: groups)."""
import struct


def fmt4(segs, gia):
    n = len(segs)
    # searchRange etc. are ignored by graphite but filled properly
    p2 = 1
    while p2 * 2 <= n:
        p2 *= 2
    sr = 2 * p2
    es = 0
    while (1 << (es + 1)) <= n:
        es += 1
    rs = 2 * n - sr
    ends = [s["e"] for s in segs]
    starts = [s["s"] for s in segs]
    deltas = [s["delta"] & 0xFFFF for s in segs]
    ros = []
    for i, s in enumerate(segs):
        if s["off"] == 0:
            ros.append(0)
        else:
            ros.append(2 * (n - i + (s["off"] - 1)))
    body = b"".join(struct.pack(">H", x) for x in ends) + struct.pack(">H", 0)
    body += b"".join(struct.pack(">H", x) for x in starts)
    body += b"".join(struct.pack(">H", x) for x in deltas)
    body += b"".join(struct.pack(">H", x) for x in ros)
    body += b"".join(struct.pack(">H", x) for x in gia)
    length = 14 + len(body)
    return struct.pack(">HHHHHHH", 4, length, 0, 2 * n, sr, es, rs) + body


def fmt12(groups):
    body = b"".join(struct.pack(">III", g["s"], g["e"], g["g"]) for g in groups)
    return struct.pack(">HHIII", 12, 0, 16 + len(body), 0, len(groups)) + body


def table(subtables):
    """subtables: list of (platform, encoding, bytes) in record order; each gets its own copy, laid out sequentially."""
    n = len(subtables)
    off = 4 + 8 * n
    recs, blob = b"", b""
    for pid, eid, b in subtables:
        recs += struct.pack(">HHI", pid, eid, off + len(blob))
        blob += b
    return struct.pack(">HH", 0, n) + recs + blob


def fmt6(first, gids):
    return struct.pack(">HHHHH", 6, 10 + 2 * len(gids), 0, first, len(gids)) + b"".join(struct.pack(">H", g) for g in gids)


def decoy(fmt):
    """A well-formed subtable whose content differs from every generated configuration (for records that must lose)."""
    if fmt == 4:
        return fmt4([{"s": 0, "e": 0xFFFE, "delta": 5, "off": 0}, {"s": 0xFFFF, "e": 0xFFFF, "delta": 1, "off": 0}], [])
    if fmt == 6:
        return fmt6(0x20, [7] * 96)
    return fmt12([{"s": 0x10000, "e": 0x10FFFF, "g": 9}])


def from_case(c, bmp_rec=(3, 1), smp_rec=(3, 10), decoys=()):
    """decoys: (platform, encoding, format) records of lower preference than bmp_rec / smp_rec, with other content"""
    subs = [(bmp_rec[0], bmp_rec[1], fmt4(c["segs"], c["gia"]))]
    if c.get("has12"):
        subs.append((smp_rec[0], smp_rec[1], fmt12(c["groups"])))
    for pid, eid, f in decoys:
        if f == 12 and not c.get("has12"):
            continue        # (without a real supplementary subtable the lower-preference one would rightly be used)
        subs.append((pid, eid, decoy(f)))
    subs.sort(key=lambda t: (t[0], t[1]))
    return table(subs)
