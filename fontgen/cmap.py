"""cmap table bytes from the abstract description used by spec/Cmap.tla (format 4: segs + gia, format 12: groups)."""
import struct


def fmt4(segs, gia):
    n = len(segs)
    # searchRange etc. are ignored by graphite but filled properly
    p2 = 1
    while p2 * 2 <= n:
        p2 *= 2
    sr = 2 * p2
    es = 0
    while (1 << (es + 1)) <= n:
        es += 1
    rs = 2 * n - sr
    ends = [s["e"] for s in segs]
    starts = [s["s"] for s in segs]
    deltas = [s["delta"] & 0xFFFF for s in segs]
    ros = []
    for i, s in enumerate(segs):
        if s["off"] == 0:
            ros.append(0)
        else:
            ros.append(2 * (n - i + (s["off"] - 1)))
    body = b"".join(struct.pack(">H", x) for x in ends) + struct.pack(">H", 0)
    body += b"".join(struct.pack(">H", x) for x in starts)
    body += b"".join(struct.pack(">H", x) for x in deltas)
    body += b"".join(struct.pack(">H", x) for x in ros)
    body += b"".join(struct.pack(">H", x) for x in gia)
    length = 14 + len(body)
    return struct.pack(">HHHHHHH", 4, length, 0, 2 * n, sr, es, rs) + body


def fmt12(groups):
    body = b"".join(struct.pack(">III", g["s"], g["e"], g["g"]) for g in groups)
    return struct.pack(">HHIII", 12, 0, 16 + len(body), 0, len(groups)) + body


def table(subtables):
    """subtables: list of (platform, encoding, bytes) in record order; each gets its own copy, laid out sequentially."""
    n = len(subtables)
    off = 4 + 8 * n
    recs, blob = b"", b""
    for pid, eid, b in subtables:
        recs += struct.pack(">HHI", pid, eid, off + len(blob))
        blob += b
    return struct.pack(">HH", 0, n) + recs + blob


def from_case(c, bmp_rec=(3, 1), smp_rec=(3, 10)):
    subs = [(bmp_rec[0], bmp_rec[1], fmt4(c["segs"], c["gia"]))]
    if c.get("has12"):
        subs.append((smp_rec[0], smp_rec[1], fmt12(c["groups"])))
    subs.sort(key=lambda t: (t[0], t[1]))
    return table(subs)
