"""Font synthesiser: abstract Graphite font model (the `font` record of the TLA+ engine specs) -> sfnt bytes.

Tables written: head hhea hmtx maxp cmap Silf (v2..v4 layouts) Glat (v1) Gloc (+ optional Feat/Sill/name through feat.py).
No glyf/loca (allowed by the loader: bounding boxes are then empty).

Model (JSON-able dict):
  upem, rtl (0/1), nuser,
  glyphs: [ {"adv": int, "attrs": {attrnum: value}} ]         index = glyph id, 0 = .notdef
  cmap:   {codepoint: gid}
  classes: [[gid, ...], ...], nlinear: how many leading classes are stored as linear (output) classes
  pseudos: [[usv, gid], ...]
  passes: [ {"kind": "sub"|"pos", "maxloop": int, "rev": 0/1,
             "rules": [ {"pre": int, "ctx": [classid, ...], "con": bytes, "act": bytes} ], "pcon": bytes } ]
"""
import struct
from . import sfnt, cmap as cmapmod

NUM_GATTRS_MIN = 8      # attrs 0..3 reserved: pseudo, breakweight, directionality, mirroring(2)
A_PSEUDO, A_BREAK, A_BIDI, A_MIRROR, A_PASSBITS = 0, 1, 2, 3, 0


def u8(v):
    return struct.pack(">B", v & 0xFF)


def u16(v):
    return struct.pack(">H", v & 0xFFFF)


def u32(v):
    return struct.pack(">I", v & 0xFFFFFFFF)


# ------------------------------------------------------------------------------------------------
# FSM by subset construction
# ------------------------------------------------------------------------------------------------
def build_fsm(rules, classes, nglyphs):
    """rules: list of dicts with 'ctx' (class ids) and 'pre'. Returns dict(cols, ranges, trans, nstates, ntrans, nsuccess,
    rulemap, starts).  Rules with a shorter pre-context than the longest of the pass are padded in front with a class
    of all glyphs (as the GDL compiler does); starts[k] is the state from which matching begins when k fewer
    pre-context slots are available."""
    maxpre = max([r.get("pre", 0) for r in rules] or [0])
    minpre = min([r.get("pre", 0) for r in rules] or [0])
    if maxpre != minpre:
        classes = list(classes) + [set(range(nglyphs))]
        ANY = len(classes) - 1
        rules = [dict(r, ctx=[ANY] * (maxpre - r.get("pre", 0)) + list(r["ctx"])) for r in rules]
    used = sorted({c for r in rules for c in r["ctx"]})
    sig = {}
    for g in range(nglyphs):
        s = frozenset(c for c in used if g in classes[c])
        if s:
            sig[g] = s
    sigs = sorted(set(sig.values()), key=lambda s: sorted(s))
    colof = {s: i for i, s in enumerate(sigs)}
    ncols = len(sigs)
    start = frozenset((ri, 0) for ri in range(len(rules)))
    states = {start: 0}
    order = [start]
    trans = {}
    accept = {}
    work = [start]
    # start states for reduced pre-context: the rules whose first k items are padding, k items consumed
    start_sets = [start]
    for k in range(1, maxpre - minpre + 1):
        S = frozenset((ri, k) for ri, r in enumerate(rules) if maxpre - r.get("pre", 0) >= k)
        start_sets.append(S)
        if S not in states:
            states[S] = len(order)
            order.append(S)
            work.append(S)
    while work:
        S = work.pop(0)
        row = []
        for ci, s in enumerate(sigs):
            T = frozenset((ri, i + 1) for (ri, i) in S if i < len(rules[ri]["ctx"]) and rules[ri]["ctx"][i] in s)
            if not T:
                row.append(None)
                continue
            if T not in states:
                states[T] = len(order)
                order.append(T)
                work.append(T)
            row.append(T)
        trans[S] = row
    for S in order:
        acc = sorted(ri for (ri, i) in S if i == len(rules[ri]["ctx"]))
        if acc:
            accept[S] = acc

    def has_out(S):
        return any(t is not None for t in trans[S])
    # ordering: start first; transitional non-success; transitional success; non-transitional success
    rest = [S for S in order if S is not start]
    g1 = [S for S in rest if has_out(S) and S not in accept]
    g2 = [S for S in rest if has_out(S) and S in accept]
    g3 = [S for S in rest if not has_out(S)]          # dead ends are always accepting (every item chain ends in acceptance)
    final = [start] + g1 + g2 + g3
    idx = {S: i for i, S in enumerate(final)}
    ntrans = 1 + len(g1) + len(g2)
    nsuccess = len(g2) + len(g3)
    table = []
    for S in final[:ntrans]:
        table.append([idx[t] if t is not None else 0 for t in trans[S]])
    rulemap = [accept[S] for S in final[len(final) - nsuccess:]]
    # glyph -> column ranges
    ranges = []
    g = 0
    while g < nglyphs:
        if g in sig:
            c = colof[sig[g]]
            e = g
            while e + 1 < nglyphs and sig.get(e + 1) == sig[g]:
                e += 1
            ranges.append((g, e, c))
            g = e + 1
        else:
            g += 1
    return {"ncols": ncols, "ranges": ranges, "trans": table, "nstates": len(final), "ntrans": ntrans,
            "nsuccess": nsuccess, "rulemap": rulemap, "starts": [idx[S] for S in start_sets]}


# ------------------------------------------------------------------------------------------------
# Silf
# ------------------------------------------------------------------------------------------------
def build_pass(p, classes, nglyphs, sub_base):
    """Returns the pass bytes; sub_base = offset of this pass from the start of the Silf subtable."""
    rules = p["rules"]
    nr = len(rules)
    fsm = build_fsm(rules, classes, nglyphs) if nr else {"ncols": 0, "ranges": [], "trans": [], "nstates": 0, "ntrans": 0, "nsuccess": 0, "rulemap": []}
    for (st, col, tgt) in p.get("trans_patch", []):        # deliberately odd but loadable state tables (cycles)
        if st < len(fsm["trans"]) and col < fsm["ncols"] and tgt < fsm["nstates"]:
            fsm["trans"][st][col] = tgt
    pres = [r["pre"] for r in rules] or [0]
    minpre, maxpre = min(pres), max(pres)
    if "minpre" in p:
        minpre, maxpre = p["minpre"], p["maxpre"]
    flags = (p.get("collruns", 0) & 7) | ((p.get("kern", 0) & 3) << 3) | ((p.get("rev", 0) & 1) << 5)
    body = b""
    for (a, b, c) in fsm["ranges"]:
        body += u16(a) + u16(b) + u16(c)
    off = 0
    orm = b""
    rm = b""
    for lst in fsm["rulemap"]:
        orm += u16(off)
        # the order of a state's rule list is the writer's choice (the engine sorts it by precedence when it loads)
        for ri in (reversed(lst) if p.get("rm_rev") else lst):
            rm += u16(ri)
        off += len(lst)
    orm += u16(off)
    body += orm + rm
    body += u8(minpre) + u8(maxpre)
    starts = p.get("starts") or fsm.get("starts") or [0] * (maxpre - minpre + 1)
    for s in starts:
        body += u16(s)
    for r in rules:
        body += u16(r.get("sort", len(r["ctx"])))
    for r in rules:
        body += u8(r["pre"])
    body += u8(p.get("collthreshold", 0))
    pcon = bytes(p.get("pcon", b""))
    body += u16(len(pcon))
    # constraints: offset 0 means none, so the block starts with a dummy byte when any rule has one
    cons = b""
    ocon = []
    anycon = any(len(r.get("con", b"")) for r in rules)
    if anycon:
        cons = b"\x00"
    for r in rules:
        c = bytes(r.get("con", b""))
        if c:
            ocon.append(len(cons))
            cons += c
        else:
            ocon.append(0)
    ocon.append(len(cons))
    acts = b""
    oact = []
    for r in rules:
        oact.append(len(acts))
        acts += bytes(r["act"])
    oact.append(len(acts))
    for o in ocon:
        body += u16(o)
    for o in oact:
        body += u16(o)
    for row in fsm["trans"]:
        for t in row:
            body += u16(t)
    body += u8(0)
    hdr_len = 40
    pc_off = sub_base + hdr_len + len(body)
    rc_off = pc_off + len(pcon)
    ac_off = rc_off + len(cons)
    nrange = len(fsm["ranges"])
    hdr = u8(flags) + u8(p.get("maxloop", 5)) + u8(max([len(r["ctx"]) for r in rules] or [0])) + u8(maxpre)
    hdr += u16(nr) + u16(0) + u32(pc_off) + u32(rc_off) + u32(ac_off) + u32(0)
    hdr += u16(fsm["nstates"]) + u16(fsm["ntrans"]) + u16(fsm["nsuccess"]) + u16(fsm["ncols"]) + u16(nrange) + u16(0) + u16(0) + u16(0)
    assert len(hdr) == 40
    return hdr + body + pcon + cons + acts


def build_classmap(classes, nlinear, wide):
    ncls = len(classes)
    osz = 4 if wide else 2
    cls_off = 4 + osz * (ncls + 1)
    data = b""
    offs = []
    for i, c in enumerate(classes):
        offs.append(cls_off + len(data))
        if i < nlinear:
            for g in c:
                data += u16(g)
        else:
            pairs = sorted((g, k) for k, g in enumerate(c))
            n = len(pairs)
            p2 = 1
            while p2 * 2 <= n:
                p2 *= 2
            es = 0
            while (1 << (es + 1)) <= n:
                es += 1
            data += u16(n) + u16(p2) + u16(es) + u16(n - p2)
            for g, k in pairs:
                data += u16(g) + u16(k)
    offs.append(cls_off + len(data))
    out = u16(ncls) + u16(nlinear)
    for o in offs:
        out += u32(o) if wide else u16(o)
    return out + data


def build_silf(m, version=0x00030000):
    passes = m["passes"]
    npass = len(passes)
    nsub = sum(1 for p in passes if p["kind"] == "sub")
    for i, p in enumerate(passes):
        assert (p["kind"] == "sub") == (i < nsub), "substitution passes must come first"
    nglyphs = len(m["glyphs"])
    classes = [set(c) for c in m["classes"]]
    v3 = version >= 0x00030000
    sub = b""
    if v3:
        sub += u32(version) + u16(0) + u16(0)       # ruleVersion, passOffset, pseudosOffset (patched below)
    flags = m.get("flags", 0)
    sub += u16(nglyphs - 1) + u16(0) + u16(0)
    ipos = nsub
    sub += u8(npass) + u8(0) + u8(ipos) + u8(m.get("jpass", npass)) + u8(m.get("bidipass", 0xFF)) + u8(flags) + u8(m.get("maxpre", 2)) + u8(m.get("maxpost", 5))
    sub += u8(A_PSEUDO) + u8(A_BREAK) + u8(A_BIDI) + u8(A_MIRROR) + u8(m.get("apassbits", A_PASSBITS)) + u8(0)
    sub += u16(0) + u8(m.get("nuser", 0)) + u8(0) + u8(1 + (m.get("rtl", 0) & 1)) + u8(m.get("acoll", 0)) + b"\0\0\0"
    sub += u8(0) + u8(0)                              # numCritFeatures, reserved
    sub += u8(0)                                      # numScriptTag
    sub += u16(nglyphs - 1)                           # lbGID
    opass_at = len(sub)
    sub += b"\0" * (4 * (npass + 1))
    pseudos = m.get("pseudos", [])
    pseudo_at = len(sub)
    sub += u16(len(pseudos)) + u16(0) + u16(0) + u16(0)
    for usv, gid in pseudos:
        sub += u32(usv) + u16(gid)
    sub += build_classmap(m["classes"], m.get("nlinear", len(m["classes"])), version >= 0x00040000)
    offs = []
    for p in passes:
        offs.append(len(sub))
        sub += build_pass(p, classes, nglyphs, len(sub))
    offs.append(len(sub))
    if not passes:
        sub += b"\0" * 4       # a sub-table without passes: the (empty) pass area must still begin inside the sub-table
    sub = bytearray(sub)
    for i, o in enumerate(offs):
        sub[opass_at + 4 * i: opass_at + 4 * i + 4] = u32(o)
    if v3:
        sub[4:6] = u16(opass_at)
        sub[6:8] = u16(pseudo_at)
    if m.get("empty_first") and passes:
        # two sub-tables: the first one (the one every segment is shaped with) has no passes at all, the second is the
        # program; valid as long as some sub-table has passes
        first = bytes(build_silf(dict(m, passes=[], empty_first=0), version))
        skip = len(u32(version) + (u32(0x00050000) if v3 else b"") + u16(1) + u16(0)) + 4
        sub0 = first[skip:]
        hdr = u32(version) + (u32(0x00050000) if v3 else b"") + u16(2) + u16(0)
        o0 = len(hdr) + 8
        return hdr + u32(o0) + u32(o0 + len(sub0)) + sub0 + bytes(sub)
    hdr = u32(version) + (u32(0x00050000) if v3 else b"") + u16(1) + u16(0)
    hdr += u32(len(hdr) + 4)
    return hdr + bytes(sub)


# ------------------------------------------------------------------------------------------------
# Glat / Gloc and the sfnt basics
# ------------------------------------------------------------------------------------------------
def build_glat3_gloc(m):
    """Glat version 3: per glyph an octabox record (bitmap, 4 diagonal fractions, 8 bytes per sub-box) and attribute
    runs with 16-bit attribute numbers / counts.  g["octa"] = (smin, smax, dmin, dmax) in 0..255 of the diagonal
    extent of the bounding box; g["subs"] = [(xmin, xmax, ymin, ymax, smin, smax, dmin, dmax), ...] likewise."""
    nattrs = max(NUM_GATTRS_MIN, m.get("nattrs", 0), 1 + max([max(map(int, g.get("attrs", {}).keys()), default=0) for g in m["glyphs"]] or [0]))
    glat = u32(0x00030000) + u32(1)
    locs = []
    for g in m["glyphs"]:
        locs.append(len(glat))
        subs = g.get("subs", [])
        glat += u16((1 << len(subs)) - 1) + bytes(g.get("octa", (0, 255, 0, 255)))
        for sb in subs:
            glat += bytes(sb)
        attrs = {int(k): v for k, v in g.get("attrs", {}).items() if v}
        if not attrs:
            attrs = {0: 0}
        ks = sorted(attrs)
        i = 0
        while i < len(ks):
            j = i
            while j + 1 < len(ks) and ks[j + 1] == ks[j] + 1:
                j += 1
            glat += u16(ks[i]) + u16(j - i + 1)
            for k in ks[i:j + 1]:
                glat += u16(attrs[k] & 0xFFFF)
            i = j + 1
    locs.append(len(glat))
    glat += b"\0\0"
    gloc = u32(0x00010000) + u16(0) + u16(nattrs)
    for o in locs:
        gloc += u16(o)
    return glat, gloc, nattrs


def build_glyf_loca(m):
    """Outline-less glyphs that only carry a bounding box (all the engine reads from glyf)."""
    glyf = b""
    loca = b""
    for g in m["glyphs"]:
        loca += u16(len(glyf) // 2)
        xi, yi, xa, ya = g.get("bbox", (0, 0, 0, 0))
        glyf += struct.pack(">hhhhh", 0, xi, yi, xa, ya) + b"\0\0"
    loca += u16(len(glyf) // 2)
    glyf += b"\0" * 12
    return glyf, loca


def build_glat_gloc(m):
    if m.get("boxes"):
        return build_glat3_gloc(m)
    nattrs = max(NUM_GATTRS_MIN, 1 + max([max(map(int, g.get("attrs", {}).keys()), default=0) for g in m["glyphs"]] or [0]))
    glat = u32(0x00010000)
    locs = []
    for g in m["glyphs"]:
        locs.append(len(glat))
        attrs = {int(k): v for k, v in g.get("attrs", {}).items() if v}
        if not attrs:
            glat += u8(0) + u8(1) + u16(0)              # every glyph needs one entry
            continue
        ks = sorted(attrs)
        i = 0
        while i < len(ks):                                # runs of consecutive attribute numbers
            j = i
            while j + 1 < len(ks) and ks[j + 1] == ks[j] + 1:
                j += 1
            glat += u8(ks[i]) + u8(j - i + 1)
            for k in ks[i:j + 1]:
                glat += u16(attrs[k])
            i = j + 1
    locs.append(len(glat))
    gloc = u32(0x00010000) + u16(0) + u16(nattrs)
    for o in locs:
        gloc += u16(o)
    return glat, gloc, nattrs


def build_tables(m, silf_version=0x00030000):
    n = len(m["glyphs"])
    upem = m.get("upem", 1000)
    head = struct.pack(">IIIIHHQQhhhhHHhhh", 0x00010000, 0x00010000, 0, 0x5F0F3CF5, 0, upem, 0, 0, 0, 0, 0, 0, 0, 8, 2, 0, 0)
    assert len(head) == 54
    hhea = struct.pack(">IhhhHhhhhhhhhhhhH", 0x00010000, 800, -200, 0, 1000, 0, 0, 0, 1, 0, 0, 0, 0, 0, 0, 0, n)
    assert len(hhea) == 36
    hmtx = b"".join(struct.pack(">Hh", g.get("adv", 0), 0) for g in m["glyphs"])
    maxp = struct.pack(">IH", 0x00010000, n) + b"\0" * 26
    segs = []
    cps = sorted(int(c) for c in m["cmap"])
    cm = {int(k): v for k, v in m["cmap"].items()}
    gia = []
    for c in cps:                                      # one segment per code point keeps this trivially correct
        segs.append({"s": c, "e": c, "delta": (cm[c] - c) & 0xFFFF, "off": 0})
    segs.append({"s": 0xFFFF, "e": 0xFFFF, "delta": 1, "off": 0})
    cmap = cmapmod.table([(3, 1, cmapmod.fmt4(segs, gia))])
    glat, gloc, _ = build_glat_gloc(m)
    t = {"head": head, "hhea": hhea, "hmtx": hmtx, "maxp": maxp, "cmap": cmap, "Glat": glat, "Gloc": gloc,
         "Silf": build_silf(m, silf_version)}
    if m.get("boxes"):
        t["glyf"], t["loca"] = build_glyf_loca(m)
    if m.get("nfeat"):
        from . import feat
        # "featpad" wide features (16 bits each) in front of the program's own, so that those live in a late chunk of
        # the feature-value vector
        pad = m.get("featpad", 0)
        t["Feat"] = feat.feat_table([[0, 65535]] * pad + [[0, 1, 2]] * m["nfeat"], ids=[2001 + i for i in range(pad)] + [feat.FEAT_ID0 + i for i in range(m["nfeat"])])
    return t


def build_font(m, silf_version=0x00030000, extra=None):
    t = build_tables(m, silf_version)
    if extra:
        t.update(extra)
    return sfnt.build_sfnt(t)
