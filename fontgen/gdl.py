"""GDL-lite compiler: the abstract rule programs of spec/GdlRef.tla -> graphite bytecode + the font model for gfont."""
from . import gfont

# opcodes (src/inc/Machine.h)
PUSH_BYTE, PUSH_SHORT = 1, 3
EQUAL = 19
LESS_EQ = 23
NEXT, PUT_GLYPH8, PUT_SUBS8, PUT_COPY, INSERT, DELETE, ASSOC, CNTXT_ITEM = 25, 28, 29, 30, 31, 32, 33, 34
ATTR_SET, ATTR_SET_SLOT = 35, 38
PUSH_GLYPH_ATTR_OBS, PUSH_ISLOT_ATTR = 41, 46
POP_RET, RET_ZERO, RET_TRUE, IATTR_SET = 48, 49, 50, 51
PUSH_FEAT, SET_FEAT = 43, 66
SLAT_ADVX, SLAT_ATTTO, SLAT_ATTX, SLAT_SHIFTX, SLAT_USER = 0, 2, 3, 20, 55
GATTR_TEST = 5          # the glyph attribute constraints may test (GAttr in the spec)


FEATPAD = [0]           # features put in front of the program's own (font_model(featpad=...)): shifts every feature index


def push(v):
    if -128 <= v <= 127:
        return [PUSH_BYTE, v & 0xFF]
    return [PUSH_SHORT, (v >> 8) & 0xFF, v & 0xFF]


def compile_action(rule):
    b = []
    pre = rule["pre"]
    for k, it in enumerate(rule["items"]):
        op = it["op"]
        if op == "glyph":
            b += [PUT_GLYPH8, it["cls"] - 1]
        elif op == "subs":
            b += [PUT_SUBS8, 0, rule["ctx"][pre + k] - 1, it["cls"] - 1]
        elif op == "copy":
            b += [PUT_COPY, it["ref"] & 0xFF]
        elif op == "delete":
            b += [DELETE]
        elif op == "insert":
            b += [INSERT, PUT_GLYPH8, it["cls"] - 1, NEXT]
        if it["adv"] >= 0:
            b += push(it["adv"]) + [ATTR_SET, SLAT_ADVX]
        if it.get("advy", -1) >= 0:       # (not part of GdlRef: used by hand-made fonts)
            b += push(it["advy"]) + [ATTR_SET, 1]
        if it["user"] >= 0:
            b += push(it["user"]) + [IATTR_SET, SLAT_USER, 0]
        if it.get("user2", -1) >= 0:
            b += push(it["user2"]) + [IATTR_SET, SLAT_USER, 1]
        if it["shift"] >= 0:
            b += push(it["shift"]) + [ATTR_SET, SLAT_SHIFTX]
        if it.get("sf", 0) > 0:
            b += push(it["sv"]) + [SET_FEAT, it["sf"] - 1 + FEATPAD[0], 0]
        if it["att"] >= 0:
            b += push(it.get("attref", -1)) + [ATTR_SET_SLOT, SLAT_ATTTO] + push(it["att"]) + [ATTR_SET, SLAT_ATTX]
        b += [NEXT]
    if rule["ret"] == 0:
        b += [RET_ZERO]
    else:
        b += push(rule["ret"]) + [POP_RET]
    return bytes(b)


def compile_constraint(con):
    if con["kind"] == "none":
        return b""
    if con["kind"] == "gattr":
        body = [PUSH_GLYPH_ATTR_OBS, GATTR_TEST, 0] + push(con["val"]) + [EQUAL]
    elif con["kind"] == "feat":
        body = [PUSH_FEAT, con["f"] - 1 + FEATPAD[0], 0] + push(con["val"]) + [EQUAL]
    elif con["kind"] == "userle":
        body = [PUSH_ISLOT_ATTR, SLAT_USER, 0, 0] + push(con["val"]) + [LESS_EQ]
    elif con["kind"] == "user2":
        body = [PUSH_ISLOT_ATTR, SLAT_USER, 0, 1] + push(con["val"]) + [EQUAL]
    else:
        body = [PUSH_ISLOT_ATTR, SLAT_USER, 0, 0] + push(con["val"]) + [EQUAL]
    return bytes([CNTXT_ITEM, con["item"], len(body)] + body + [POP_RET])


GATTR_PASSBITS = 6      # the pass-skip bits glyph attribute (Silf aPassBits), when a font carries one


def font_model(prog, classes, adv, gattr, rtl, nlinear=None, nfeat=0, passbits=False, featpad=0):
    """classes: list of lists (as in the spec, glyph ids); adv/gattr: dict or list indexed by gid (0..NG).
    passbits: give every glyph the pass-skip attribute the GDL compiler would (bit p set iff no rule of pass p names a
    class containing the glyph - GdlRef!Mentioned), so that the engine leaves passes out where it may."""
    ng = len(adv) - 1
    FEATPAD[0] = featpad if nfeat else 0
    glyphs = [{"adv": adv[g], "attrs": ({GATTR_TEST: gattr[g]} if gattr[g] else {})} for g in range(ng + 1)]
    if passbits:
        for g in range(ng + 1):
            bits = 0
            for pi, p in enumerate(prog[:16]):
                if not any(g in classes[c - 1] for r in p["rules"] for c in r["ctx"]):
                    bits |= 1 << pi
            if bits:
                glyphs[g]["attrs"][GATTR_PASSBITS] = bits
    passes = []
    for p in prog:
        rules = []
        for r in p["rules"]:
            rules.append({"pre": r["pre"], "ctx": [c - 1 for c in r["ctx"]], "con": compile_constraint(r["con"]), "act": compile_action(r)})
        passes.append({"kind": p["kind"], "maxloop": 5, "rules": rules})
    return {"upem": 1000, "rtl": rtl, "nuser": 2, "glyphs": glyphs, "cmap": {97 + g - 1: g for g in range(1, ng + 1)},
            "classes": [list(c) for c in classes], "nlinear": len(classes) if nlinear is None else nlinear, "passes": passes, "nfeat": nfeat,
            "apassbits": GATTR_PASSBITS if passbits else 0, "featpad": FEATPAD[0]}
