"""Pseudo-random collision arrangements (deterministic in the seed) for the corpus-style sweeps (C10/C08); the
C17 check takes its arrangements from TLC (spec/Collide.tla, action Arrange) in the same dict format."""
import random
from . import collfont

W = 255        # box dimensions are multiples of 255 so that octabox fractions give integral diagonal bounds
SHAPES = [     # (bbox, octa fractions smin, smax, dmin, dmax)
    ((0, 0, 2 * W, 2 * W), (0, 255, 0, 255)),                 # square
    ((0, 0, 2 * W, 2 * W), (64, 191, 0, 255)),                # NW-SE elongated (cut in s)
    ((0, 0, 2 * W, 2 * W), (0, 255, 64, 191)),                # NE-SW elongated (cut in d)
    ((0, 0, 2 * W, 2 * W), (32, 223, 32, 223)),               # octagon
    ((0, -W, W, 0), (0, 255, 0, 255)),                        # small box below the baseline
    ((0, 2 * W, W, 3 * W), (0, 255, 0, 255)),                 # small box above
    ((-W, 0, 3 * W, W), (0, 255, 0, 255)),                    # wide flat box reaching left of its origin
]
LIMITS = [(-500, -500, 500, 500), (-200, -400, 200, 100), (-300, -100, 300, 400), (-100, -100, 100, 100), (-800, -50, 800, 50),
          (0, 0, 0, 0), (-600, -600, 200, 600), (100, 100, -100, -100)]


def arrangement(seed, subboxes=None):
    r = random.Random(seed)
    n = r.randint(3, 6)
    if subboxes is None:
        subboxes = r.random() < 0.5
    glyphs = []
    for k in range(n):
        bbox, octa = r.choice(SHAPES)
        dy = r.choice([0, 0, 0, -W, W, 2 * W])
        bbox = (bbox[0], bbox[1] + dy, bbox[2], bbox[3] + dy)
        fix = r.random() < 0.6
        lim = r.choice(LIMITS)
        g = {"bbox": bbox, "octa": octa, "adv": r.choice([0, 60, 120, 255, 400, 510, 700]),
             "flags": (collfont.COLL_FIX if fix else 0) | (collfont.COLL_IGNORE if r.random() < 0.08 else 0) | (collfont.COLL_KERN if r.random() < 0.1 else 0),
             "limit": tuple(v & 0xFFFF for v in lim), "margin": r.choice([0, 10, 40, 100]), "marginwt": r.choice([0, 1, 5])}
        if subboxes and r.random() < 0.5:
            g["subs"] = [(0, 127, 0, 255, 0, 160, 0, 255), (127, 255, 0, 255, 96, 255, 0, 255)]
        glyphs.append(g)
    if subboxes and not any("subs" in g for g in glyphs):
        glyphs[0]["subs"] = [(0, 255, 0, 127, 0, 255, 0, 255)]
    npass = r.choice([1, 1, 2])
    passes = [{"collruns": r.choice([1, 2, 3, 5]), "kern": r.choice([0, 0, 0, 1, 2]), "threshold": r.choice([0, 0, 10])} for _ in range(npass)]
    return {"glyphs": glyphs, "passes": passes, "rtl": r.randint(0, 1), "text": [r.randrange(n) for _ in range(r.randint(2, 8))]}


def font_and_text(seed, subboxes=None):
    a = arrangement(seed, subboxes)
    return collfont.build(a), [97 + t for t in a["text"]], a
