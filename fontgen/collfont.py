"""Collision-enabled fonts from an arrangement: every glyph carries its own bounding box, octabox fractions,
advance and collision glyph attributes (flags, limit rectangle, margin), so that shaping the text through the
real positioning pass stages exactly that arrangement for Pass::collisionShift / collisionKern."""
from . import gfont

ACOLL = 8
COLL_FIX, COLL_IGNORE, COLL_START, COLL_END, COLL_KERN = 1, 2, 4, 8, 16


def model(arr):
    glyphs = [{"adv": 0, "bbox": (0, 0, 0, 0)}]
    cmap = {}
    for k, g in enumerate(arr["glyphs"]):
        attrs = {ACOLL: g.get("flags", 0), ACOLL + 1: g["limit"][0], ACOLL + 2: g["limit"][1], ACOLL + 3: g["limit"][2], ACOLL + 4: g["limit"][3],
                 ACOLL + 5: g.get("margin", 0), ACOLL + 6: g.get("marginwt", 0)}
        for j, key in enumerate(("seqclass", "seqprox", "seqorder", "seqabovexoff", "seqabovewt", "seqbelowxlim", "seqbelowwt", "seqvalignht", "seqvalignwt")):
            if g.get(key):
                attrs[ACOLL + 7 + j] = g[key]
        glyphs.append({"adv": g.get("adv", 0), "bbox": tuple(g["bbox"]), "octa": tuple(g.get("octa", (0, 255, 0, 255))),
                       "subs": [tuple(s) for s in g.get("subs", [])], "attrs": attrs})
        cmap[97 + k] = k + 1
    passes = [{"kind": "pos", "rules": [], "collruns": p.get("collruns", 0), "kern": p.get("kern", 0), "collthreshold": p.get("threshold", 0)}
              for p in arr["passes"]]
    return {"glyphs": glyphs, "cmap": cmap, "classes": [], "passes": passes, "boxes": True, "flags": 0x20, "acoll": ACOLL,
            "nattrs": ACOLL + 22, "rtl": arr.get("rtl", 0), "upem": arr.get("upem", 2048)}


def build(arr, silf_version=0x00040000):
    return gfont.build_font(model(arr), silf_version)
