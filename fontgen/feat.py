"""Feat / Sill / name table bytes from the abstract font of spec/Features.tla."""
import struct

FEAT_ID0 = 1001          # feature f (1-based) has id FEAT_ID0 + f - 1
NAME_ID0 = 256           # and label name id NAME_ID0 + f - 1
LANG_TAGS = [0x656E0000, 0x76696500]   # 'en', 'vie' (zero padded) for language k = 1, 2
# language tags of one to four characters, chosen per font
TAG_SETS = [[0x656E0000, 0x76696500], [0x6B000000, 0x6B730000], [0x71000000, 0x7778797A], [0x61626364, 0x7A000000]]


def lang_tags(defs):
    return TAG_SETS[(3 * len(defs) + sum(len(d) for d in defs)) % len(TAG_SETS)]
# feature ids are 32-bit names: every third font uses ids from all over the range (tag-like and beyond 2^31)
WIDE_IDS = [0x00000005, 0x6B646F74, 0x7FFFFFF0, 0x80000001, 0xC0DE0000, 0xFFFF0001, 0xFFFFFFFE]


def feature_ids(defs):
    n = len(defs)
    if (n + 2 * sum(len(d) for d in defs)) % 3 == 0 and n <= len(WIDE_IDS):
        if n == 1:
            return [WIDE_IDS[5]]
        # spread over the whole list, always with its two ends (ids more than 2^31 apart)
        return [WIDE_IDS[(f * (len(WIDE_IDS) - 1)) // (n - 1)] for f in range(n)]
    return [FEAT_ID0 + f for f in range(n)]


def feat_table(defs, version=0x00020000, ids=None):
    n = len(defs)
    ids = ids or [FEAT_ID0 + f for f in range(n)]
    rec = 16 if version >= 0x00020000 else 12
    hdr = struct.pack(">IHHI", version, n, 0, 0)
    settings_off = 12 + rec * n
    recs, sets = b"", b""
    for f, d in enumerate(defs):
        fid, name = ids[f], NAME_ID0 + f
        if version >= 0x00020000:
            recs += struct.pack(">IHHIHH", fid, len(d), 0, settings_off + len(sets), 0, name)
        else:
            recs += struct.pack(">HHIHH", fid & 0xFFFF, len(d), settings_off + len(sets), 0, name)
        for v in d:
            sets += struct.pack(">HH", v & 0xFFFF, name)
    return hdr + recs + sets


def sill_table(langs):
    """langs: list of (tag, [(featid, value)])"""
    n = len(langs)
    hdr = struct.pack(">IHHHH", 0x00010000, n, 0, 0, 0)
    ents_len = 8 * (n + 1)
    off = 12 + ents_len
    ents, sets = b"", b""
    for tag, ov in langs:
        ents += struct.pack(">IHH", tag, len(ov), off + len(sets))
        for fid, v in ov:
            sets += struct.pack(">IHH", fid, v, 0)
    ents += struct.pack(">IHH", 0x80808080, 0, off + len(sets))
    return hdr + ents + sets


def utf16be(scalars):
    out = b""
    for u in scalars:
        if u < 0x10000:
            out += struct.pack(">H", u)
        else:
            u -= 0x10000
            out += struct.pack(">HH", 0xD800 + (u >> 10), 0xDC00 + (u & 0x3FF))
    return out


def name_table(names):
    """names: dict nameid -> list of scalars; platform 3 / encoding 1 / language 0x409"""
    ids = sorted(names)
    recs, data = b"", b""
    # a leading record of another platform so that the wanted records do not start at index 0
    recs += struct.pack(">HHHHHH", 1, 0, 0, 1, 0, 0)
    for i in ids:
        s = utf16be(names[i])
        recs += struct.pack(">HHHHHH", 3, 1, 0x409, i, len(s), len(data))
        data += s
    cnt = len(ids) + 1
    return struct.pack(">HHH", 0, cnt, 6 + 12 * cnt) + recs + data


def scalars_from_utf32(u32):
    return list(u32)


def from_case(c):
    defs = c["defs"]
    ids = feature_ids(defs)
    tags = lang_tags(defs)
    langs = []
    for k, row in enumerate(c["langs"]):
        ov = []
        for f, v in enumerate(row):
            d = defs[f]
            dflt = d[0] if d else 0
            if v != dflt:
                ov.append((ids[f], v))
        langs.append((tags[k], ov))
    # every other font also has a Sill entry under the tag 0 with every feature at its highest value: tag 0 (and the tag of
    # four spaces, which zero-pads to it) asks for the font's defaults, never for a table entry
    if sum(len(d) for d in defs) & 1:
        langs.append((0, [(ids[f], max(d)) for f, d in enumerate(defs) if d and max(d) != d[0]]))
    # the order of the Sill entries is a choice of the writer, not part of the abstract map: half of the fonts list the
    # languages in descending tag order (the reader does not require a sorted table)
    if (len(defs) + sum(len(d) for d in defs)) & 1:
        langs.reverse()
    names = {NAME_ID0 + f: lab["u32"] for f, lab in enumerate(c["labels"])}
    return {"ids": ids, "langtags": tags, "feat_hex": feat_table(defs, ids=ids).hex(), "sill_hex": sill_table(langs).hex(), "name_hex": name_table(names).hex()}


def name_table_dual(ids):
    """Name table with Unicode-platform (0,3) records for every id and Windows (3,1) records for every second id
       (labels that exist only under the Unicode platform)."""
    recs, data = [], b""
    def add(pid, eid, lid, nid, text):
        nonlocal data
        sdata = utf16be([ord(c) for c in text])
        recs.append((pid, eid, lid, nid, len(sdata), len(data)))
        data += sdata
    for i in sorted(ids):
        add(0, 3, 0, i, "U%d" % i)
    for k, i in enumerate(sorted(ids)):
        if k % 2 == 0:
            add(3, 1, 0x409, i, "W%d" % i)
    recs.sort()
    out = struct.pack(">HHH", 0, len(recs), 6 + 12 * len(recs))
    for r in recs:
        out += struct.pack(">HHHHHH", *r)
    return out + data
