"""Independent reader of the Silf table header (no graphite code): pass layout, attribute numbers, pseudo-glyph map."""
import struct
from . import lz4


class R:
    def __init__(s, b, p=0):
        s.b, s.p = b, p

    def u8(s):
        v = s.b[s.p]; s.p += 1; return v

    def u16(s):
        v = struct.unpack(">H", s.b[s.p:s.p + 2])[0]; s.p += 2; return v

    def u32(s):
        v = struct.unpack(">I", s.b[s.p:s.p + 4])[0]; s.p += 4; return v


def read_silf(silf):
    ver = struct.unpack(">I", silf[:4])[0]
    if ver >= 0x00050000 and (struct.unpack(">I", silf[4:8])[0] >> 27) == 1:
        silf = lz4.decompress_table(silf)
    r = R(silf)
    ver = r.u32()
    if ver >= 0x00030000:
        r.u32()
    nsub = r.u16(); r.u16()
    offs = [r.u32() for _ in range(nsub)]
    subs = []
    for si, o in enumerate(offs):
        end = offs[si + 1] if si + 1 < nsub else len(silf)
        sub = silf[o:end]
        r = R(sub)
        if ver >= 0x00030000:
            r.u32(); r.u16(); r.u16()
        d = {"maxGlyph": r.u16(), "extraAscent": r.u16(), "extraDescent": r.u16()}
        (d["numPasses"], d["iSubst"], d["iPos"], d["iJust"], d["iBidi"], d["flags"], d["maxPre"], d["maxPost"],
         d["aPseudo"], d["aBreak"], d["aBidi"], d["aMirror"], d["aPassBits"], nj) = [r.u8() for _ in range(14)]
        r.p += 8 * nj
        d["numJust"] = nj
        d["aLig"] = r.u16(); d["aUser"] = r.u8(); d["maxComp"] = r.u8(); d["dir"] = r.u8() - 1; d["aColl"] = r.u8(); r.p += 3
        ncrit = r.u8(); r.p += 2 * ncrit; r.u8()
        nscr = r.u8(); r.p += 4 * nscr
        d["lbGID"] = r.u16()
        d["oPasses"] = [r.u32() for _ in range(d["numPasses"] + 1)]
        nps = r.u16(); r.p += 6
        d["pseudos"] = [(r.u32(), r.u16()) for _ in range(nps)]
        subs.append(d)
    return {"version": ver, "subtables": subs}
