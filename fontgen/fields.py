"""Field maps of font tables (independent of graphite): where each length / count / offset / index field sits,
so that checks can rewrite it to boundary values.  A field is (table, offset, width, name)."""
import struct
from . import sfnt, lz4
from .silf import R


def u(b, off, w):
    return int.from_bytes(b[off:off + w], "big")


def silf_fields(silf):
    """Fields of an (uncompressed) Silf table: header, subtable header, class map edges, every pass header and array edges."""
    F = []
    ver = u(silf, 0, 4)
    p = 4
    F.append(("Silf", 0, 4, "version"))
    if ver >= 0x00030000:
        F.append(("Silf", 4, 4, "compilerVersion")); p = 8
    nsub = u(silf, p, 2)
    F.append(("Silf", p, 2, "numSub")); p += 4
    offs = []
    for i in range(nsub):
        F.append(("Silf", p, 4, "subOffset%d" % i)); offs.append(u(silf, p, 4)); p += 4
    for si, o in enumerate(offs[:2]):
        r = R(silf, o)
        def f(w, name):
            F.append(("Silf", r.p, w, "s%d.%s" % (si, name)))
            v = u(silf, r.p, w); r.p += w
            return v
        if ver >= 0x00030000:
            f(4, "ruleVersion"); f(2, "passOffset"); f(2, "pseudosOffset")
        f(2, "maxGlyph"); f(2, "extraAscent"); f(2, "extraDescent")
        npass = f(1, "numPasses"); f(1, "iSubst"); f(1, "iPos"); f(1, "iJust"); f(1, "iBidi"); f(1, "flags"); f(1, "maxPre"); f(1, "maxPost")
        f(1, "aPseudo"); f(1, "aBreak"); f(1, "aBidi"); f(1, "aMirror"); f(1, "aPassBits")
        nj = f(1, "numJust"); r.p += 8 * nj
        f(2, "aLig"); f(1, "aUser"); f(1, "maxComp"); f(1, "dir"); f(1, "aColl"); r.p += 3
        nc = f(1, "numCrit"); r.p += 2 * nc; r.p += 1
        ns = f(1, "numScript"); r.p += 4 * ns
        f(2, "lbGID")
        opass = []
        for i in range(npass + 1):
            if i < 3 or i >= npass - 1:
                F.append(("Silf", r.p, 4, "s%d.oPass%d" % (si, i)))
            opass.append(u(silf, r.p, 4)); r.p += 4
        nps = f(2, "numPseudo"); r.p += 6
        for i in range(nps):
            if i in (0, nps - 1):
                F.append(("Silf", r.p, 4, "s%d.pseudo%d.uid" % (si, i))); F.append(("Silf", r.p + 4, 2, "s%d.pseudo%d.gid" % (si, i)))
            r.p += 6
        ncls = f(2, "numClass"); nlin = f(2, "numLinear")
        w = 4 if ver >= 0x00040000 else 2
        co = []
        for i in range(ncls + 1):
            if i < 2 or i in (nlin - 1, nlin, nlin + 1) or i >= ncls - 1:
                F.append(("Silf", r.p, w, "s%d.classOff%d" % (si, i)))
            co.append(u(silf, r.p, w)); r.p += w
        cm = r.p - (4 + w * (ncls + 1))
        for c in list(range(nlin, min(ncls, nlin + 2))) + ([ncls - 1] if ncls > nlin else []):   # lookup class headers
            b = o + cm - o + co[c] if False else None
        base = cm
        for c in sorted(set(list(range(nlin, min(ncls, nlin + 2))) + ([ncls - 1] if ncls > nlin else []))):
            at = base + co[c]
            for k, nm in enumerate(("numIDs", "searchRange", "entrySelector", "rangeShift")):
                F.append(("Silf", at + 2 * k, 2, "s%d.class%d.%s" % (si, c, nm)))
        for pi in range(npass):
            if pi >= 3 and pi < npass - 2:
                continue
            ps = o + opass[pi]
            r = R(silf, ps)
            def g(w, name):
                F.append(("Silf", r.p, w, "s%d.p%d.%s" % (si, pi, name)))
                v = u(silf, r.p, w); r.p += w
                return v
            g(1, "flags"); g(1, "maxRuleLoop"); g(1, "maxRuleContext"); g(1, "maxBackup")
            nr = g(2, "numRules"); g(2, "fsmOffset"); g(4, "pcCode"); g(4, "rcCode"); g(4, "aCode"); g(4, "oDebug")
            g(2, "numRows"); ntr = g(2, "numTransitional"); nsucc = g(2, "numSuccess"); ncols = g(2, "numColumns"); nrange = g(2, "numRange")
            r.p += 6
            for i in range(nrange):
                if i < 2 or i >= nrange - 2:
                    F.append(("Silf", r.p, 2, "s%d.p%d.range%d.first" % (si, pi, i))); F.append(("Silf", r.p + 2, 2, "s%d.p%d.range%d.last" % (si, pi, i))); F.append(("Silf", r.p + 4, 2, "s%d.p%d.range%d.col" % (si, pi, i)))
                r.p += 6
            orm_last = 0
            for i in range(nsucc + 1):
                if i < 2 or i >= nsucc - 1:
                    F.append(("Silf", r.p, 2, "s%d.p%d.oRuleMap%d" % (si, pi, i)))
                orm_last = u(silf, r.p, 2); r.p += 2
            for i in range(orm_last):
                if i < 2 or i >= orm_last - 1:
                    F.append(("Silf", r.p, 2, "s%d.p%d.ruleMap%d" % (si, pi, i)))
                r.p += 2
            minp = g(1, "minPre"); maxp = g(1, "maxPre")
            for i in range(max(0, maxp - minp + 1)):
                F.append(("Silf", r.p, 2, "s%d.p%d.start%d" % (si, pi, i))); r.p += 2
            for i in range(nr):
                if i < 2 or i >= nr - 1:
                    F.append(("Silf", r.p, 2, "s%d.p%d.sort%d" % (si, pi, i)))
                r.p += 2
            for i in range(nr):
                if i < 2 or i >= nr - 1:
                    F.append(("Silf", r.p, 1, "s%d.p%d.pre%d" % (si, pi, i)))
                r.p += 1
            g(1, "collThreshold"); pcl = g(2, "pConstraintLen")
            for nm in ("oCon", "oAct"):
                for i in range(nr + 1):
                    if i < 2 or i >= nr - 1:
                        F.append(("Silf", r.p, 2, "s%d.p%d.%s%d" % (si, pi, nm, i)))
                    r.p += 2
            ntc = ntr * ncols
            for i in range(ntc):
                if i < 3 or i >= ntc - 2:
                    F.append(("Silf", r.p, 2, "s%d.p%d.trans%d" % (si, pi, i)))
                r.p += 2
            r.p += 1
            end = o + opass[pi + 1]
            for i in range(r.p, min(end, r.p + 24)):          # the first bytes of the code blocks (opcodes / operands)
                F.append(("Silf", i, 1, "s%d.p%d.code@%d" % (si, pi, i - r.p)))
            for i in range(max(r.p, end - 6), end):
                F.append(("Silf", i, 1, "s%d.p%d.codeend@%d" % (si, pi, end - i)))
    return [x for x in F if x[1] + x[2] <= len(silf)]


def simple_fields(S):
    """Fields of the sfnt-level and small tables."""
    F = []
    t = S.table("Gloc")
    if t:
        F += [("Gloc", 0, 4, "version"), ("Gloc", 4, 2, "flags"), ("Gloc", 6, 2, "numAttrs")]
        w = 4 if u(t, 4, 2) & 1 else 2
        n = (len(t) - 8) // w
        for i in sorted(set([0, 1, 2, n // 2, n - 3, n - 2, n - 1])):
            if 0 <= i < n:
                F.append(("Gloc", 8 + w * i, w, "loc%d" % i))
    t = S.table("Glat")
    if t:
        F += [("Glat", 0, 4, "version")]
        for i in list(range(4, min(len(t), 24))) + list(range(max(4, len(t) - 8), len(t))):
            F.append(("Glat", i, 1, "byte%d" % i))
    t = S.table("Feat")
    if t and len(t) >= 12:
        F += [("Feat", 0, 4, "version"), ("Feat", 4, 2, "numFeat")]
        v2 = u(t, 0, 4) >= 0x00020000
        rec = 16 if v2 else 12
        n = u(t, 4, 2)
        for i in sorted(set([0, 1, n - 1])):
            if 0 <= i < n:
                b = 12 + rec * i
                if v2:
                    F += [("Feat", b, 4, "f%d.id" % i), ("Feat", b + 4, 2, "f%d.numSettings" % i), ("Feat", b + 8, 4, "f%d.offset" % i), ("Feat", b + 12, 2, "f%d.flags" % i), ("Feat", b + 14, 2, "f%d.label" % i)]
                else:
                    F += [("Feat", b, 2, "f%d.id" % i), ("Feat", b + 2, 2, "f%d.numSettings" % i), ("Feat", b + 4, 4, "f%d.offset" % i), ("Feat", b + 8, 2, "f%d.flags" % i), ("Feat", b + 10, 2, "f%d.label" % i)]
    t = S.table("Sill")
    if t and len(t) >= 12:
        F += [("Sill", 0, 4, "version"), ("Sill", 4, 2, "numLangs")]
        n = u(t, 4, 2)
        for i in sorted(set([0, n - 1, n])):
            if 0 <= i <= n and 12 + 8 * i + 8 <= len(t):
                F += [("Sill", 12 + 8 * i, 4, "l%d.tag" % i), ("Sill", 16 + 8 * i, 2, "l%d.numSettings" % i), ("Sill", 18 + 8 * i, 2, "l%d.offset" % i)]
    t = S.table("name")
    if t and len(t) >= 6:
        F += [("name", 0, 2, "format"), ("name", 2, 2, "count"), ("name", 4, 2, "stringOffset")]
        n = u(t, 2, 2)
        win = [i for i in range(n) if 6 + 12 * i + 12 <= len(t) and u(t, 6 + 12 * i, 2) == 3]
        labels = set()
        ft = S.table("Feat")
        if ft and len(ft) >= 12:
            m = sfnt.read_feat_sill_name(S)
            for fdef in (m["feats"] if m else [])[:6]:
                labels.add(fdef["label"]); labels.update(fdef["setlabels"][:2])
        lab = [i for i in win if u(t, 6 + 12 * i + 6, 2) in labels][:10]
        for i in sorted(set([0, n - 1] + win[:2] + win[-2:] + lab)):
            if 0 <= i < n and 6 + 12 * i + 12 <= len(t):
                b = 6 + 12 * i
                F += [("name", b, 2, "r%d.platform" % i), ("name", b + 2, 2, "r%d.encoding" % i), ("name", b + 4, 2, "r%d.language" % i), ("name", b + 6, 2, "r%d.nameID" % i), ("name", b + 8, 2, "r%d.length" % i), ("name", b + 10, 2, "r%d.offset" % i)]
    t = S.table("cmap")
    if t and len(t) >= 4:
        F += [("cmap", 0, 2, "version"), ("cmap", 2, 2, "numTables")]
        n = u(t, 2, 2)
        for i in range(min(n, 4)):
            b = 4 + 8 * i
            F += [("cmap", b, 2, "e%d.platform" % i), ("cmap", b + 2, 2, "e%d.encoding" % i), ("cmap", b + 4, 4, "e%d.offset" % i)]
            o = u(t, b + 4, 4)
            if o + 16 <= len(t):
                fmt = u(t, o, 2)
                if fmt == 4:
                    F += [("cmap", o, 2, "st%d.format" % i), ("cmap", o + 2, 2, "st%d.length" % i), ("cmap", o + 6, 2, "st%d.segCountX2" % i)]
                    sc = u(t, o + 6, 2) // 2
                    for nm, base in (("end", o + 14), ("start", o + 16 + 2 * sc), ("delta", o + 16 + 4 * sc), ("rangeOff", o + 16 + 6 * sc)):
                        for k in sorted(set([0, 1, sc - 2, sc - 1])):
                            if 0 <= k < sc and base + 2 * k + 2 <= len(t):
                                F.append(("cmap", base + 2 * k, 2, "st%d.%s%d" % (i, nm, k)))
                elif fmt == 12:
                    F += [("cmap", o, 2, "st%d.format" % i), ("cmap", o + 4, 4, "st%d.length" % i), ("cmap", o + 12, 4, "st%d.numGroups" % i)]
                    ng = u(t, o + 12, 4)
                    for k in sorted(set([0, ng - 1])):
                        if 0 <= k < ng and o + 16 + 12 * k + 12 <= len(t):
                            F += [("cmap", o + 16 + 12 * k, 4, "st%d.g%d.start" % (i, k)), ("cmap", o + 20 + 12 * k, 4, "st%d.g%d.end" % (i, k)), ("cmap", o + 24 + 12 * k, 4, "st%d.g%d.gid" % (i, k))]
    for tag, offs in (("head", [(0, 4, "version"), (12, 4, "magic"), (18, 2, "unitsPerEm"), (50, 2, "indexToLocFormat"), (52, 2, "glyphDataFormat")]),
                      ("hhea", [(0, 4, "version"), (32, 2, "metricDataFormat"), (34, 2, "numberOfHMetrics")]),
                      ("maxp", [(0, 4, "version"), (4, 2, "numGlyphs")])):
        t = S.table(tag)
        if t:
            F += [(tag, o, w, nm) for (o, w, nm) in offs if o + w <= len(t)]
    t = S.table("loca")
    if t:
        w = 4 if (S.table("head") and u(S.table("head"), 50, 2) == 1) else 2
        n = len(t) // w
        for i in sorted(set([0, 1, n - 2, n - 1])):
            if 0 <= i < n:
                F.append(("loca", w * i, w, "loca%d" % i))
    t = S.table("hmtx")
    if t:
        F += [("hmtx", 0, 2, "adv0")] + ([("hmtx", len(t) - 4, 2, "advLast")] if len(t) >= 8 else [])
    return F


def boundary_values(orig, width, related):
    """Values to try for a field: around its own value, the type's corners, and around related lengths/counts."""
    mx = (1 << (8 * width)) - 1
    vals = {0, 1, mx, mx - 1, mx >> 1, (mx >> 1) + 1, orig - 1, orig + 1, orig ^ 1, (orig * 2) & mx, orig >> 1}
    for r in related:
        vals |= {r - 1, r, r + 1}
    return sorted(v for v in vals if 0 <= v <= mx and v != orig)
