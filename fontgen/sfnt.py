"""Independent sfnt reader (no graphite code): table directory, cmap subtables as the abstract model of spec/Cmap.tla."""
import struct


class Sfnt:
    def __init__(self, path=None, data=None):
        self.data = data if data is not None else open(path, "rb").read()
        d = self.data
        self.version, n = struct.unpack(">IH", d[:6])
        self.tables = {}
        self.order = []
        for i in range(n):
            tag, cs, off, ln = struct.unpack(">4sIII", d[12 + 16 * i: 28 + 16 * i])
            self.tables[tag.decode("latin1")] = (off, ln)
            self.order.append(tag.decode("latin1"))

    def table(self, tag):
        if tag not in self.tables:
            return None
        off, ln = self.tables[tag]
        return self.data[off:off + ln]


def build_sfnt(tables, version=0x00010000):
    """tables: dict tag -> bytes. Returns a well-formed sfnt file (checksums are not verified by graphite)."""
    tags = sorted(tables)
    n = len(tags)
    es = 0
    while (1 << (es + 1)) <= n:
        es += 1
    sr = (1 << es) * 16
    out = struct.pack(">IHHHH", version, n, sr, es, n * 16 - sr)
    off = 12 + 16 * n
    recs, blob = b"", b""
    for t in tags:
        b = tables[t]
        pad = (-len(b)) % 4
        recs += struct.pack(">4sIII", t.encode("latin1"), 0, off + len(blob), len(b))
        blob += b + b"\0" * pad
    return out + recs + blob


BMP_PREF = [(3, 1), (0, 3), (0, 2), (0, 1), (0, 0)]
SMP_PREF = [(3, 10), (0, 4)]


def read_cmap(cm):
    """Returns dict(segs, gia, has12, groups) for the subtables OpenType/graphite prefer, plus ref pieces."""
    ver, n = struct.unpack(">HH", cm[:4])
    recs = {}
    for i in range(n):
        pid, eid, off = struct.unpack(">HHI", cm[4 + 8 * i: 12 + 8 * i])
        recs.setdefault((pid, eid), off)
    def pick(pref, fmt):
        for k in pref:
            if k in recs and struct.unpack(">H", cm[recs[k]:recs[k] + 2])[0] == fmt:
                return recs[k]
        return None
    o4 = pick(BMP_PREF, 4)
    o12 = pick(SMP_PREF, 12)
    res = {"segs": [], "gia": [], "has12": o12 is not None, "groups": []}
    pieces = []
    if o4 is not None:
        fmt, length, lang, segx2 = struct.unpack(">HHHH", cm[o4:o4 + 8])
        nseg = segx2 // 2
        p = o4 + 14
        ends = struct.unpack(">%dH" % nseg, cm[p:p + 2 * nseg]); p += 2 * nseg + 2
        starts = struct.unpack(">%dH" % nseg, cm[p:p + 2 * nseg]); p += 2 * nseg
        deltas = struct.unpack(">%dH" % nseg, cm[p:p + 2 * nseg]); p += 2 * nseg
        ro_pos = p
        ros = struct.unpack(">%dH" % nseg, cm[p:p + 2 * nseg]); p += 2 * nseg
        sub_end = o4 + length
        last_end = -1
        for i in range(nseg):
            s, e, dl, ro = starts[i], ends[i], deltas[i], ros[i]
            lo = max(s, last_end + 1)      # first segment whose end >= c decides: earlier segments shadow
            if e > last_end and lo <= e:
                if ro == 0:
                    pieces.append({"lo": lo, "hi": e, "kind": "delta", "base": (lo + dl) & 0xFFFF, "gids": []})
                else:
                    gids = []
                    for c in range(lo, e + 1):
                        a = ro_pos + 2 * i + ro + 2 * (c - s)
                        if a + 2 > sub_end or a + 2 > len(cm):
                            gids.append(0)
                        else:
                            g = struct.unpack(">H", cm[a:a + 2])[0]
                            gids.append((g + dl) & 0xFFFF if g else 0)
                    pieces.append({"lo": lo, "hi": e, "kind": "list", "base": 0, "gids": gids})
            last_end = max(last_end, e)
            res["segs"].append({"s": s, "e": e, "delta": dl, "off": ro})
    if o12 is not None:
        fmt, _, length, lang, ng = struct.unpack(">HHIII", cm[o12:o12 + 16])
        covered = -1
        for i in range(ng):
            s, e, g = struct.unpack(">III", cm[o12 + 16 + 12 * i: o12 + 28 + 12 * i])
            res["groups"].append({"s": s, "e": e, "g": g})
            lo = max(s, 0x10000, covered + 1)      # supplementary planes only; the first group containing c decides
            if lo <= e:
                pieces.append({"lo": lo, "hi": e, "kind": "delta", "base": (g + (lo - s)) & 0xFFFF, "gids": []})
            covered = max(covered, e)
    res["ref"] = pieces
    return res
