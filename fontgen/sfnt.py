"""Independent sfnt reader (no graphite code): table directory, cmap subtables as the abstract model of spec/Cmap.tla."""
import struct


class Sfnt:
    def __init__(self, path=None, data=None):
        self.data = data if data is not None else open(path, "rb").read()
        d = self.data
        self.version, n = struct.unpack(">IH", d[:6])
        self.tables = {}
        self.order = []
        for i in range(n):
            tag, cs, off, ln = struct.unpack(">4sIII", d[12 + 16 * i: 28 + 16 * i])
            self.tables[tag.decode("latin1")] = (off, ln)
            self.order.append(tag.decode("latin1"))

    def table(self, tag):
        if tag not in self.tables:
            return None
        off, ln = self.tables[tag]
        return self.data[off:off + ln]


def build_sfnt(tables, version=0x00010000):
    """tables: dict tag -> bytes. Returns a well-formed sfnt file (checksums are not verified by graphite)."""
    tags = sorted(tables)
    n = len(tags)
    es = 0
    while (1 << (es + 1)) <= n:
        es += 1
    sr = (1 << es) * 16
    out = struct.pack(">IHHHH", version, n, sr, es, n * 16 - sr)
    off = 12 + 16 * n
    recs, blob = b"", b""
    for t in tags:
        b = tables[t]
        pad = (-len(b)) % 4
        recs += struct.pack(">4sIII", t.encode("latin1"), 0, off + len(blob), len(b))
        blob += b + b"\0" * pad
    return out + recs + blob


BMP_PREF = [(3, 1), (0, 3), (0, 2), (0, 1), (0, 0)]
SMP_PREF = [(3, 10), (0, 4)]


def read_cmap(cm):
    """Returns dict(segs, gia, has12, groups) for the subtables OpenType/graphite prefer, plus ref pieces."""
    ver, n = struct.unpack(">HH", cm[:4])
    recs = {}
    for i in range(n):
        pid, eid, off = struct.unpack(">HHI", cm[4 + 8 * i: 12 + 8 * i])
        recs.setdefault((pid, eid), off)
    def pick(pref, fmt):
        for k in pref:
            if k in recs and struct.unpack(">H", cm[recs[k]:recs[k] + 2])[0] == fmt:
                return recs[k]
        return None
    o4 = pick(BMP_PREF, 4)
    o12 = pick(SMP_PREF, 12)
    res = {"segs": [], "gia": [], "has12": o12 is not None, "groups": []}
    pieces = []
    if o4 is not None:
        fmt, length, lang, segx2 = struct.unpack(">HHHH", cm[o4:o4 + 8])
        nseg = segx2 // 2
        p = o4 + 14
        ends = struct.unpack(">%dH" % nseg, cm[p:p + 2 * nseg]); p += 2 * nseg + 2
        starts = struct.unpack(">%dH" % nseg, cm[p:p + 2 * nseg]); p += 2 * nseg
        deltas = struct.unpack(">%dH" % nseg, cm[p:p + 2 * nseg]); p += 2 * nseg
        ro_pos = p
        ros = struct.unpack(">%dH" % nseg, cm[p:p + 2 * nseg]); p += 2 * nseg
        sub_end = o4 + length
        last_end = -1
        for i in range(nseg):
            s, e, dl, ro = starts[i], ends[i], deltas[i], ros[i]
            lo = max(s, last_end + 1)      # first segment whose end >= c decides: earlier segments shadow
            if e > last_end and lo <= e:
                if ro == 0:
                    pieces.append({"lo": lo, "hi": e, "kind": "delta", "base": (lo + dl) & 0xFFFF, "gids": []})
                else:
                    gids = []
                    for c in range(lo, e + 1):
                        a = ro_pos + 2 * i + ro + 2 * (c - s)
                        if a + 2 > sub_end or a + 2 > len(cm):
                            gids.append(0)
                        else:
                            g = struct.unpack(">H", cm[a:a + 2])[0]
                            gids.append((g + dl) & 0xFFFF if g else 0)
                    pieces.append({"lo": lo, "hi": e, "kind": "list", "base": 0, "gids": gids})
            last_end = max(last_end, e)
            res["segs"].append({"s": s, "e": e, "delta": dl, "off": ro})
    if o12 is not None:
        fmt, _, length, lang, ng = struct.unpack(">HHIII", cm[o12:o12 + 16])
        covered = -1
        for i in range(ng):
            s, e, g = struct.unpack(">III", cm[o12 + 16 + 12 * i: o12 + 28 + 12 * i])
            res["groups"].append({"s": s, "e": e, "g": g})
            lo = max(s, 0x10000, covered + 1)      # supplementary planes only; the first group containing c decides
            if lo <= e:
                pieces.append({"lo": lo, "hi": e, "kind": "delta", "base": (g + (lo - s)) & 0xFFFF, "gids": []})
            covered = max(covered, e)
    res["ref"] = pieces
    return res


def read_feat_sill_name(S):
    """Independent reader of Feat / Sill / name: abstract feature model of a shipped font (spec/Features.tla vocabulary)."""
    ft = S.table("Feat")
    if not ft:
        return None
    ver, n = struct.unpack(">IH", ft[:6])
    feats = []
    p = 12
    for i in range(n):
        if ver >= 0x00020000:
            fid, ns, _, off, flags, label = struct.unpack(">IHHIHH", ft[p:p + 16]); p += 16
        else:
            fid, ns, off, flags, label = struct.unpack(">HHIHH", ft[p:p + 12]); p += 12
        sets = [struct.unpack(">HH", ft[off + 4 * j: off + 4 * j + 4]) for j in range(ns)]
        feats.append({"id": fid, "flags": flags, "label": label, "settings": [s[0] for s in sets], "setlabels": [s[1] for s in sets]})
    def fmax(f):
        return max(f["settings"]) if f["settings"] else None
    defaults = [(f["settings"][0] if f["settings"] else 0) for f in feats]
    langs = []
    sl = S.table("Sill")
    if sl and len(sl) >= 12:
        nl = struct.unpack(">H", sl[4:6])[0]
        for i in range(nl):
            tag, ns, off = struct.unpack(">IHH", sl[12 + 8 * i: 20 + 8 * i])
            vals = list(defaults)
            for j in range(ns):
                fid, v = struct.unpack(">IH", sl[off + 8 * j: off + 8 * j + 6])
                for k, f in enumerate(feats):
                    if f["id"] == fid and (fmax(f) is None or v <= fmax(f)):
                        vals[k] = v
            for k, f in enumerate(feats):          # language id goes to feature id 1 when it accepts it
                if f["id"] == 1 and (fmax(f) is None or tag <= fmax(f)):
                    vals[k] = tag & 0xFFFF if fmax(f) is not None else None   # 32-bit store; only the low 16 bits are readable
            langs.append({"tag": tag, "values": vals})
    names = {}
    nm = S.table("name")
    if nm:
        fmt, cnt, so = struct.unpack(">HHH", nm[:6])
        for i in range(cnt):
            pid, eid, lid, nid, ln, off = struct.unpack(">HHHHHH", nm[6 + 12 * i: 18 + 12 * i])
            if pid == 3 and eid == 1 and lid == 0x409 and nid not in names:
                raw = nm[so + off: so + off + ln]
                names[nid] = list(struct.unpack(">%dH" % (len(raw) // 2), raw[:len(raw) // 2 * 2]))
    for f in feats:
        f["label_u16"] = names.get(f["label"])
        f["setlabels_u16"] = [names.get(x) for x in f["setlabels"]]
    return {"feats": feats, "defaults": defaults, "langs": langs}
